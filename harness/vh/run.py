"""Generic runner of one check:  python -m vh.run Cxx [--tier quick|thorough] [--replay file]"""
import argparse
import importlib
import json
import os
import random
import sys
import time
import traceback

from . import lean

ROOT = lean.ROOT


def load_known():
    p = os.path.join(ROOT, "known_findings.json")
    if not os.path.exists(p):
        return []
    return json.load(open(p))


class Ctx:
    def __init__(self, pid, tier, seed):
        self.pid, self.tier, self.seed = pid, tier, seed
        self.t0 = time.time()
        self.evaluations = 0
        self.distinct = set()
        self.samples = []
        self.violations = []  # (key, what, case)
        self.disagreements = []  # (stream, case, impl, model)
        self.streams = {}  # name -> count
        self.dist = {}
        self.notes = {}
        self.lean_status = None

    def rng(self, *salt):
        return random.Random("%s|%s|%s" % (self.pid, self.seed, "|".join(map(str, salt))))

    @property
    def quick(self):
        return self.tier == "quick"

    def n(self, quick, thorough):
        return quick if self.quick else thorough

    def count(self, stream, case, nontrivial):
        self.evaluations += 1
        self.streams[stream] = self.streams.get(stream, 0) + 1
        if nontrivial:
            self.distinct.add(json.dumps(case, sort_keys=True, default=str))
        if len(self.samples) < 4 and nontrivial and self.streams[stream] <= 2:
            self.samples.append({"stream": stream, "case": case})

    def tally(self, key, inc=1):
        self.dist[key] = self.dist.get(key, 0) + inc

    def violation(self, key, what, case):
        self.violations.append((key, what, case))

    def disagree(self, stream, case, impl, model):
        self.disagreements.append((stream, case, impl, model))


def anchored_files(pid):
    """source files the property is anchored in (properties.jsonl), below the repository under verification"""
    repo = os.environ.get("VERIF_REPO", "/repo")
    for l in open(os.path.join(ROOT, "properties.jsonl")):
        p = json.loads(l)
        if p["id"] == pid:
            return [os.path.join(repo, f) for f in p["anchors"]["files"]]
    return []


def start_coverage(pid):
    """line + branch coverage of the anchored files while the in-process correspondence runs (how much of the
    code the generated cases reach; child processes - runtime workers, daemons - are not measured)"""
    try:
        os.environ.setdefault("COVERAGE_CORE", "sysmon")      # sys.monitoring: far cheaper than tracing
        import coverage
        files = [f for f in anchored_files(pid) if os.path.exists(f)]
        if not files:
            return None
        import warnings
        warnings.filterwarnings("ignore", category=coverage.exceptions.CoverageWarning)
        c = coverage.Coverage(branch=False, include=files, data_file=None, config_file=False)
        c.start()
        return c
    except Exception:
        return None


def stop_coverage(cov, ctx):
    if cov is None:
        return
    try:
        cov.stop()
        out = {}
        for f in sorted(cov.get_data().measured_files()):
            _, stmts, _, missing, _ = cov.analysis2(f)
            if stmts:
                out[os.path.relpath(f, os.environ.get("VERIF_REPO", "/repo"))] = {
                    "statements": len(stmts), "executed": len(stmts) - len(missing), "missing_lines": missing[:40]}
        ctx.notes["coverage_of_anchored_files_in_process"] = out or "nothing measured in this process (the implementation runs in child processes)"
    except Exception as e:
        ctx.notes["coverage_of_anchored_files_in_process"] = "unavailable: %s" % e


def write_replay(pid, seed, name, payload):
    d = os.path.join(ROOT, "replays")
    os.makedirs(d, exist_ok=True)
    p = os.path.join(d, "%s-%s-%s.json" % (pid, seed, name))
    with open(p, "w") as f:
        json.dump(payload, f, indent=1, default=str, sort_keys=True)
    return os.path.relpath(p, ROOT)


def write_evidence(ctx, mod, nviol, extra_assumptions=()):
    st = ctx.lean_status or {}
    theorems = st.get("theorems", {})
    n_thm = len(lean.theorems_of(ctx.pid))
    ok_thm = sum(
        1 for n, a in theorems.items() if a is not None and set(a) <= lean.ALLOWED_AXIOMS
    ) if st.get("props_ok") else 0
    streams = list(getattr(mod, "STREAMS", [])) or sorted(ctx.streams)
    bad_streams = {d[0] for d in ctx.disagreements}
    obligations = n_thm + len(streams)
    discharged = ok_thm + sum(1 for s in streams if s not in bad_streams and ctx.streams.get(s, 0) > 0)
    axioms = sorted({a for v in theorems.values() if v for a in v})
    ev = {
        "property_id": ctx.pid,
        "tier": ctx.tier,
        "seed": ctx.seed,
        "level": "proof",
        "coverage": {
            "obligations": obligations,
            "discharged": discharged,
            "checker_cmd": "cd lean && lake build CobaldVerif.Props.%s && lake env lean <#print axioms of every theorem in Props/%s.lean>; "
            "lean/.lake/build/bin/driver < cases (the compiled Driver.lean; `lake env lean --run Driver.lean` with VERIF_INTERPRET=1) (correspondence against /repo/src)" % (ctx.pid, ctx.pid),
            "trusted_base": [
                "Lean 4.33.0 kernel",
                "axioms found by #print axioms: %s" % (", ".join(axioms) or "none"),
                "hand-written model lean/CobaldVerif/Model (tied to the code by the correspondence streams: %s)" % ", ".join(streams),
                "Python harness: generators, canonicalisers, independent oracle",
            ]
            + (["translator harness/vh/translate.py: the Lean text of Generated/Src*.lean is regenerated from the source of /repo on every run "
                "(translation rules, and for pinned functions the transcription of the model from harness/vh/pins.json, are trusted); "
                "theorems named gen_* equate it with the hand-written model"] if getattr(mod, "REGENERATE_SRC", False) else [])
            + list(getattr(mod, "TRUSTED", [])),
            "theorems": {n: a for n, a in theorems.items()},
            "proof_obligations_broken": st.get("bad", []),
            "evaluations": ctx.evaluations,
            "distinct_nontrivial": len(ctx.distinct),
            "rule": getattr(mod, "RULE", ""),
            "samples": ctx.samples[:4] or [{"note": "no case sampled"}],
            "streams": ctx.streams,
            "distribution": ctx.dist,
            "disagreements": len(ctx.disagreements),
            "lean_sources_digest": lean.sources_digest(),
            "leanchecker": st.get("leanchecker", "not run (quick tier)"),
            **ctx.notes,
        },
        "assumptions": list(getattr(mod, "ASSUMPTIONS", [])) + list(extra_assumptions),
        "wall_s": round(time.time() - ctx.t0, 2),
        "violations": nviol,
    }
    # experiments on scratch copies / seeded changes must not overwrite the evidence of the real tree
    d = os.environ.get("VERIF_EVIDENCE_DIR") or os.path.join(ROOT, "evidence")
    os.makedirs(d, exist_ok=True)
    with open(os.path.join(d, ctx.pid + ".json"), "w") as f:
        json.dump(ev, f, indent=1, default=str)


def match_known(known, pid, key):
    for k in known:
        if k.get("property") == pid and k.get("status") == "known" and k.get("key") == key:
            return k
    return None


def main(argv=None):
    # A check started as a background job of a non-interactive shell inherits SIGINT as *ignored*; Python then
    # installs no handler, and every child process (scenario workers, the daemon under test) would ignore the
    # SIGINTs the checks send on purpose. A handler set here is reset to the default action in every exec'd child.
    import signal
    if signal.getsignal(signal.SIGINT) in (signal.SIG_IGN, None):
        signal.signal(signal.SIGINT, signal.default_int_handler)
    ap = argparse.ArgumentParser()
    ap.add_argument("pid")
    ap.add_argument("--tier", default=os.environ.get("VERIF_TIER", "quick"), choices=["quick", "thorough"])
    ap.add_argument("--replay")
    args = ap.parse_args(argv)
    seed = int(os.environ.get("VERIF_SEED", "0") or 0)
    pid = args.pid
    try:
        mod = importlib.import_module("vh.props.%s" % pid)
    except ImportError:
        traceback.print_exc()
        print("no check for %s" % pid)
        return 2
    if args.replay:
        payload = json.load(open(args.replay))
        return mod.replay(payload)
    ctx = Ctx(pid, args.tier, seed)
    known = load_known()
    cov = start_coverage(pid)
    try:
        regen_error = None
        if getattr(mod, "REGENERATE_SRC", False):
            # the model text that is translated from the source is re-emitted first: the theorems that
            # equate it with the hand-written model are then re-checked against the current source
            try:
                from . import translate
                ctx.notes["generated_src_changed"] = translate.regenerate()
            except Exception as e:
                regen_error = "%s: %s" % (type(e).__name__, e)
        ctx.lean_status = lean.prepare(pid, thorough=args.tier == "thorough")
        if regen_error:
            ctx.lean_status["bad"].append("translator:harness/vh/translate.py (%s)" % regen_error[:200])
        if not ctx.lean_status["driver_ok"]:
            # the executable model itself does not build: if generated tables are the
            # cause this is a broken obligation, otherwise an internal error
            print(ctx.lean_status["log"])
            if getattr(mod, "DRIVER_DEPENDS_ON_GENERATED", False):
                ctx.lean_status["bad"].append("build:CobaldVerif.Drive.All")
            else:
                print("INTERNAL: Lean driver does not build")
                return 2
        mod.run(ctx)
    except Exception:
        traceback.print_exc()
        print("INTERNAL: check crashed")
        return 2
    finally:
        stop_coverage(cov, ctx)
    # verdict
    rc = 0
    seen = set()
    unknown = 0
    for key, what, case in ctx.violations:
        if key in seen:
            continue
        seen.add(key)
        k = match_known(known, pid, key)
        if k:
            print("KNOWN-FINDING: property=%s %s" % (pid, k.get("what", what)))
            continue
        unknown += 1
        if unknown <= 5:
            path = write_replay(pid, seed, "v%d" % unknown, {"property": pid, "kind": "oracle", "key": key, "what": what, "case": case})
            print("VIOLATION property=%s replay=%s" % (pid, path))
            print("  what: %s" % what)
        rc = 1
    broken = list(ctx.lean_status.get("bad", []))
    if unknown == 0 and (ctx.disagreements or broken):
        names = broken + ["correspondence:%s" % s for s in sorted({d[0] for d in ctx.disagreements})]
        payload = {
            "property": pid,
            "kind": "no-failing-input-found",
            "no_longer_checks": names,
            "lean_log": ctx.lean_status.get("log", "")[-3000:],
            "disagreements": [
                {"stream": s, "case": c, "impl": i, "model": m} for s, c, i, m in ctx.disagreements[:5]
            ],
        }
        path = write_replay(pid, seed, "broken", payload)
        print("VIOLATION property=%s replay=%s no-failing-input-found" % (pid, path))
        print("  no longer checks: %s" % ", ".join(names))
        for s_, c_, i_, m_ in ctx.disagreements[:2]:
            print("  disagreement[%s]: impl=%s model=%s" % (s_, json.dumps(i_, default=str)[-700:], json.dumps(m_, default=str)[:200]))
        rc = 1
    write_evidence(ctx, mod, unknown + (1 if rc and not unknown else 0))
    print("%s %s tier=%s seed=%d evaluations=%d distinct_nontrivial=%d theorems=%d wall=%.1fs" % (
        pid, "OK" if rc == 0 else "FAIL", ctx.tier, seed, ctx.evaluations, len(ctx.distinct),
        len(ctx.lean_status.get("theorems", {})), time.time() - ctx.t0))
    return rc


if __name__ == "__main__":
    sys.exit(main())

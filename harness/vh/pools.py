"""Plain recording pools used by the correspondence checks."""
from cobald.interfaces import Pool


class RecPool(Pool):
    """A pool whose four attributes are plain values; every demand write is logged."""

    def __init__(self, supply=0, demand=0, utilisation=1, allocation=1, log=None, name="pool"):
        self._supply = supply
        self._demand = demand
        self._utilisation = utilisation
        self._allocation = allocation
        self.writes = [] if log is None else log
        self.name = name

    @property
    def supply(self):
        return self._supply

    @supply.setter
    def supply(self, v):
        self._supply = v

    @property
    def demand(self):
        return self._demand

    @demand.setter
    def demand(self, v):
        self.writes.append(v)
        self._demand = v

    @property
    def utilisation(self):
        return self._utilisation

    @utilisation.setter
    def utilisation(self, v):
        self._utilisation = v

    @property
    def allocation(self):
        return self._allocation

    @allocation.setter
    def allocation(self, v):
        self._allocation = v

"""Synthetic importable package with recording factories (used by C19, C05, C14)."""
import os
import shutil
import sys
import tempfile

PKG = "vh_synthpkg"

INIT = '''
LOG = []

class Obj:
    def __init__(self, idx, fid):
        self.idx, self.fid = idx, fid
    def __repr__(self):
        return "Obj(%d,%d)" % (self.idx, self.fid)

def _rec(fid):
    def factory(*args, **kwargs):
        LOG.append((fid, args, kwargs))
        return Obj(len(LOG) - 1, fid)
    factory.__name__ = "f%d" % fid
    return factory

f0 = _rec(0)

class K:
    def __new__(cls, *args, **kwargs):
        LOG.append((2, args, kwargs))
        return Obj(len(LOG) - 1, 2)

class _NS:
    pass

ns = _NS()
ns.inner = _NS()
ns.inner.g = _rec(3)

def boom(*args, **kwargs):
    raise ValueError("boom")

# a callable whose signature cannot be introspected (as for many callables implemented in C:
# datetime.timedelta, dict, int, collections.deque ...): it is simply called
nosig = _rec(8)
nosig.__signature__ = "not introspectable"

notcallable = 5
'''

SUB = '''
from . import _rec
f1 = _rec(1)
'''

NAMES = {PKG + ".f0": 0, PKG + ".sub.f1": 1, PKG + ".K": 2, PKG + ".ns.inner.g": 3,
         PKG + ".boom": 4, PKG + ".notcallable": 5, PKG: 6, PKG + ".sub": 7, PKG + ".nosig": 8}
FAILS = [4, 5, 6, 7]
UNRESOLVABLE = ["vh_nomodule_xyz.thing", PKG + ".nope", PKG + ".sub.nope", PKG + ".ns.nope.g"]


class Synth:
    def __enter__(self):
        self.dir = tempfile.mkdtemp(prefix="vh-synth-")
        d = os.path.join(self.dir, PKG)
        os.makedirs(d)
        open(os.path.join(d, "__init__.py"), "w").write(INIT)
        open(os.path.join(d, "sub.py"), "w").write(SUB)
        sys.path.insert(0, self.dir)
        import importlib
        importlib.invalidate_caches()
        self.mod = importlib.import_module(PKG)
        return self

    def __exit__(self, *a):
        sys.path.remove(self.dir)
        for k in [k for k in sys.modules if k == PKG or k.startswith(PKG + ".")]:
            del sys.modules[k]
        shutil.rmtree(self.dir, ignore_errors=True)

"""Lean side of a check: build, axiom audit, forbidden-token scan, driver invocation."""
import fcntl
import hashlib
import json
import os
import re
import subprocess
import tempfile
import time

ROOT = os.path.dirname(os.path.dirname(os.path.dirname(os.path.abspath(__file__))))
LEAN_DIR = os.path.join(ROOT, "lean")
_OVERLAY = [None]


def experiment():
    """the check is pointed at a scratch copy of the repository (a seeded change is being tried)"""
    return os.path.realpath(os.environ.get("VERIF_REPO", "/repo")) != "/repo"


def use_overlay():
    """Experiments must not rewrite the generated Lean files of the real project (other checks build from
    them at the same time): the process switches to a private copy of the Lean project, build output
    included, which is removed when the process exits."""
    global LEAN_DIR, DRIVER_EXE
    if _OVERLAY[0] is None:
        import atexit
        import shutil
        with Lock():
            d = tempfile.mkdtemp(prefix="vh-lean-")
            dst = os.path.join(d, "lean")
            shutil.copytree(LEAN_DIR, dst, symlinks=True, ignore=shutil.ignore_patterns("verif-build.lock"))
        _OVERLAY[0] = d
        LEAN_DIR = dst
        DRIVER_EXE = os.path.join(LEAN_DIR, ".lake", "build", "bin", "driver")
        atexit.register(lambda: shutil.rmtree(d, ignore_errors=True))
    return LEAN_DIR


def write_generated(rel, text):
    """write a regenerated Lean file if its text changed; returns True if it did"""
    path = os.path.join(LEAN_DIR, rel)
    old = open(path).read() if os.path.exists(path) else ""
    if old == text:
        return False
    if experiment():
        path = os.path.join(use_overlay(), rel)
    with Lock():
        with open(path, "w") as f:
            f.write(text)
    return True
ALLOWED_AXIOMS = {"propext", "Classical.choice", "Quot.sound"}
FORBIDDEN = re.compile(
    r"\bsorry\b|\badmit\b|^axiom\s|\bnative_decide\b|\bbv_decide\b|implemented_by|\bunsafe\s|maxHeartbeats\s+0\b",
    re.M,
)


class Lock:
    def __enter__(self):
        os.makedirs(os.path.join(LEAN_DIR, ".lake"), exist_ok=True)
        self.f = open(os.path.join(LEAN_DIR, ".lake", "verif-build.lock"), "w")
        fcntl.flock(self.f, fcntl.LOCK_EX)
        return self

    def __exit__(self, *a):
        fcntl.flock(self.f, fcntl.LOCK_UN)
        self.f.close()


def _run(cmd, timeout=3600, input=None):
    p = subprocess.run(
        cmd, cwd=LEAN_DIR, input=input, capture_output=True, text=True, timeout=timeout
    )
    return p.returncode, p.stdout, p.stderr


def build(target):
    """lake build <target>; returns (ok, log)"""
    with Lock():
        rc, out, err = _run(["lake", "build", target])
    return rc == 0, (out + err)[-6000:]


def strip_comments(src):
    """remove /- -/ (nested) and -- comments"""
    out, i, depth, n = [], 0, 0, len(src)
    while i < n:
        if src.startswith("/-", i):
            depth += 1
            i += 2
        elif depth and src.startswith("-/", i):
            depth -= 1
            i += 2
        elif depth:
            if src[i] == "\n":
                out.append("\n")
            i += 1
        elif src.startswith("--", i):
            while i < n and src[i] != "\n":
                i += 1
        else:
            out.append(src[i])
            i += 1
    return "".join(out)


def lean_sources():
    res = []
    for d, _, fs in os.walk(LEAN_DIR):
        if ".lake" in d.split(os.sep):
            continue
        for f in fs:
            if f.endswith(".lean"):
                res.append(os.path.join(d, f))
    return sorted(res)


def forbidden_scan():
    hits = []
    for p in lean_sources():
        src = strip_comments(open(p).read())
        for m in FORBIDDEN.finditer(src):
            line = src.count("\n", 0, m.start()) + 1
            hits.append("%s:%d:%s" % (os.path.relpath(p, LEAN_DIR), line, m.group(0).strip()))
    return hits


def theorems_of(pid):
    """names of the property theorems declared in Props/<pid>.lean"""
    p = os.path.join(LEAN_DIR, "CobaldVerif", "Props", pid + ".lean")
    if not os.path.exists(p):
        return []
    src = strip_comments(open(p).read())
    return re.findall(r"^theorem\s+([A-Za-z0-9_'.]+)", src, re.M)


def audit(pid):
    """#print axioms for every property theorem; returns dict name -> sorted axiom list
    (or None if the name could not be audited)"""
    names = theorems_of(pid)
    if not names:
        return {}
    body = ["import CobaldVerif.Props.%s" % pid, "open Cobald.Props.%s" % pid]
    for n in names:
        body.append("#print axioms %s" % n)
    with tempfile.NamedTemporaryFile("w", suffix=".lean", delete=False, dir=os.environ.get("TMPDIR")) as f:
        f.write("\n".join(body) + "\n")
        path = f.name
    try:
        with Lock():
            pass  # wait for a concurrent build to finish before reading oleans
        rc, out, err = _run(["lake", "env", "lean", path], timeout=1800)
    finally:
        os.unlink(path)
    res = {n: None for n in names}
    text = out + err
    # "'Name' depends on axioms: [a, b]"  /  "'Name' does not depend on any axioms"
    for m in re.finditer(r"'(\S+)' depends on axioms:\s*\[([^\]]*)\]", text, re.S):
        short = m.group(1).split(".")[-1]
        axs = sorted(a.strip() for a in m.group(2).replace("\n", " ").split(",") if a.strip())
        for n in names:
            if n == m.group(1) or n.split(".")[-1] == short:
                res[n] = axs
    for m in re.finditer(r"'(\S+)' does not depend on any axioms", text):
        short = m.group(1).split(".")[-1]
        for n in names:
            if n == m.group(1) or n.split(".")[-1] == short:
                res[n] = []
    return res


def leancheck(pid):
    """independent re-check of the compiled property module (and what it imports) with leanchecker"""
    with Lock():
        pass
    try:
        rc, out, err = _run(["lake", "env", "leanchecker", "CobaldVerif.Props.%s" % pid], timeout=3000)
    except Exception as e:
        return False, str(e)
    return rc == 0, (out + err)[-1500:]


def prepare(pid, thorough=False):
    """Build driver + property theorems, audit. Returns a status dict:
    driver_ok, props_ok, log, theorems {name: axioms}, bad_axioms, forbidden"""
    t0 = time.time()
    st = {"driver_ok": False, "props_ok": False, "log": "", "theorems": {}, "bad": [], "forbidden": []}
    ok, log = build("CobaldVerif.Drive.All")
    if ok:
        # the native driver (models are import-free); the interpreter is the fallback
        st["driver_native"], _ = build("driver")
    st["driver_ok"] = ok
    if not ok:
        st["log"] = log
        return st
    if not theorems_of(pid):
        st["props_ok"] = False
        st["log"] = "no property theorems in Props/%s.lean" % pid
        return st
    ok, log = build("CobaldVerif.Props.%s" % pid)
    st["props_ok"] = ok
    if not ok:
        st["log"] = log
        st["bad"].append("build:CobaldVerif.Props.%s" % pid)
    else:
        th = audit(pid)
        st["theorems"] = th
        for n, axs in th.items():
            if axs is None:
                st["bad"].append("theorem:%s (not audited)" % n)
            elif not set(axs) <= ALLOWED_AXIOMS:
                st["bad"].append("theorem:%s axioms=%s" % (n, axs))
    if ok and thorough:
        good, log = leancheck(pid)
        st["leanchecker"] = "ok" if good else log
        if not good:
            st["bad"].append("leanchecker:CobaldVerif.Props.%s" % pid)
    st["forbidden"] = forbidden_scan()
    for h in st["forbidden"]:
        st["bad"].append("forbidden-token:%s" % h)
    st["wall_s"] = time.time() - t0
    return st


DRIVER_EXE = os.path.join(LEAN_DIR, ".lake", "build", "bin", "driver")


def _drive_chunk(lines, timeout):
    data = "\n".join(lines) + "\n"
    if os.path.exists(DRIVER_EXE) and not os.environ.get("VERIF_INTERPRET"):
        cmd = [DRIVER_EXE]
    else:
        cmd = ["lake", "env", "lean", "--run", "Driver.lean"]
    rc, out, err = _run(cmd, input=data, timeout=timeout)
    if rc != 0:
        raise RuntimeError("lean driver failed: %s" % (err[-2000:] or out[-2000:]))
    res = [json.loads(l) for l in out.splitlines() if l.strip()]
    if len(res) != len(lines):
        raise RuntimeError("driver returned %d lines for %d requests" % (len(res), len(lines)))
    return res


def drive(lines, timeout=3600, jobs=1):
    """pipe request lines through the Lean driver; returns list of parsed JSON outputs.
    Requests are independent, so they may be spread over several driver processes."""
    if not lines:
        return []
    with Lock():
        pass
    jobs = max(1, min(jobs, len(lines)))
    if jobs == 1:
        return _drive_chunk(lines, timeout)
    from concurrent.futures import ThreadPoolExecutor
    chunks = [lines[i::jobs] for i in range(jobs)]
    with ThreadPoolExecutor(max_workers=jobs) as ex:
        outs = list(ex.map(lambda c: _drive_chunk(c, timeout), chunks))
    res = [None] * len(lines)
    for i, o in enumerate(outs):
        res[i::jobs] = o
    return res


def sources_digest():
    h = hashlib.sha256()
    for p in lean_sources():
        h.update(p.encode())
        h.update(open(p, "rb").read())
    return h.hexdigest()[:16]

"""Exact numbers on the wire: "n/d", "inf", "-inf" (never decimal floats)."""
import math
from fractions import Fraction

INF = float("inf")


def wire(x):
    """int / Fraction / float (finite dyadic or inf) -> wire string"""
    if isinstance(x, bool):
        x = int(x)
    if isinstance(x, float):
        if math.isinf(x):
            return "inf" if x > 0 else "-inf"
        if math.isnan(x):
            return "nan"
        x = Fraction(x)
    if isinstance(x, int):
        return "%d/1" % x
    if isinstance(x, Fraction):
        return "%d/%d" % (x.numerator, x.denominator)
    raise TypeError("not a number: %r" % (x,))


def unwire(s):
    if s == "inf":
        return INF
    if s == "-inf":
        return -INF
    if "/" in s:
        n, d = s.split("/")
        return Fraction(int(n), int(d))
    return Fraction(int(s))


def canon(x):
    """canonical wire string of an implementation value (for exact comparison)"""
    if x is None:
        return None
    try:
        return wire(x)
    except TypeError:
        return "?%s" % type(x).__name__


def exact(x):
    """Fraction or +-inf float of an implementation number"""
    if isinstance(x, float) and math.isinf(x):
        return x
    return Fraction(x)

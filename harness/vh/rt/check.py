"""Shared driver of the runtime checks: scenarios -> real runs -> model acceptor + property oracle."""
import json

from . import engine, scenarios


TIMING_KEYS = ("coroutines-stalled", "bystanders-dead")


def run_family(ctx, family, n, oracle, stream=None, known_hang=None):
    stream = stream or family
    rng = ctx.rng(family)
    scs = [scenarios.FAMILIES[family](rng) for _ in range(n)]
    outs = engine.run_scenarios(scs)
    traces = [engine.to_trace(s, o) for s, o in zip(scs, outs)]
    answers = engine.accept_traces(traces) if ctx.lean_status.get("driver_ok") else [{"accepted": True}] * len(scs)
    # a run that ended with a group of failures: any one of them may be the one the model's runner noticed first
    for k, (out, tr, ans) in enumerate(zip(outs, traces, answers)):
        i = ans.get("rejected_at") if isinstance(ans, dict) else None
        if ans.get("accepted") is False and i is not None and i < len(tr[1]) and tr[1][i][0] == "endRun":
            for alt in engine.end_alternatives(out, tr[1], i):
                tr2 = (tr[0], tr[1][:i] + [alt] + tr[1][i + 1:])
                a2 = engine.accept_traces([tr2])[0]
                if a2.get("accepted"):
                    traces[k], answers[k] = tr2, a2
                    ctx.tally("endRun-named-after-another-member-of-the-failure-group")
                    break
    maxstates = 0
    for sc, out, tr, ans in zip(scs, outs, traces, answers):
        case = {"scenario": sc}
        nontrivial = len(sc.get("payloads", [])) >= 2
        ctx.count(stream, {"family": family, "payloads": [(p["pid"], p["fl"], p.get("role"), p.get("mode")) for p in sc.get("payloads", [])],
                           "control": sc.get("control") or [r.get("end") for r in sc.get("runs", [])]}, nontrivial)
        ctx.tally("events", len(tr[1]))
        for ev in tr[1]:
            ctx.tally("event:" + ev[0] + (":" + str(ev[2]) if ev[0] in ("bodyEnd", "adopt", "newUnit", "execBegin") else ""))
        ctx.tally("payloads", len(sc.get("payloads", [])))
        if out.get("retried"):
            ctx.tally("worker-retried")
        if out.get("crashed"):
            ctx.tally("worker-killed")
            # twice in a row the scenario process produced nothing and had to be killed: its own
            # watchdog did not even get to dump the log - the run never ended
            ctx.violation("never-ends:process-killed", "the scenario process hung and had to be killed twice (%s)" % str(out.get("crashed"))[-200:],
                          {"scenario": sc})
            continue
        for key, what in oracle(sc, out):
            if key.startswith(TIMING_KEYS):
                # a verdict that rests on elapsed time alone (a busy machine can starve a thread for a
                # moment) must show again when the scenario is run once more, on its own
                again = engine.run_scenarios([sc])[0]
                if not any(k == key for k, _ in oracle(sc, again)):
                    ctx.tally("timing-verdict-not-confirmed:" + key)
                    continue
            ctx.violation(key, what, {"scenario": sc, "trace": tr[1]})
        if "driver_error" in ans:
            ctx.disagree(stream, {"scenario": sc}, tr[1], ans)
        elif not ans.get("accepted"):
            i = ans.get("rejected_at")
            ctx.disagree(stream, {"scenario": sc}, {"trace": tr[1], "rejected_event": tr[1][i] if i is not None and i < len(tr[1]) else None}, ans)
        maxstates = max(maxstates, ans.get("states", 0))
    ctx.notes.setdefault("acceptor_max_states", 0)
    ctx.notes["acceptor_max_states"] = max(ctx.notes["acceptor_max_states"], maxstates)
    ctx.notes["traces_validated_against_impl"] = ctx.notes.get("traces_validated_against_impl", 0) + len(scs)
    return scs, outs


def by_kind(out, kind):
    return [e for e in out["log"] if e["kind"] == kind]


def accept_end(out, rid=0):
    for e in out["log"]:
        if e["kind"] == "accept-end" and e.get("rid") == rid and not e.get("concurrent"):
            return e
    return None


def replay(payload, oracle):
    case = payload.get("case") or payload["disagreements"][0]["case"]
    sc = case["scenario"]
    out = engine.run_scenarios([sc])[0]
    tr = engine.to_trace(sc, out)
    ans = engine.accept_traces([tr])[0]
    v = oracle(sc, out)
    print(json.dumps({"trace": tr[1], "acceptor": ans, "oracle": v}, indent=1))
    return 1 if v else 0

"""Scenario families for the runtime properties (C01 C02 C03 C10 C11 C12)."""

FLAVS = ["aio", "trio", "thr"]
# "any Exception subclass": harness classes, builtins, and the frameworks' own exception types
# (the runners catch some of these for their own purposes: TimeoutError is what a polling wait
# raises, RunFinishedError / ClosedResourceError are what a closing trio runner raises, ...)
EXC_CLASSES = ("Tagged", "TaggedTimeout", "ValueError", "KeyError", "OSError", "AssertionError", "TimeoutError", "LookupError",
               "RuntimeError", "StopAsyncIteration", "ZeroDivisionError", "ConnectionResetError", "BrokenPipeError",
               "NotImplementedError", "RecursionError", "MemoryError", "UnicodeError", "ExceptionGroup", "BufferError",
               "asyncio.TimeoutError", "asyncio.InvalidStateError", "asyncio.QueueEmpty",
               "concurrent.futures.TimeoutError", "concurrent.futures.InvalidStateError", "concurrent.futures.BrokenExecutor",
               "concurrent.futures.CancelledError",
               "trio.TooSlowError", "trio.ClosedResourceError", "trio.BrokenResourceError", "trio.RunFinishedError",
               "trio.BusyResourceError", "trio.WouldBlock", "trio.EndOfChannel", "trio.TrioInternalError")
# classes that asyncio / concurrent.futures treat specially when an exception crosses from one kind of
# future to another (they are re-created or converted): over-represented on purpose
CROSSING = ("TimeoutError", "asyncio.TimeoutError", "concurrent.futures.TimeoutError", "concurrent.futures.InvalidStateError",
            "asyncio.InvalidStateError", "concurrent.futures.CancelledError")
FAIL_KINDS = [{"kind": "exc", "cls": c} for c in EXC_CLASSES] + [{"kind": "exc", "cls": c} for c in CROSSING * 3] + \
             [{"kind": "value", "v": v} for v in ("zero", "zerof", "false", "empty", "list", "tuple", "one", "str", "obj", "falsyobj", "excobj")] + \
             [{"kind": "baseExc", "cls": c} for c in ("TaggedBase", "SystemExit", "GeneratorExit")]


def gen_arg(rng):
    """arguments are opaque to the runtime: ints, equal values of other types, objects without a repr"""
    r = rng.random()
    if r < 0.6:
        return rng.randint(0, 9)
    if r < 0.7:
        return {"$float": float(rng.randint(0, 2))}
    if r < 0.8:
        return {"$bool": rng.randint(0, 1)}
    if r < 0.9:
        return "$badrepr"
    return rng.choice(["text", "", None])


VIA = ["trio-to-thread", "aio-executor", "aio-direct", "thread"]


def bystanders(rng, pid0, max_per=3, cleanup=False):
    """sleeping / spinning coroutine payloads and blocked thread payloads"""
    ps = []
    pid = pid0
    for fl in FLAVS:
        for _ in range(rng.randint(0, max_per)):
            if fl == "thr":
                script = [rng.choice([["forever", 0.02], ["wait", "never"], ["block", 30]])]
            else:
                script = [rng.choice([["forever", 0.01], ["forever", 0.0], ["sleep", 1000], ["spin", 3], ["park"]])]
                if script[0][0] == "spin":
                    script.append(["forever", 0.01])
            p = {"pid": pid, "fl": fl, "script": script, "role": "bystander"}
            if fl == "aio" and rng.random() < 0.2:
                # survives its first cancellation(s): takes them for a wake-up and waits on
                p["swallow"] = rng.choice([1, 1, 2, 3])
            if cleanup and fl != "thr":
                c = {}
                if rng.random() < 0.6:
                    c["sync"] = rng.choice([0.0, 0.01, 0.05])
                if fl == "trio" and rng.random() < 0.6:
                    c["shielded"] = rng.choice([0.0, 0.05, 0.3])
                p["cleanup"] = c
            ps.append(p)
            pid += 1
    return ps, pid


def loop_killer(p):
    """SystemExit / KeyboardInterrupt raised by an asyncio or thread payload stop the event loop at once"""
    o = p.get("out") or {}
    # (from a trio payload they arrive wrapped in an exception group, most of the time: treated alike)
    return o.get("kind") == "kbd" or o.get("cls") == "SystemExit"


def no_swallow_with_loop_killers(payloads):
    """a payload that suppresses its cancellation is re-cancelled by the closing runner every 0.1 s - unless the
    loop was killed by SystemExit / KeyboardInterrupt: then asyncio.run's own single cancellation is all that is
    left, and a payload that suppresses it keeps the loop alive. That is the payload's doing (asyncio: a
    cancellation must not be suppressed); such combinations are not generated."""
    # The same holds for a payload that is adopted while the runtime is already closing (its runner has
    # finished closing, the loop is only waiting for asyncio.run's final one-shot cancellation): so a
    # suppressing payload is only generated when every failure waits for the gate, i.e. happens after
    # everything has started.
    early = any(p.get("role") == "failing" and (p.get("callfail") or (p.get("script") or [[None]])[0][0] != "wait") for p in payloads)
    if early or any(loop_killer(p) for p in payloads):
        for p in payloads:
            p.pop("swallow", None)


def place(rng, payloads, pid0):
    """decide how each payload is registered; returns before-steps, control-steps, helper payloads"""
    before, control, helpers = [], [], []
    pid = pid0
    for p in payloads:
        mode = p.get("mode") or rng.choice(["queued", "outside", "outside", "inside", "service-before", "service-after"])
        p["mode"] = mode
        if mode == "queued":
            before.append(["adopt", p["pid"]])
        elif mode == "outside":
            if rng.random() < 0.2:
                # from a thread that is itself inside a private asyncio loop / trio run, or a helper thread
                control.append(["via", rng.choice(VIA), ["adopt", p["pid"]]])
            else:
                control.append(["adopt", p["pid"]])
        elif mode == "inside":
            fl = rng.choice(FLAVS)
            # a helper payload of flavour fl adopts p from inside the runtime, then idles
            call = ["adopt", p["pid"]]
            if fl == "thr" and rng.random() < 0.3:
                call = ["via", rng.choice(VIA), call]
            h = {"pid": pid, "fl": fl, "role": "helper", "mode": "outside",
                 "script": [call, ["forever", 0.02] if fl != "thr" else ["wait", "never"]]}
            if fl == "aio" and p["fl"] == "trio":
                # known: registering a trio payload from the asyncio loop thread blocks the loop
                # while trio is busy executing into asyncio; harmless here (no execute in flight)
                pass
            helpers.append(h)
            control.append(["adopt", pid])
            pid += 1
        elif mode == "service-before":
            before.append(["service", p["pid"]])
        elif mode == "service-after":
            control.append(["service", p["pid"]])
    return before, control, helpers, pid


def started_count(payloads):
    return len(payloads)


def fam_failure(rng):
    """C01: one to three payloads fail (nearly) at once among bystanders"""
    by, pid = bystanders(rng, 1)
    nfail = rng.choice([1, 1, 1, 2, 2, 3])
    # one scenario in eight is about a single payload that returns a falsy value and nothing else
    focus = rng.random() < 0.125
    if focus:
        nfail = 1
    fails = []
    for _ in range(nfail):
        fl = rng.choice(FLAVS)
        out = rng.choice(FAIL_KINDS)
        if rng.random() < 0.04:
            out = {"kind": "kbd"}
        if focus:
            out = {"kind": "value", "v": rng.choice(["zero", "zerof", "false", "empty", "list", "tuple", "falsyobj"])}
        script = [["wait", "go"], ["end", out]] if rng.random() < 0.8 else [["sleep", 0.02], ["end", out]]
        f = {"pid": pid, "fl": fl, "script": script, "role": "failing", "out": out}
        if loop_killer(f):
            # SystemExit / KeyboardInterrupt from a payload stop the event loop at once; a payload that is being
            # handed over at that very moment may be started by the dying loop and is then neither cancelled nor
            # run (asyncio destroys it pending). Such a kill is only generated once everything has started.
            f["script"] = [["wait", "go"], ["end", out]]
        elif out["kind"] in ("exc", "baseExc") and rng.random() < 0.2:
            # the payload fails when it is *called* (wrong arguments, a plain function that raises
            # before it produces its awaitable): there is no coroutine body at all
            f["callfail"] = True
        elif rng.random() < 0.2:
            f["plainfn"] = True
        fails.append(f)
        pid += 1
    for b in by:
        if rng.random() < 0.15:
            b["plainfn"] = True
    allp = by + fails
    no_swallow_with_loop_killers(allp)
    before, control, helpers, pid = place(rng, allp, pid)
    allp += helpers
    n_wait = len(allp) - sum(1 for f in fails if f.get("callfail") and f["mode"] in ("queued", "service-before"))
    control = [["wait-running"]] + control + [["wait-count", "start", n_wait, 3], ["sleep", 0.03], ["set", "go"]]
    # in one scenario out of seven the runtime object has already been through a blocking run that ended by a failure
    return {"family": "failure", "payloads": allp, "before": before, "control": control, "watchdog": 12,
            "prior_failed_run": rng.random() < 0.15}


def fam_termination(rng):
    """C02: stop for any reason with coroutine payloads that have cleanup to do"""
    by, pid = bystanders(rng, 1, cleanup=True)
    trigger = rng.choice(["failure", "sigint", "shutdown", "shutdown-from-thread", "kbd-payload", "exit-payload"])
    extra = []
    tail = []
    if trigger in ("kbd-payload", "exit-payload"):
        # a payload raises KeyboardInterrupt / SystemExit itself (not delivered as a signal)
        fl = rng.choice(FLAVS)
        out = {"kind": "kbd"} if trigger == "kbd-payload" else {"kind": "baseExc", "cls": "SystemExit"}
        extra.append({"pid": pid, "fl": fl, "script": [["wait", "go"], ["end", out]], "role": "failing", "out": out, "mode": "outside"})
        pid += 1
        tail = [["set", "go"]]
    elif trigger == "failure":
        fl = rng.choice(FLAVS)
        extra.append({"pid": pid, "fl": fl, "script": [["wait", "go"], ["end", {"kind": "exc"}]], "role": "failing", "out": {"kind": "exc"}, "mode": "outside"})
        pid += 1
        tail = [["set", "go"]]
    elif trigger == "sigint":
        tail = [["sigint"]]
    elif trigger == "shutdown":
        tail = [["shutdown"]]
    else:
        extra.append({"pid": pid, "fl": "thr", "script": [["wait", "go"], ["shutdown"], ["end", {"kind": "none"}]], "role": "stopper", "mode": "outside"})
        pid += 1
        tail = [["set", "go"]]
    allp = by + extra
    no_swallow_with_loop_killers(allp)
    before, control, helpers, pid = place(rng, allp, pid)
    allp += helpers
    control = [["wait-running"]] + control + [["wait-count", "start", len(allp), 3], ["sleep", rng.choice([0.0, 0.02, 0.06])]]
    if rng.random() < 0.5:
        control += [["gc"], ["sleep", 0.01]]
    control += tail
    return {"family": "termination", "trigger": trigger, "payloads": allp, "before": before, "control": control, "watchdog": 14}


def fam_startonce(rng):
    """C03: many payloads / services with arguments; quiescence, several polling cycles, then shutdown"""
    ps = []
    pid = 1
    for fl in FLAVS:
        for _ in range(rng.randint(0, 6)):
            args = {"args": [gen_arg(rng) for _ in range(rng.randint(0, 3))],
                    "kwargs": {k: gen_arg(rng) for k in rng.sample(["a", "b", "c"], rng.randint(0, 2))}}
            script = [["forever", 0.02]] if fl != "thr" else [["wait", "never"]]
            if rng.random() < 0.3:
                script = [["sleep", 0.01], ["end", {"kind": "none"}]]
            ps.append({"pid": pid, "fl": fl, "script": script, "role": "counted", "args": args})
            pid += 1
    for _ in range(rng.choice([0, 0, 1, 2])):
        # a bound method of a built-in object as payload (thread flavour): box.append(pid)
        ps.append({"pid": pid, "fl": "thr", "script": [], "role": "counted", "builtin": True, "args": None,
                   "mode": rng.choice(["queued", "outside", "inside"])})
        pid += 1
    for p in ps:
        if p.get("builtin"):
            continue
        # services take no arguments
        m = rng.choice(["queued", "outside", "outside", "inside", "service-before", "service-after"])
        if m.startswith("service"):
            p["args"] = None
            if rng.random() < 0.15:
                p["falsy_service"] = True
            if rng.random() < 0.2:
                p["svc_base"] = rng.choice(FLAVS)
        p["mode"] = m
    before, control, helpers, pid = place(rng, ps, pid)
    allp = ps + helpers
    # bursts: the very same callable object (no arguments) adopted k times in a row, from outside
    # or from inside a payload of some flavour - each adoption is a payload of its own
    for g in range(rng.choice([0, 0, 1, 1, 2])):
        fl = rng.choice(FLAVS)
        k = rng.randint(2, 6)
        script = [["forever", 0.02]] if fl != "thr" else [["wait", "never"]]
        if rng.random() < 0.4:
            script = [["sleep", 0.01], ["end", {"kind": "none"}]]
        grp = [{"pid": pid + i, "fl": fl, "script": script, "role": "counted", "share": "g%d" % g, "mode": "burst"} for i in range(k)]
        pid += k
        ctx = rng.choice(["outside", "queued"] + FLAVS)
        if ctx == "outside":
            control += [["adopt", q["pid"]] for q in grp]
        elif ctx == "queued":
            before += [["adopt", q["pid"]] for q in grp]
        else:
            h = {"pid": pid, "fl": ctx, "role": "helper", "mode": "outside",
                 "script": [["adopt", q["pid"]] for q in grp] + [["forever", 0.02] if ctx != "thr" else ["wait", "never"]]}
            pid += 1
            allp.append(h)
            control.append(["adopt", h["pid"]])
        allp += grp
    # generations of services: instances that finish are dropped and collected while the runtime
    # keeps running; later instances are still started exactly once each
    gens = []
    race = rng.random() < 0.25
    if not race and rng.random() < 0.4:
        for gen in range(rng.randint(2, 4)):
            fl = rng.choice(FLAVS)
            k = rng.randint(2, 12)
            grp = [{"pid": pid + i, "fl": fl, "script": [["end", {"kind": "none"}]], "role": "counted", "mode": "service-gen", "args": None}
                   for i in range(k)]
            pid += k
            gens.append(grp)
            allp += grp
    control = [["wait-running"]] + control
    if race:
        # adopt more payloads while a shutdown with slow trio cleanup is in progress
        slow = {"pid": pid, "fl": "trio", "script": [["forever", 0.01]], "cleanup": {"shielded": 0.4}, "role": "bystander", "mode": "outside"}
        pid += 1
        late = []
        for _ in range(rng.randint(2, 6)):
            late.append({"pid": pid, "fl": rng.choice(FLAVS), "script": [["sleep", 0.01], ["end", {"kind": "none"}]], "role": "late", "mode": "late"})
            pid += 1
        allp += [slow] + late
        control += [["adopt", slow["pid"]], ["wait-count", "start", len(allp) - len(late), 3], ["sleep", 0.08],
                    ["threads", [[["shutdown"]], [["sleep", 0.1]] + [["adopt", l["pid"]] for l in late]]]]
    else:
        n0 = len(allp) - sum(len(g) for g in gens)
        control += [["wait-count", "start", n0, 3]]
        done = 0
        for grp in gens:
            done += len(grp)
            control += [["service", q["pid"]] for q in grp]
            control += [["wait-count", "start", n0 + done, 1.5], ["sleep", 0.03]]
            control += [["drop-service", q["pid"]] for q in grp]
        if not gens and rng.random() < 0.3:
            # a quiet runtime: every coroutine payload sits in one long wait, nothing wakes the loops -
            # then payloads arrive from threads that are themselves inside a private loop / a helper thread
            for q in allp:
                if q["fl"] != "thr":
                    q["script"] = [a if a[0] != "forever" else ["sleep", 1000] for a in q["script"]]
            quiet = []
            for _ in range(rng.randint(1, 4)):
                quiet.append({"pid": pid, "fl": rng.choice(["aio", "aio", "trio", "thr"]), "role": "counted", "mode": "quiet",
                              "script": [["sleep", 1000]] if rng.random() < 0.7 else [["sleep", 0.01], ["end", {"kind": "none"}]],
                              "args": {"args": [gen_arg(rng)], "kwargs": {}}})
                pid += 1
            for q in quiet:
                if q["fl"] == "thr":
                    q["script"] = [["wait", "never"]] if q["script"][0] == ["sleep", 1000] else q["script"]
            allp += quiet
            control += [["sleep", 0.3]] + [["via", rng.choice(VIA), ["adopt", q["pid"]]] for q in quiet] + \
                       [["wait-count", "start", n0 + len(quiet), 1.5]]
        control += [["sleep", 0.12], ["shutdown"]]
    return {"family": "startonce", "race": race, "payloads": allp, "before": before, "control": control, "watchdog": 16}


def fam_execute(rng):
    """C10: execute from outside / from payloads of another flavour, every outcome"""
    by, pid = bystanders(rng, 1, max_per=2)
    beats = {"pid": pid, "fl": rng.choice(["aio", "trio"]), "script": [["forever", 0.005]], "role": "heartbeat", "mode": "outside"}
    pid += 1
    execs, callers = [], []
    control = []
    for _ in range(rng.randint(1, 8)):
        fl = rng.choice(FLAVS)
        out = rng.choice([{"kind": "none"}] + [k for k in FAIL_KINDS if k["kind"] != "baseExc"])
        args = {"args": [gen_arg(rng) for _ in range(rng.randint(0, 2))], "kwargs": {k: gen_arg(rng) for k in rng.sample(["a", "b"], rng.randint(0, 1))}}
        e = {"pid": pid, "fl": fl, "script": [["end", out]], "role": "executed", "out": out, "args": args}
        if fl != "thr" and rng.random() < 0.25:
            e["plainfn"] = True
        elif (args["args"] or args["kwargs"]) and rng.random() < 0.3:
            # the payload is a decorated callable whose wrapper takes other arguments than the
            # function it wraps declares (functools.wraps keeps the declared signature visible)
            e["decorated"] = True
        pid += 1
        execs.append(e)
        ctx = rng.choice(["outside", "thr"] + [c for c in ("aio", "trio") if c != fl])
        e["ctx"] = ctx
        call = ["execute", e["pid"]]
        r = rng.random()
        if ctx in ("outside", "thr") and r < 0.3:
            # unusual but legitimate calling contexts of a plain thread: a worker thread of a private
            # trio run, a private asyncio loop (directly / through its executor), a helper thread
            call = ["via", rng.choice(["trio-to-thread", "aio-executor", "aio-direct", "thread"]), call]
        elif ctx in ("aio", "trio") and r < 0.3:
            # from a worker thread the coroutine payload off-loads blocking work to
            call = ["offload", call]
        elif ctx in ("aio", "trio") and r < 0.45 and fl != "thr":
            # ... which also makes executing a payload of the caller's own flavour legitimate
            pass
        if ctx == "outside":
            control.append(call)
        else:
            c = {"pid": pid, "fl": ctx, "role": "caller", "mode": "outside",
                 "script": [call, ["set", "done%d" % pid], ["end", {"kind": "none"}]]}
            pid += 1
            callers.append(c)
            control += [["adopt", c["pid"]], ["wait-gate", "done%d" % c["pid"]]]
    allp = by + [beats]
    before, ctl2, helpers, pid = place(rng, allp, pid)
    if rng.random() < 0.3:
        # a payload queued before start whose first action is an execute into another flavour,
        # followed in the queue by more payloads of its own flavour
        cfl = rng.choice(["trio", "aio", "thr"])
        efl = rng.choice([f for f in ("aio", "trio", "thr") if f != cfl or f == "thr"])
        e = {"pid": pid, "fl": efl, "script": [["end", {"kind": "none"}]], "role": "executed", "out": {"kind": "none"},
             "args": {"args": [], "kwargs": {}}, "ctx": cfl}
        c = {"pid": pid + 1, "fl": cfl, "role": "caller", "mode": "queued",
             "script": [["execute", pid], ["end", {"kind": "none"}]]}
        more = [{"pid": pid + 2 + i, "fl": cfl, "role": "bystander", "mode": "queued",
                 "script": [["forever", 0.01] if cfl != "thr" else ["wait", "never"]]} for i in range(rng.randint(1, 3))]
        pid += 2 + len(more)
        execs.append(e)
        callers.append(c)
        before = before + [["adopt", c["pid"]]] + [["adopt", m["pid"]] for m in more]
        allp += more
    if rng.random() < 0.35:
        # one callable executed several times in a row with arguments that compare equal but are
        # not the same (1, True, 1.0; 0.0, -0.0 ...): every call gets exactly its own arguments
        fl = rng.choice(FLAVS)
        vals = rng.choice([[1, {"$bool": 1}, {"$float": 1.0}, 1], [0, {"$bool": 0}, {"$float": 0.0}], [{"$float": 0.0}, {"$float": -0.0}, 0],
                           [{"$float": 2.0}, 2, {"$float": 2.0}]])
        kw = rng.random() < 0.4
        grp = []
        for v in vals:
            grp.append({"pid": pid, "fl": fl, "script": [["end", {"kind": "none"}]], "role": "executed", "out": {"kind": "none"},
                        "share": "eq%d" % pid if not grp else grp[0]["share"], "ctx": "outside",
                        "args": {"args": [] if kw else [v], "kwargs": {"demand": v} if kw else {}}})
            pid += 1
        execs += grp
        control += [["execute", g["pid"]] for g in grp]
    shape = rng.random()
    if shape < 0.12:
        # nested executes: each executed thread-flavour payload executes the next one before it
        # ends; the innermost one may be a coroutine payload. Depth is not bounded by anything.
        depth = rng.choice([2, 3, 5, 24, 40, 64])
        last = rng.choice(FLAVS)
        chain = []
        for i in range(depth):
            fl = "thr" if i < depth - 1 else last
            out = {"kind": "none"} if rng.random() < 0.7 else {"kind": "value", "v": "obj"}
            script = ([["execute", pid + 1]] if i < depth - 1 else []) + [["end", out]]
            chain.append({"pid": pid, "fl": fl, "script": script, "role": "executed", "out": out,
                          "args": {"args": [], "kwargs": {}}, "ctx": "outside" if i == 0 else "thr"})
            pid += 1
        execs += chain
        control.append(["execute", chain[0]["pid"]])
    elif shape < 0.24:
        # many executes in flight at once that depend on each other: all wait for a gate that the
        # last one opens, each called from its own outside thread
        n = rng.choice([2, 4, 12, 24, 40])
        fl = rng.choice(FLAVS)
        grp = []
        for i in range(n):
            script = [["wait", "rv"], ["end", {"kind": "none"}]] if i < n - 1 else [["set", "rv"], ["end", {"kind": "none"}]]
            grp.append({"pid": pid, "fl": fl, "script": script, "role": "executed", "out": {"kind": "none"},
                        "args": {"args": [], "kwargs": {}}, "ctx": "outside"})
            pid += 1
        execs += grp
        control.append(["threads", [[["execute", g["pid"]]] for g in grp[:-1]] + [[["sleep", 0.05], ["execute", grp[-1]["pid"]]]]])
    allp += helpers + execs + callers
    control = [["wait-running"]] + ctl2 + [["wait-count", "start", len(by) + 1 + len(helpers), 3]] + control + [["sleep", 0.05], ["shutdown"]]
    return {"family": "execute", "payloads": allp, "before": before, "control": control, "watchdog": 14}


def fam_threads(rng):
    """C11: adopted, service and executed coroutine payloads next to blocking thread payloads"""
    ps = []
    pid = 1
    for fl in ("aio", "trio"):
        for _ in range(rng.randint(1, 4)):
            ps.append({"pid": pid, "fl": fl, "script": [["spin", rng.randint(5, 40)], ["forever", 0.004]], "role": "co"})
            pid += 1
    for _ in range(rng.randint(1, 3)):
        ps.append({"pid": pid, "fl": "thr", "script": [["block", 0.2], ["wait", "never"]], "role": "blocker"})
        pid += 1
    before, control, helpers, pid = place(rng, ps, pid)
    allp = ps + helpers
    execs = []
    ctl_exec = []
    for _ in range(rng.randint(0, 4)):
        fl = rng.choice(["aio", "trio"])
        e = {"pid": pid, "fl": fl, "script": [["spin", 5], ["end", {"kind": "none"}]], "role": "executed"}
        if rng.random() < 0.4:
            e["plainfn"] = True      # a plain callable that does something before it hands back its coroutine
        pid += 1
        execs.append(e)
        call = ["execute", e["pid"]]
        r = rng.random()
        if r < 0.35:
            call = ["via", rng.choice(["trio-to-thread", "aio-executor", "aio-direct", "thread"]), call]
        if r < 0.7:
            ctl_exec.append(call)
        else:
            # called by a payload: a thread payload, or a coroutine payload through a worker thread
            cfl = rng.choice(FLAVS)
            c = {"pid": pid, "fl": cfl, "role": "caller", "mode": "outside",
                 "script": [call if cfl == "thr" else ["offload", call], ["end", {"kind": "none"}]]}
            pid += 1
            execs.append(c)
            ctl_exec.append(["adopt", c["pid"]])
    if rng.random() < 0.35:
        # a thread payload registered before start whose first action is to execute a coroutine payload:
        # the call is made while the runtime is still coming up (runners launched, `running` not yet
        # set); the executed payload still belongs to the one loop / the one trio run of the runtime
        fl = rng.choice(["aio", "trio"])
        e = {"pid": pid, "fl": fl, "script": [["spin", 8], ["end", {"kind": "none"}]], "role": "executed"}
        c = {"pid": pid + 1, "fl": "thr", "role": "caller", "mode": "queued",
             "script": [["execute", pid], ["end", {"kind": "none"}]]}
        pid += 2
        execs += [e, c]
        before = before + [["adopt", c["pid"]]]
    # coroutine payloads that adopt further payloads of their own flavour in the middle of a
    # checkpoint-free section (the adopted ones must not run before the adopter yields)
    for _ in range(rng.randint(0, 2)):
        fl = rng.choice(["aio", "trio"])
        kids = [{"pid": pid + 1 + i, "fl": fl, "script": [["spin", 3], ["end", {"kind": "none"}]], "role": "co-late", "mode": "inside"}
                for i in range(rng.randint(1, 3))]
        h = {"pid": pid, "fl": fl, "role": "helper", "mode": "outside",
             "script": [["adopt", k["pid"]] for k in kids] + [["forever", 0.01]]}
        pid += 1 + len(kids)
        execs += [h] + kids
        ctl_exec.append(["adopt", h["pid"]])
    if rng.random() < 0.3:
        # far more blocked thread payloads than any sensible pool size, registered from a coroutine
        # payload, before start, or as services: the coroutine threads must not wait for a free thread
        n = rng.choice([24, 40, 48])
        how = rng.choice(["aio", "trio", "queued", "service"])
        many = [{"pid": pid + i, "fl": "thr", "script": [["block", 1.5], ["wait", "never"]], "role": "blocker",
                 "mode": "many-" + how} for i in range(n)]
        pid += n
        if how in ("aio", "trio"):
            h = {"pid": pid, "fl": how, "role": "helper", "mode": "outside",
                 "script": [["adopt", m["pid"]] for m in many] + [["forever", 0.01]]}
            pid += 1
            execs += [h]
            ctl_exec.append(["adopt", h["pid"]])
        elif how == "queued":
            before = before + [["adopt", m["pid"]] for m in many]
        else:
            ctl_exec += [["service", m["pid"]] for m in many]
        execs += many
        # starting that many threads takes its time (more so on a busy machine): judge the heartbeats late
        control = [["wait-running"]] + control + [["wait-count", "start", len(allp), 3]] + ctl_exec + [["sleep", 1.0], ["shutdown"]]
        return {"family": "threads", "many": n, "payloads": allp + execs, "before": before, "control": control, "watchdog": 16}
    control = [["wait-running"]] + control + [["wait-count", "start", len(allp), 3]] + ctl_exec + [["sleep", 0.3], ["shutdown"]]
    return {"family": "threads", "payloads": allp + execs, "before": before, "control": control, "watchdog": 14}


def fam_lifecycle(rng):
    """C12: several runner instances: accept, concurrent accept, shutdown / interrupt / failure, accept again"""
    runs = []
    payloads = []
    pid = 1
    nruns = rng.randint(2, 4)
    # the polling loop of accept looks at the shutdown request every `accept_delay` at most
    accept_delay = rng.choice([0.02, 0.02, 0.2])
    slow_set = {}
    for r in range(nruns):
        rid = r
        by, pid2 = bystanders(rng, pid, max_per=2)
        for b in by:
            b["mode"] = "outside"
        pid = pid2
        ctl = [["wait-running", rid]]
        ctl += [["adopt", b["pid"], rid] for b in by]
        ctl += [["wait-count", "start", sum(1 for x in payloads if x.get("role") in ("bystander", "failing")) + len(by), 3]]
        # zero to three concurrent accept attempts, on other runner instances or on the active one
        for k in range(rng.choice([0, 1, 1, 2, 3])):
            ctl.append(["accept-thread", rng.choice([50 + r, 60 + r, rid])])
            if rng.random() < 0.5:
                ctl.append(["sleep", rng.choice([0.0, 0.01, 0.03])])
        end = rng.choice(["shutdown", "shutdown", "sigint", "failure", "shutdown-thread-payload", "shutdown-adopters", "shutdown-twice"])
        ctl.append(["sleep", rng.choice([0.0, 0.01, 0.03, 0.08])])
        if end == "shutdown-adopters":
            # shutdown while other threads keep adopting payloads of every flavour, with a trio
            # payload whose shielded cleanup keeps the trio run alive for a while
            slow = {"pid": pid, "fl": "trio", "script": [["forever", 0.01]], "cleanup": {"shielded": rng.choice([0.1, 0.3, 0.5])},
                    "role": "bystander", "mode": "outside"}
            pid += 1
            late = []
            for _ in range(rng.randint(20, 60)):
                late.append({"pid": pid, "fl": rng.choice(["trio", "trio", "aio", "thr"]), "script": [["end", {"kind": "none"}]], "role": "late", "mode": "late"})
                pid += 1
            by += [slow] + late
            half = len(late) // 2
            ctl += [["adopt", slow["pid"], rid], ["wait-count", "start", sum(1 for x in payloads + by if x.get("role") in ("bystander", "failing")), 3],
                    ["threads", [[["sleep", 0.03], ["shutdown", rid]],
                                 [y for l in late[:half] for y in (["adopt", l["pid"], rid], ["sleep", 0.004])],
                                 [y for l in late[half:] for y in (["adopt", l["pid"], rid], ["sleep", 0.007])]]]]
        elif end == "shutdown":
            if accept_delay > 0.1 and rng.random() < 0.7:
                # another thread tries to accept on the very same runner just after shutdown() was called,
                # before the polling loop has noticed the request
                ctl.append(["threads", [[["shutdown", rid]], [["sleep", rng.choice([0.0, 0.002, 0.005, 0.01])], ["accept-thread", rid]]]])
            else:
                ctl.append(["shutdown", rid])
        elif end == "shutdown-twice":
            # two or three threads ask for the shutdown at (nearly) the same moment
            ctl.append(["threads", [[["sleep", rng.choice([0.0, 0.0, 0.005, 0.03])], ["shutdown", rid]] for _ in range(rng.choice([2, 2, 3]))]])
        elif end == "sigint":
            ctl.append(["sigint"])
        elif end == "failure":
            # an ordinary exception, or one of those that end accept() with something else than RuntimeError
            # (SystemExit, another BaseException, a KeyboardInterrupt raised by the payload itself)
            out = rng.choice([{"kind": "exc"}, {"kind": "exc"}, {"kind": "baseExc", "cls": "SystemExit"}, {"kind": "baseExc", "cls": "TaggedBase"}, {"kind": "kbd"}])
            if out["kind"] != "exc":
                end = "failure-base"
            f = {"pid": pid, "fl": rng.choice(FLAVS), "script": [["end", out]], "role": "failing", "mode": "outside", "out": out}
            pid += 1
            by.append(f)
            ctl.append(["adopt", f["pid"], rid])
        else:
            f = {"pid": pid, "fl": "thr", "script": [["shutdown"], ["end", {"kind": "none"}]], "role": "stopper", "mode": "outside"}
            pid += 1
            by.append(f)
            ctl.append(["adopt", f["pid"], rid])
        if end == "shutdown" and rng.random() < 0.3:
            # shutdown() in the very instant the runner reports running: the thread that reports it is
            # preempted right after setting the flag (the worker stretches that instant)
            by = []
            ctl = [["wait-running", rid], ["shutdown", rid]]
            slow_set[str(rid)] = rng.choice([0.02, 0.05])
        payloads += by
        after = []
        if rng.random() < 0.4:
            # shutdown() on a runner that has already ended, from this and from another thread
            after = rng.choice([[["shutdown", rid]], [["shutdown", rid], ["threads", [[["shutdown", rid]]]]], [["threads", [[["shutdown", rid]], [["shutdown", rid]]]]]])
        if end == "failure" and r < nruns - 1 and rng.random() < 0.6:
            # a failing coroutine payload handed to the runner whose run has just ended by a failure: it stays in
            # that runner's own queue and is nobody else's business - the next runner starts clean
            poison = {"pid": pid, "fl": rng.choice(["aio", "trio"]), "script": [["end", {"kind": "exc"}]], "role": "poison", "mode": "after-end",
                      "out": {"kind": "exc"}}
            pid += 1
            payloads.append(poison)
            after = after + [["adopt", poison["pid"], rid]]
        runs.append({"rid": rid, "control": ctl, "end": end, "join": 4, "after": after})
    # (overlapping shutdowns end the event loop while one of the callers is still re-cancelling the asyncio
    # payloads: like a loop killer, that leaves a payload which suppresses its cancellation with asyncio.run's
    # one-shot cancellation only)
    if any(loop_killer(p) for p in payloads) or any(r["end"] == "shutdown-twice" for r in runs):
        for p in payloads:
            p.pop("swallow", None)
    return {"family": "lifecycle", "payloads": payloads, "runs": runs, "watchdog": 25, "accept_delay": accept_delay, "slow_running": slow_set}


FAMILIES = {"failure": fam_failure, "termination": fam_termination, "startonce": fam_startonce,
            "execute": fam_execute, "threads": fam_threads, "lifecycle": fam_lifecycle}

"""Run one runtime scenario against the real cobald runtime and dump the event log.

usage: python -m vh.rt.worker scenario.json out.json
The main thread calls accept() (so that SIGINT behaves as in the daemon); a controller thread
drives the scenario (adopt / execute / shutdown / SIGINT / second accept ...).
"""
import asyncio
import functools
import gc
import json
import os
import signal
import sys
import threading
import time

import trio

from cobald.daemon.runners.service import ServiceRunner, service
from cobald.daemon.runners.base_runner import OrphanedReturn

import logging
logging.disable(logging.CRITICAL)

FLAV = {"aio": asyncio, "trio": trio, "thr": threading}

LOCK = threading.Lock()
LOG = []
GATES = {}
BARRIERS = {}
T0 = time.monotonic()
OBJ = {}      # pid -> the object a payload returned / raised (identity checks)


def log(kind, pid=None, **data):
    ctx = {}
    try:
        ctx["loop"] = id(asyncio.get_running_loop())
    except RuntimeError:
        pass
    try:
        ctx["trio"] = id(trio.lowlevel.current_trio_token())
    except RuntimeError:
        pass
    with LOCK:
        LOG.append({"seq": len(LOG), "t": time.monotonic() - T0, "kind": kind, "pid": pid,
                    "thread": threading.get_ident(), **ctx, **data})


def gate(name):
    with LOCK:
        if name not in GATES:
            GATES[name] = threading.Event()
        return GATES[name]


def outkind(out):
    return "sysExit" if out.get("cls") == "SystemExit" else out["kind"]


class Tagged(Exception):
    pass


def decorated(body, fl):
    """`body` behind a decorator: the wrapper accepts whatever it is given, the function it claims to be
    (functools.wraps) declares no parameters at all"""
    import functools

    def declared():
        pass
    if fl == "thr":
        @functools.wraps(declared)
        def wrapper(*args, **kwargs):
            return body(*args, **kwargs)
    else:
        @functools.wraps(declared)
        async def wrapper(*args, **kwargs):
            return await body(*args, **kwargs)
    wrapper.vh_pid = getattr(body, "vh_pid", None)
    return wrapper


class TaggedBase(BaseException):
    pass


def exc_class(name):
    """an Exception subclass by name: harness classes, builtins, asyncio.*, trio.*, concurrent.futures.*"""
    import builtins
    import concurrent.futures
    if name == "Tagged":
        return Tagged
    if name == "TaggedTimeout":
        return TaggedTimeout
    mod, _, attr = name.rpartition(".")
    src = {"": builtins, "asyncio": asyncio, "trio": trio, "concurrent.futures": concurrent.futures}[mod]
    cls = getattr(src, attr)
    assert isinstance(cls, type) and issubclass(cls, Exception), name
    return cls


class TaggedTimeout(TimeoutError):
    pass


class BadRepr:
    """an argument object whose repr() raises (arguments are opaque to the runtime)"""

    def __repr__(self):
        raise RuntimeError("no representation available")


BADREPR = BadRepr()


def realise(v):
    """JSON argument -> the object handed to adopt / execute"""
    if v == "$badrepr":
        return BADREPR
    if isinstance(v, dict) and "$float" in v:
        return float(v["$float"])
    if isinstance(v, dict) and "$bool" in v:
        return bool(v["$bool"])
    return v


def same_arg(got, want):
    """exactly the argument supplied: same type, same value (1, True and 1.0 are three different arguments)"""
    want = realise(want)
    if want is BADREPR:
        return got is BADREPR
    return type(got) is type(want) and got == want and (not isinstance(got, float) or str(got) == str(want))


class Value:
    """a returned object with identity"""

    def __init__(self, pid, falsy):
        self.pid, self.falsy = pid, falsy

    def __bool__(self):
        return not self.falsy


def make_outcome(pid, out):
    """returns ('raise', exc) or ('return', value)"""
    kind = out["kind"]
    if kind == "none":
        return ("return", None)
    if kind == "value":
        v = out.get("v", "obj")
        val = {"zero": 0, "zerof": 0.0, "false": False, "empty": "", "list": [], "tuple": (), "one": 1, "str": "x"}.get(v)
        if v in ("obj", "falsyobj"):
            val = Value(pid, v == "falsyobj")
        elif v == "excobj":
            # an exception instance handed back as an ordinary return value (a "last error seen")
            val = ConnectionResetError("returned, not raised, by %s" % pid)
        OBJ[pid] = val
        return ("return", val)
    if kind == "exc":
        cls = exc_class(out.get("cls", "Tagged"))
        if issubclass(cls, BaseExceptionGroup):
            # trio splits and re-derives exception groups on their way out of a nursery: what survives
            # "looking through exception groups" are the leaf exceptions, so the leaf carries the tag too
            inner = ValueError("inner of %s" % pid)
            inner.vh_pid = pid
            e = cls("payload %s fails" % pid, [inner])
        else:
            e = cls("payload %s fails" % pid)
        e.vh_pid = pid
        OBJ[pid] = e
        return ("raise", e)
    if kind == "baseExc":
        cls = {"TaggedBase": TaggedBase, "SystemExit": SystemExit, "GeneratorExit": GeneratorExit}.get(out.get("cls", "TaggedBase"), TaggedBase)
        e = cls("payload %s fails" % pid)
        e.vh_pid = pid
        OBJ[pid] = e
        return ("raise", e)
    if kind == "kbd":
        e = KeyboardInterrupt("payload %s" % pid)
        e.vh_pid = pid
        OBJ[pid] = e
        return ("raise", e)
    raise ValueError(kind)


class World:
    def __init__(self, scenario):
        self.sc = scenario
        self.runners = {}
        self.payloads = {p["pid"]: p for p in scenario.get("payloads", [])}
        self.services = {}
        self.overlap = {"aio": 0, "trio": 0}
        self.overlap_seen = []
        self.shared_pids = {}
        self.shared_bodies = {}

    def runner(self, rid):
        if rid not in self.runners:
            self.runners[rid] = ServiceRunner(accept_delay=self.sc.get("accept_delay", 0.02))
            pause = (self.sc.get("slow_running") or {}).get(str(rid))
            if pause:
                # a schedule, not a change of behaviour: the thread that reports `running` is held up
                # right after it has set the flag
                class SlowEvent(threading.Event):
                    def set(self):
                        super().set()
                        time.sleep(pause)
                self.runners[rid].running = SlowEvent()
        return self.runners[rid]

    # ------------------------------------------------------------ payload bodies
    def sync_section(self, fl, pid):
        """non-atomic enter/exit counter: two same-flavour coroutine payloads between checkpoints at once would show"""
        with self.section(fl, pid):
            time.sleep(0)

    def section(self, fl, pid):
        """a checkpoint-free stretch of a coroutine payload of flavour `fl`; entering one while another
        payload of the same flavour is inside its own (nested in the same thread, or in parallel on
        another thread) is an overlap"""
        world = self

        class _Section:
            def __enter__(self_):
                if fl in world.overlap:
                    world.overlap[fl] += 1
                    self_.n = world.overlap[fl]
                return self_

            def __exit__(self_, *exc):
                if fl in world.overlap:
                    if self_.n != 1 or world.overlap[fl] != 1:
                        world.overlap_seen.append((fl, pid))
                    world.overlap[fl] -= 1
                return False
        return _Section()

    def do_action(self, spec, act, rid, ctx=None):
        """actions that are the same for every flavour; returns ('raise'|'return', obj) to finish the body"""
        k = act[0]
        ctx = ctx or spec["fl"]
        if k == "set":
            gate(act[1]).set()
        elif k == "barrier":
            # blocks the calling thread until `n` parties arrived (used to force simultaneity)
            with LOCK:
                b = BARRIERS.setdefault(act[1], threading.Barrier(act[2]))
            try:
                b.wait(5)
            except threading.BrokenBarrierError:
                pass
        elif k == "log":
            log("step", spec["pid"], what=act[1])
        elif k == "adopt":
            self.adopt(act[1], rid, ctx=ctx)
        elif k == "execute":
            self.execute(act[1], rid, ctx=ctx)
        elif k == "shutdown":
            log("shutdown-call", None, rid=rid, ctx=ctx)
            self.runner(rid).shutdown()
            log("shutdown-return", None, rid=rid)
        elif k == "via":
            # perform the inner action from an unusual but legitimate calling context of a thread
            # payload / outside thread: a worker thread of a private trio run, a private asyncio
            # loop (directly or through its executor), a plain helper thread
            how, inner = act[1], act[2]
            call = functools.partial(self.do_action, spec, inner, rid, "%s/%s" % (ctx, how))
            if how == "trio-to-thread":
                async def main():
                    await trio.to_thread.run_sync(call)
                trio.run(main)
            elif how == "aio-executor":
                async def main():
                    await asyncio.get_running_loop().run_in_executor(None, call)
                asyncio.run(main())
            elif how == "aio-direct":
                async def main():
                    call()
                asyncio.run(main())
            else:
                th = threading.Thread(target=call, daemon=True)
                th.start()
                th.join(20)
        elif k == "end":
            return make_outcome(spec["pid"], act[1])
        return None

    def shared_pid(self, key, default):
        """payloads adopted as one shared callable take their identities in start order"""
        if key is None:
            return default
        with LOCK:
            q = self.shared_pids.get(key) or []
            return q.pop(0) if q else default

    def body(self, spec, rid, args_expected=None):
        fl = spec["fl"]
        key = spec.get("share")
        if key is not None:
            # one callable object for the whole group: adopting it k times must start it k times
            with LOCK:
                self.shared_pids.setdefault(key, []).append(spec["pid"])
                if key in self.shared_bodies:
                    return self.shared_bodies[key]
        script = spec.get("script", [["end", {"kind": "none"}]])
        cleanup = spec.get("cleanup", {})
        world = self

        def check_args(args, kwargs, pid=None):
            exp = world.payloads.get(pid, spec).get("args")
            ok = True
            if exp is not None:
                ok = (len(args) == len(exp["args"]) and all(same_arg(g, w) for g, w in zip(args, exp["args"]))
                      and sorted(kwargs) == sorted(exp["kwargs"]) and all(same_arg(kwargs[k], w) for k, w in exp["kwargs"].items()))
            return ok

        if spec.get("callfail"):
            # the *call* of the payload fails: nothing awaitable is ever produced
            def payload(*args, **kwargs):
                pid = world.shared_pid(key, spec["pid"])
                log("start", pid, args_ok=check_args(args, kwargs, pid), fl=fl)
                r = make_outcome(pid, spec["out"])
                log("body-end", pid, out=outkind(spec["out"]))
                raise r[1]
            payload.vh_pid = spec["pid"]
            return payload

        if fl == "aio":
            async def payload(*args, **kwargs):
                pid = world.shared_pid(key, spec["pid"])
                with world.section("aio", pid):
                    log("start", pid, args_ok=check_args(args, kwargs, pid), fl="aio")
                try:
                    for act in script:
                        world.sync_section("aio", pid)
                        if act[0] == "sleep":
                            await asyncio.sleep(act[1])
                        elif act[0] == "wait":
                            while not gate(act[1]).is_set():
                                await asyncio.sleep(0.003)
                        elif act[0] == "spin":
                            for _ in range(act[1]):
                                log("step", pid, what="spin")
                                await asyncio.sleep(0)
                        elif act[0] == "park":
                            # sleeps until cancelled, on an awaitable that nothing but this payload refers to
                            log("step", pid, what="parked")
                            await asyncio.get_running_loop().create_future()
                        elif act[0] == "forever":
                            while True:
                                log("step", pid, what="beat")
                                await asyncio.sleep(act[1] if len(act) > 1 else 0.01)
                        elif act[0] == "offload":
                            # from a worker thread of the loop's executor
                            await asyncio.get_running_loop().run_in_executor(
                                None, world.do_action, dict(spec, pid=pid), act[1], rid, "aio/offload")
                        else:
                            with world.section("aio", pid):
                                r = world.do_action(dict(spec, pid=pid), act, rid)
                            if r:
                                log("body-end", pid, out=outkind(act[1]))
                                if r[0] == "raise":
                                    raise r[1]
                                return r[1]
                    log("body-end", pid, out="none")
                except asyncio.CancelledError:
                    log("cancel-seen", pid)
                    for _ in range(spec.get("swallow", 0)):
                        # takes a cancellation for a wake-up and goes back to a long wait; it only
                        # gives up when it is cancelled again
                        log("step", pid, what="swallowed")
                        try:
                            await asyncio.sleep(1000)
                        except asyncio.CancelledError:
                            continue
                    if cleanup.get("sync"):
                        time.sleep(cleanup["sync"])
                    log("unwound", pid)
                    raise
        elif fl == "trio":
            async def payload(*args, **kwargs):
                pid = world.shared_pid(key, spec["pid"])
                with world.section("trio", pid):
                    log("start", pid, args_ok=check_args(args, kwargs, pid), fl="trio")
                try:
                    for act in script:
                        world.sync_section("trio", pid)
                        if act[0] == "sleep":
                            await trio.sleep(act[1])
                        elif act[0] == "wait":
                            while not gate(act[1]).is_set():
                                await trio.sleep(0.003)
                        elif act[0] == "spin":
                            for _ in range(act[1]):
                                log("step", pid, what="spin")
                                await trio.sleep(0)
                        elif act[0] == "park":
                            log("step", pid, what="parked")
                            await trio.sleep_forever()
                        elif act[0] == "forever":
                            while True:
                                log("step", pid, what="beat")
                                await trio.sleep(act[1] if len(act) > 1 else 0.01)
                        elif act[0] == "offload":
                            # from a worker thread of the runtime's own trio run
                            await trio.to_thread.run_sync(
                                world.do_action, dict(spec, pid=pid), act[1], rid, "trio/offload")
                        else:
                            with world.section("trio", pid):
                                r = world.do_action(dict(spec, pid=pid), act, rid)
                            if r:
                                log("body-end", pid, out=outkind(act[1]))
                                if r[0] == "raise":
                                    raise r[1]
                                return r[1]
                    log("body-end", pid, out="none")
                except trio.Cancelled:
                    log("cancel-seen", pid)
                    if cleanup.get("sync"):
                        time.sleep(cleanup["sync"])
                    if cleanup.get("shielded"):
                        with trio.CancelScope(shield=True):
                            await trio.sleep(cleanup["shielded"])
                    log("unwound", pid)
                    raise
        else:
            def payload(*args, **kwargs):
                pid = world.shared_pid(key, spec["pid"])
                log("start", pid, args_ok=check_args(args, kwargs, pid), fl="thr")
                for act in script:
                    if act[0] == "sleep":
                        time.sleep(act[1])
                    elif act[0] == "wait":
                        gate(act[1]).wait()
                    elif act[0] == "forever":
                        while True:
                            time.sleep(act[1] if len(act) > 1 else 0.01)
                    elif act[0] == "block":
                        time.sleep(act[1])
                    else:
                        r = world.do_action(dict(spec, pid=pid), act, rid)
                        if r:
                            log("body-end", pid, out=outkind(act[1]))
                            if r[0] == "raise":
                                raise r[1]
                            return r[1]
                log("body-end", pid, out="none")
        if spec.get("plainfn") and fl != "thr":
            # a plain callable that hands back the awaitable (not a coroutine function)
            inner = payload

            def payload(*args, **kwargs):
                # the synchronous part of the payload is payload code as well: it belongs on the
                # flavour's one thread, between checkpoints like everything else
                with world.section(fl, spec["pid"]):
                    log("step", spec["pid"], what="prefix")
                    time.sleep(0)
                return inner(*args, **kwargs)
        payload.vh_pid = spec["pid"]
        if key is not None:
            with LOCK:
                payload = self.shared_bodies.setdefault(key, payload)
        return payload

    # ------------------------------------------------------------ operations
    def builtin_body(self, spec):
        """a payload that is a bound method of a built-in object (list.append): the runtime cannot
        look inside it, and it cannot log - a watcher reports its effect"""
        box = []
        pid = spec["pid"]

        def watch():
            t_end = time.monotonic() + 8
            while time.monotonic() < t_end and not box:
                time.sleep(0.002)
            if box:
                log("start", pid, args_ok=box == [pid], fl="thr")
                log("body-end", pid, out="none")
        threading.Thread(target=watch, daemon=True).start()
        return box.append

    def adopt(self, pid, rid, ctx="outside"):
        spec = self.payloads[pid]
        body = self.body(spec, rid) if not spec.get("builtin") else self.builtin_body(spec)
        a = spec.get("args") or {"args": [], "kwargs": {}}
        if spec.get("builtin"):
            a = {"args": [pid], "kwargs": {}}
        log("adopt-call", pid, fl=spec["fl"], ctx=ctx, rid=rid)
        try:
            r = self.runner(rid).adopt(body, *[realise(x) for x in a["args"]], flavour=FLAV[spec["fl"]],
                                       **{k: realise(v) for k, v in a["kwargs"].items()})
            log("adopt-return", pid, result="none" if r is None else "value")
        except BaseException as e:
            log("adopt-error", pid, etype=type(e).__name__)

    def execute(self, pid, rid, ctx="outside"):
        spec = self.payloads[pid]
        body = self.body(spec, rid)
        if spec.get("decorated"):
            body = decorated(body, spec["fl"])
        a = spec.get("args") or {"args": [], "kwargs": {}}
        log("exec-call", pid, fl=spec["fl"], ctx=ctx, rid=rid)
        try:
            r = self.runner(rid).execute(body, *[realise(x) for x in a["args"]], flavour=FLAV[spec["fl"]],
                                         **{k: realise(v) for k, v in a["kwargs"].items()})
            same = r is OBJ.get(pid) if pid in OBJ else r is None
            log("exec-return", pid, how="return", same=same)
        except BaseException as e:
            log("exec-return", pid, how="raise", same=e is OBJ.get(pid), etype=type(e).__name__)

    def new_service(self, pid, rid):
        spec = self.payloads[pid]
        body = self.body(spec, rid)
        fl = spec["fl"]

        falsy = bool(spec.get("falsy_service"))

        base = object
        if spec.get("svc_base"):
            # derived from a service class of another flavour: the subclass's own decoration counts
            bfl = spec["svc_base"]

            @service(flavour=FLAV[bfl])
            class BaseSvc:
                if bfl == "thr":
                    def run(self):
                        log("start", pid, fl="base-" + bfl, args_ok=True)
                else:
                    async def run(self):
                        log("start", pid, fl="base-" + bfl, args_ok=True)
            base = BaseSvc

        @service(flavour=FLAV[fl])
        class Svc(base):
            def __init__(self):
                pass

            if falsy:
                # a container-like service that is empty (hence falsy) when it is adopted
                def __len__(self):
                    return 0
            if fl == "thr":
                def run(self):
                    return body()
            else:
                async def run(self):
                    return await body()
        log("unit-new", pid, fl=fl)
        svc = Svc()
        svc.vh_pid = pid
        self.services[pid] = svc

    # ------------------------------------------------------------ controller
    def control(self, steps, rid_default=0):
        for st in steps:
            k = st[0]
            try:
                if k == "wait-running":
                    self.runner(st[1] if len(st) > 1 else rid_default).running.wait(10)
                elif k == "sleep":
                    time.sleep(st[1])
                elif k == "gc":
                    # the cyclic garbage collector runs whenever it likes
                    gc.collect()
                elif k == "adopt":
                    self.adopt(st[1], st[2] if len(st) > 2 else rid_default)
                elif k == "execute":
                    self.execute(st[1], st[2] if len(st) > 2 else rid_default)
                elif k == "service":
                    self.new_service(st[1], rid_default)
                elif k == "drop-service":
                    self.services.pop(st[1], None)
                    gc.collect()
                    log("unit-drop", st[1])
                elif k == "via":
                    self.do_action({"pid": None, "fl": "outside"}, st, rid_default)
                elif k == "set":
                    gate(st[1]).set()
                elif k == "wait-gate":
                    gate(st[1]).wait(10)
                elif k == "wait-count":
                    # wait until `n` events of a kind have been logged
                    kind, n = st[1], st[2]
                    t_end = time.monotonic() + (st[3] if len(st) > 3 else 10)
                    while time.monotonic() < t_end:
                        with LOCK:
                            c = sum(1 for e in LOG if e["kind"] == kind)
                        if c >= n:
                            break
                        time.sleep(0.003)
                elif k == "shutdown":
                    rid = st[1] if len(st) > 1 else rid_default
                    log("shutdown-call", None, rid=rid, ctx="outside")
                    t = time.monotonic()
                    self.runner(rid).shutdown()
                    log("shutdown-return", None, rid=rid, dur=time.monotonic() - t)
                elif k == "sigint":
                    log("sigint", None)
                    os.kill(os.getpid(), signal.SIGINT)
                elif k == "accept-thread":
                    # a concurrent accept from another thread
                    rid = st[1]
                    def other():
                        log("accept-begin", None, rid=rid, concurrent=True)
                        try:
                            self.runner(rid).accept()
                            log("accept-end", None, rid=rid, result="returned", concurrent=True)
                        except RuntimeError as e:
                            log("accept-end", None, rid=rid, result="RuntimeError", msg=str(e)[:40], concurrent=True,
                                has_cause=e.__cause__ is not None)
                        except BaseException as e:
                            log("accept-end", None, rid=rid, result=type(e).__name__, concurrent=True)
                    th = threading.Thread(target=other, daemon=True)
                    th.start()
                    th.join(st[2] if len(st) > 2 else 1.0)
                    if th.is_alive():
                        # it was let in (legitimate only if the active run had just ended): end it
                        # again so that the scenario can go on
                        log("accept-admitted", None, rid=rid, concurrent=True)
                        log("shutdown-call", None, rid=rid, ctx="cleanup")
                        self.runner(rid).shutdown()
                        log("shutdown-return", None, rid=rid)
                        th.join(5)
                elif k == "threads":
                    # several controller scripts in parallel threads
                    ths = [threading.Thread(target=self.control, args=(sub, rid_default), daemon=True) for sub in st[1]]
                    for t in ths:
                        t.start()
                    for t in ths:
                        t.join(20)
            except BaseException as e:   # a controller step must never kill the worker
                log("controller-error", None, step=k, etype=type(e).__name__, msg=str(e)[:80])


def flatten(exc, seen=None):
    """all exceptions reachable through __cause__ / __context__ / exception groups"""
    seen = seen if seen is not None else []
    if exc is None or any(exc is s for s in seen):
        return seen
    seen.append(exc)
    for sub in getattr(exc, "exceptions", ()) or ():
        flatten(sub, seen)
    flatten(exc.__cause__, seen)
    return seen


def describe(exc):
    causes = []
    for e in flatten(exc):
        d = {"type": type(e).__name__}
        if hasattr(e, "vh_pid"):
            d["pid"] = e.vh_pid
            orig = OBJ.get(e.vh_pid)
            d["is_original"] = e is orig or any(e is x for x in getattr(orig, "exceptions", ()))
        if isinstance(e, OrphanedReturn):
            # identify the payload by the callable the runner reports, not by the returned
            # value: falsy values such as 0 or () are shared objects
            who = e.who
            while isinstance(who, functools.partial):
                who = who.func
            pid = getattr(who, "vh_pid", None)
            if pid is None and getattr(who, "__self__", None) is not None:
                pid = getattr(who.__self__, "vh_pid", None)
            if pid is not None:
                d["orphan_pid"] = pid
                d["is_original"] = e.value is OBJ.get(pid)
            else:
                for qid, v in OBJ.items():
                    if e.value is v and not isinstance(v, BaseException):
                        d["orphan_pid"] = qid
        causes.append(d)
    return causes


def main():
    sc = json.load(open(sys.argv[1]))
    world = World(sc)
    out_path = sys.argv[2]
    if sc.get("prior_failed_run"):
        # the runtime object has a history: an earlier blocking run on the very same object that ended by a
        # payload failure (nothing of it is logged; afterwards the object is used as if it were new)
        async def prior_boom():
            raise KeyError("payload of the earlier run")
        try:
            world.runner(0).adopt(prior_boom, flavour=asyncio)
            world.runner(0).accept()
        except BaseException:
            pass
    # before the first accept: queued payloads, early services
    for st in sc.get("before", []):
        world.control([st])
    runs = sc.get("runs", [{"rid": 0, "control": sc.get("control", [])}])
    watchdog = sc.get("watchdog", 15)

    dumping = threading.Lock()

    def dump_and_exit(code):
        # one writer only (the watchdog and the main thread may get here at the same moment), and the
        # file appears complete or not at all
        dumping.acquire()
        with LOCK:
            data = {"log": list(LOG), "overlap": world.overlap_seen, "hung": code != 0}
        with open(out_path + ".part", "w") as f:
            json.dump(data, f)
        os.replace(out_path + ".part", out_path)
        os._exit(0)

    def dog():
        time.sleep(watchdog)
        log("watchdog", None)
        dump_and_exit(3)

    threading.Thread(target=dog, daemon=True).start()
    for run in runs:
        rid = run["rid"]
        ctl = threading.Thread(target=world.control, args=(run.get("control", []), rid), daemon=True)
        log("accept-begin", None, rid=rid)
        ctl.start()
        t = time.monotonic()
        try:
            world.runner(rid).accept()
            log("accept-end", None, rid=rid, result="returned", dur=time.monotonic() - t)
        except RuntimeError as e:
            log("accept-end", None, rid=rid, result="RuntimeError", causes=describe(e), dur=time.monotonic() - t,
                msg=str(e)[:60])
        except BaseException as e:
            log("accept-end", None, rid=rid, result=type(e).__name__, causes=describe(e), dur=time.monotonic() - t)
        ctl.join(run.get("join", 3))
        # what a user may still do with a runner that has ended (a second shutdown, ...)
        if run.get("after"):
            log("after-begin", None, rid=rid)
            world.control(run["after"], rid)
        time.sleep(run.get("linger", 0.25))      # late steps of payloads would show up here
        log("linger-over", None, rid=rid)
    dump_and_exit(0)


if __name__ == "__main__":
    main()

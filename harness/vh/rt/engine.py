"""Scenario engine: run scenarios in worker processes, map event logs to model traces."""
import json
import os
import subprocess
import sys
import tempfile
from concurrent.futures import ThreadPoolExecutor

from .. import lean

HERE = os.path.dirname(os.path.abspath(__file__))
HARNESS = os.path.dirname(os.path.dirname(HERE))


def run_one(args):
    sc, tmpdir, i = args
    sp = os.path.join(tmpdir, "s%d.json" % i)
    op = os.path.join(tmpdir, "o%d.json" % i)
    json.dump(sc, open(sp, "w"))
    env = dict(os.environ, PYTHONPATH="%s:%s/src" % (HARNESS, os.environ.get("VERIF_REPO", "/repo")), PYTHONDONTWRITEBYTECODE="1")
    try:
        p = subprocess.run([sys.executable, "-m", "vh.rt.worker", sp, op], env=env, capture_output=True, text=True,
                           timeout=sc.get("watchdog", 15) + 20)
        if os.path.exists(op):
            try:
                return json.load(open(op))
            except ValueError as e:
                return {"log": [], "crashed": "unreadable worker output: %s" % e, "hung": True}
        return {"log": [], "crashed": p.stderr[-1500:], "hung": True}
    except subprocess.TimeoutExpired:
        return {"log": [], "crashed": "worker timeout", "hung": True}


def run_scenarios(scenarios, workers=16):
    tmpdir = tempfile.mkdtemp(prefix="vh-rt-")
    try:
        with ThreadPoolExecutor(max_workers=workers) as ex:
            outs = list(ex.map(run_one, [(sc, tmpdir, i) for i, sc in enumerate(scenarios)]))
        # a worker that produced nothing at all is run once more, alone; if it again has to be
        # killed the scenario counts as one that never ended
        for i, (sc, o) in enumerate(zip(scenarios, outs)):
            if o.get("crashed"):
                o2 = run_one((sc, tmpdir, 100000 + i))
                if o2.get("crashed"):
                    o2["killed"] = True
                o2["retried"] = True
                outs[i] = o2
        return outs
    finally:
        import shutil
        shutil.rmtree(tmpdir, ignore_errors=True)


def result_of(end):
    """model result of an accept-end log entry: ['returned'] | ['raisedRT', pid] | ['raisedBase', pid] | ['other', type]"""
    if end["result"] == "returned":
        return ["returned"]
    causes = end.get("causes", [])
    pid = None
    for c in causes:
        if "pid" in c:
            pid = c["pid"]
            break
        if "orphan_pid" in c:
            pid = c["orphan_pid"]
            break
    if pid is None:
        return ["other", end["result"]]
    if end["result"] == "RuntimeError":
        return ["raisedRT", pid]
    return ["raisedBase", pid]


def to_trace(sc, out):
    """observable model events, in log order"""
    log = out["log"]
    tids = {}
    main = next((e["thread"] for e in log if e["kind"] == "accept-begin" and not e.get("concurrent")), None)
    if main is not None:
        tids[main] = 0

    def tid(t):
        if t not in tids:
            tids[t] = len(tids) + (0 if main is not None else 1)
        return tids[t]

    execd = {e["pid"] for e in log if e["kind"] == "exec-call"}
    adopt_ok = {e["pid"] for e in log if e["kind"] == "adopt-return" and e.get("result") == "none"}
    rejected = set()
    for e in log:
        if e["kind"] == "accept-end" and e.get("concurrent") and e["result"] == "RuntimeError" and not e.get("has_cause"):
            rejected.add((e["rid"], e["thread"]))
    events, pids = [], []
    fl_of = {p["pid"]: p["fl"] for p in sc.get("payloads", [])}
    for e in log:
        k, pid = e["kind"], e.get("pid")
        if k == "accept-begin":
            if e.get("concurrent") and (e["rid"], e["thread"]) in rejected:
                events.append(["acceptReject", e["rid"]])
            else:
                events.append(["acceptBegin", e["rid"]])
        elif k == "adopt-call" and pid in adopt_ok:
            events.append(["adopt", pid, e["fl"]]); pids.append(pid)
        elif k == "unit-new":
            events.append(["newUnit", pid, e["fl"]]); pids.append(pid)
        elif k == "start":
            if pid in execd:
                events.append(["execBegin", pid, e["fl"], tid(e["thread"])]); pids.append(pid)
            else:
                events.append(["start", pid, tid(e["thread"])])
        elif k == "body-end" and pid not in execd:
            events.append(["bodyEnd", pid, e["out"]])
        elif k == "exec-return":
            if any(x[0] == "execBegin" and x[1] == pid for x in events):
                events.append(["execEnd", pid, "none"])
        elif k == "unwound" and pid not in execd:
            events.append(["unwound", pid])
        elif k == "sigint":
            events.append(["sigint"])
        elif k == "shutdown-call":
            events.append(["shutdownCall"])
        elif k == "accept-end" and not (e.get("concurrent") and (e["rid"], e["thread"]) in rejected):
            r = result_of(e)
            if r[0] in ("raisedRT", "raisedBase"):
                # several payloads may have failed at once (an exception group): name one whose outcome is of the
                # kind the run ended with (a BaseException for a bare raise, an Exception / value for RuntimeError)
                outs = {x[1]: x[2] for x in events if x[0] == "bodyEnd"}
                want = ("baseExc", "sysExit", "kbd") if r[0] == "raisedBase" else ("exc", "value")
                for c in e.get("causes", []):
                    cp = c.get("pid", c.get("orphan_pid"))
                    if cp is not None and outs.get(cp) in want:
                        r = [r[0], cp]
                        break
            events.append(["endRun"] + r)
    return sorted(set(pids)), events


def end_alternatives(out, events, i):
    """other ways to name the failure a run ended with, for the `endRun` event at position i: when several payloads
    failed together (trio raises them as one group, and the group leaves bare as soon as one member is a
    BaseException) the LTS, which knows one failure per runner, is asked whether the run could have ended because
    of any one of them - each with the result kind of its own outcome. What type left the run is the oracle's
    business."""
    ends = [e for e in out["log"] if e["kind"] == "accept-end"]
    nth = sum(1 for x in events[:i + 1] if x[0] == "endRun") - 1
    if nth < 0 or nth >= len(ends):
        return []
    outs = {x[1]: x[2] for x in events[:i] if x[0] == "bodyEnd"}
    alts = []
    for c in ends[nth].get("causes", []):
        cp = c.get("pid", c.get("orphan_pid"))
        if cp is None or cp not in outs:
            continue
        ev = ["endRun", "raisedRT" if outs[cp] in ("exc", "value") else "raisedBase", cp]
        if ev != events[i] and ev not in alts:
            alts.append(ev)
    return alts


def accept_traces(traces):
    """traces: list of (pids, events) -> list of driver answers"""
    reqs = ["RT " + json.dumps({"pids": p, "events": ev}) for p, ev in traces]
    return lean.drive(reqs, jobs=8)

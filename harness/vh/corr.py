"""Generic differential loop: implementation vs Lean model vs property oracle."""
import json

from . import lean


def shrink(case, shrinks, still_bad, budget=400):
    """greedy shrinking: `shrinks(case)` yields smaller candidates"""
    cur = case
    improved = True
    while improved and budget > 0:
        improved = False
        for cand in shrinks(cur):
            budget -= 1
            if budget <= 0:
                break
            try:
                if still_bad(cand):
                    cur = cand
                    improved = True
                    break
            except Exception:
                continue
    return cur


def run_stream(ctx, stream, cases, impl, line, oracle, nontrivial, shrinks=None, expect=None):
    """cases: list of JSON-able cases.  impl(case) -> obs;  line(case, obs) -> JSON request for
    the model (or None to skip the model);  oracle(case, obs) -> [(key, what)];
    expect(case, obs, model_out) -> (impl_view, model_view) to compare (default: obs vs out)."""
    pid = ctx.pid
    raw_impl = impl

    def impl(c):
        # an exception the harness does not expect from the implementation is an observation
        # (reported below), not a crash of the check
        try:
            return raw_impl(c)
        except Exception as e:
            import traceback
            return {"impl_raised": type(e).__name__, "msg": str(e)[:200], "where": traceback.format_exc()[-600:]}

    obs = [impl(c) for c in cases]
    reqs, idx = [], []
    for i, (c, o) in enumerate(zip(cases, obs)):
        l = line(c, o) if "impl_raised" not in o else None
        if l is not None:
            reqs.append("%s %s" % (pid, json.dumps(l, separators=(",", ":"))))
            idx.append(i)
    outs = lean.drive(reqs)
    model = {i: m for i, m in zip(idx, outs)}

    def one_model(c, o):
        l = line(c, o)
        return lean.drive(["%s %s" % (pid, json.dumps(l, separators=(",", ":")))])[0]

    def differs(c, o, m):
        a, b = expect(c, o, m) if expect else (o, m)
        return a != b

    for i, (c, o) in enumerate(zip(cases, obs)):
        if "impl_raised" in o:
            ctx.count(stream, c, True)
            key = "unexpected-exception:%s" % o["impl_raised"]
            if not any(k == key for k, _, _ in ctx.violations):
                ctx.violation(key, "the implementation raised %s (%s) where the property allows no such error\n%s" % (o["impl_raised"], o["msg"], o["where"]), c)
            continue
        ctx.count(stream, c, nontrivial(c, o))
        vs = oracle(c, o)
        for key, what in vs:
            cc = c
            if any(k == key for k, _, _ in ctx.violations):
                continue
            if shrinks:
                def still(x, key=key):
                    ox = impl(x)
                    return "impl_raised" not in ox and any(k == key for k, _ in oracle(x, ox))
                cc = shrink(c, shrinks, still)
            ctx.violation(key, what, cc)
        if i in model and differs(c, o, model[i]):
            cc, oo, mm = c, o, model[i]
            if len(ctx.disagreements) >= 20:
                continue
            if shrinks and len(ctx.disagreements) < 2:
                def bad(x):
                    ox = impl(x)
                    return "impl_raised" not in ox and differs(x, ox, one_model(x, ox))
                cc = shrink(c, shrinks, bad, budget=60)
                oo = impl(cc)
                mm = one_model(cc, oo)
            ctx.disagree(stream, cc, oo, mm)
            # the search the protocol asks for: the oracle on the shrunk case
            for key, what in oracle(cc, oo):
                ctx.violation(key, what, cc)

"""Running a service on trio's virtual clock, with a budget of task steps.

A loop that keeps waking at the same virtual instant (a sleep whose length rounds to nothing) would
never let virtual time advance and the run would never end; the budget cancels such a run."""
import trio
import trio.testing


class Livelock(Exception):
    pass


class _Budget(trio.abc.Instrument):
    def __init__(self, limit):
        self.n, self.limit, self.scope, self.hit = 0, limit, None, False

    def before_task_step(self, task):
        self.n += 1
        if self.n > self.limit and not self.hit and self.scope is not None:
            self.hit = True
            self.scope.cancel()


def run(main, limit=400000):
    budget = _Budget(limit)

    async def wrapped():
        with trio.CancelScope() as scope:
            budget.scope = scope
            return await main()

    res = trio.run(wrapped, clock=trio.testing.MockClock(autojump_threshold=0), instruments=[budget])
    if budget.hit:
        raise Livelock("more than %d task steps: the service spins without letting virtual time pass" % limit)
    return res

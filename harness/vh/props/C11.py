"""C11 — Coroutine payloads of one flavour never run in parallel."""
from ..rt import check

STREAMS = ["threads"]
REGENERATE_SRC = True
RULE = ("mixes of adopted, service and executed coroutine payloads per flavour next to thread payloads that block for "
        "200 ms; every payload records threading.get_ident() and the identity of its running loop / trio token; a "
        "non-atomic enter/exit counter per flavour inside the synchronous sections (widened with time.sleep(0)) would "
        "show two coroutine payloads of one flavour between checkpoints at once; coroutine heartbeats must go on while "
        "thread payloads block; in a third of the scenarios a thread payload registered before start executes a coroutine payload while the runtime is still coming up; non-trivial = at least two payloads; distinct = distinct scenario")
ASSUMPTIONS = ["an executed threading payload runs in the calling thread by design (ThreadRunner.run_payload): 'thread payloads run outside the two threads' is about adopted / service payloads",
               "framework semantics enter the model as enabling conditions"]
TRUSTED = ["scenario engine (harness/vh/rt)"]


def oracle(sc, out):
    res = []
    log = out["log"]
    fl_of = {p["pid"]: p["fl"] for p in sc["payloads"]}
    role = {p["pid"]: p.get("role") for p in sc["payloads"]}
    ev = [e for e in log if e.get("pid") in fl_of and e["kind"] in ("start", "step")]
    threads = {"aio": set(), "trio": set()}
    ctxs = {"aio": set(), "trio": set()}
    for e in ev:
        fl = fl_of[e["pid"]]
        if fl in threads:
            threads[fl].add(e["thread"])
            ctxs[fl].add(e.get("loop") if fl == "aio" else e.get("trio"))
    for fl in ("aio", "trio"):
        if len(threads[fl]) > 1 or len(ctxs[fl]) > 1:
            res.append(("several-threads:%s" % fl, "%s payloads ran on %d threads / %d loops" % (fl, len(threads[fl]), len(ctxs[fl]))))
    for e in log:
        if e["kind"] == "start" and fl_of.get(e["pid"]) == "thr" and role.get(e["pid"]) != "executed":
            if e["thread"] in threads["aio"] | threads["trio"]:
                res.append(("thread-payload-on-loop-thread", "thread payload %d ran on a coroutine thread" % e["pid"]))
    if out.get("overlap"):
        res.append(("overlap", "two %s payloads were between checkpoints at the same time" % out["overlap"][0][0]))
    # heartbeats while thread payloads block
    blocks = [e for e in log if e["kind"] == "start" and role.get(e["pid"]) == "blocker"]
    sd = next((e for e in log if e["kind"] == "shutdown-call"), None)
    if sc.get("many") and sd is not None:
        # dozens of thread payloads that block for longer than the scenario lasts: by the end every
        # coroutine flavour must beat at its usual rate again (creating the threads takes a moment,
        # waiting for one of them to finish would take forever)
        for fl in ("aio", "trio"):
            have = {p["pid"] for p in sc["payloads"] if p["fl"] == fl and p.get("role") == "co"}
            if not any(e["kind"] == "start" and e["pid"] in have and e["t"] < sd["t"] - 0.5 for e in log):
                continue
            beats = [e for e in log if e["kind"] == "step" and e["pid"] in have and sd["t"] - 0.4 <= e["t"] <= sd["t"]]
            if len(beats) < 3:
                res.append(("coroutines-stalled:%s" % fl, "only %d %s heartbeats in the last 0.4 s before shutdown while %d thread payloads were blocked" % (len(beats), fl, sc["many"])))
    elif blocks:
        t0 = blocks[0]["t"]
        for fl in ("aio", "trio"):
            have = [p for p in sc["payloads"] if p["fl"] == fl and p.get("role") == "co"]
            started = [e for e in log if e["kind"] == "start" and e["pid"] in {p["pid"] for p in have} and e["t"] < t0 + 0.05]
            if not started:
                continue
            beats = [e for e in log if e["kind"] == "step" and fl_of.get(e["pid"]) == fl and t0 + 0.05 <= e["t"] <= t0 + 0.2]
            if len(beats) < 3:
                res.append(("coroutines-stalled:%s" % fl, "only %d %s heartbeats while thread payloads blocked" % (len(beats), fl)))
    return res


def run(ctx):
    check.run_family(ctx, "threads", ctx.n(96, 1200), oracle)


def replay(payload):
    return check.replay(payload, oracle)

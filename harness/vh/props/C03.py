"""C03 — Every adopted payload and every service is started exactly once."""
from ..rt import check

STREAMS = ["startonce"]
REGENERATE_SRC = True
RULE = ("0..6 payloads per flavour with random positional / keyword arguments, queued before start, adopted after "
        "start from an outside thread or from inside a payload of each flavour, services created before and after "
        "start; counted after quiescence plus several polling cycles of the service loop (accept_delay 20 ms); a quarter "
        "of the scenarios adopt further payloads while a shutdown with a slow shielded trio cleanup is in progress; "
        "non-trivial = at least two payloads; distinct = distinct scenario")
ASSUMPTIONS = ["garbage collection of service instances is not exhibited: the harness holds strong references",
               "framework semantics enter the model as enabling conditions"]
TRUSTED = ["scenario engine (harness/vh/rt)"]


def oracle(sc, out):
    res = []
    log = out["log"]
    if check.accept_end(out) is None:
        res.append(("never-ends", "accept() did not end after shutdown"))
    starts = {}
    for e in log:
        if e["kind"] == "start":
            starts.setdefault(e["pid"], []).append(e)
    for e in log:
        if e["kind"] == "adopt-error":
            res.append(("adopt-raised:%s" % e["etype"], "adopt of payload %s raised %s" % (e["pid"], e["etype"])))
        if e["kind"] == "adopt-return" and e.get("result") != "none":
            res.append(("adopt-returned-value", "adopt returned something other than None"))
    threads = {"aio": set(), "trio": set()}
    for p in sc["payloads"]:
        if p.get("role") in ("executed",):
            continue
        n = len(starts.get(p["pid"], []))
        late = p.get("role") == "late"
        registered = p.get("mode", "").startswith("service") or any(e["kind"] == "adopt-return" and e["pid"] == p["pid"] for e in log)
        if not registered:
            continue
        if n > 1:
            res.append(("started-twice", "payload %d (%s, %s) was started %d times" % (p["pid"], p["fl"], p.get("mode"), n)))
        if n == 0 and not late:
            res.append(("not-started", "payload %d (%s, %s) was never started" % (p["pid"], p["fl"], p.get("mode"))))
        sd = next((e for e in log if e["kind"] == "shutdown-call"), None)
        if n == 1 and not late and sd is not None and starts[p["pid"]][0]["seq"] > sd["seq"]:
            res.append(("not-started", "payload %d (%s, %s) was not started while the runtime was up (it only began when the shutdown woke its runner)" % (p["pid"], p["fl"], p.get("mode"))))
        for s in starts.get(p["pid"], []):
            if not s.get("args_ok"):
                res.append(("wrong-arguments", "payload %d did not receive exactly the supplied arguments" % p["pid"]))
            ctx_ok = {"aio": "loop" in s and "trio" not in s, "trio": "trio" in s, "thr": "loop" not in s and "trio" not in s}[p["fl"]]
            if not ctx_ok or s.get("fl") != p["fl"]:
                res.append(("wrong-flavour", "payload %d requested %s but ran in another context" % (p["pid"], p["fl"])))
    return res


def run(ctx):
    check.run_family(ctx, "startonce", ctx.n(96, 1500), oracle)


def replay(payload):
    return check.replay(payload, oracle)

"""C04 — A >> chain builds exactly the nested pipeline, however grouped or curried."""
import inspect
import json
import threading

from .. import corr
from ..pools import RecPool

STREAMS = ["sig", "shipped", "chain", "reuse"]
REGENERATE_SRC = True
RULE = ("sig: classes generated with exec from random signatures (positional, defaulted, *args, keyword-only, "
        "**kwargs), as Controller / PoolDecorator / Pool subclasses, with or without @service, arguments split over "
        "1..4 curry calls incl. unknown / duplicated names, 'target', too many positionals, Pool instances; shipped: "
        "the shipped controllers / decorators / composites with their real signatures (regenerated with inspect on "
        "every run); chain: chains of 1..8 templates, random binary groupings (thorough: all groupings for n <= 6), "
        "three tail forms, arguments split over curry calls; reuse: one pending prefix `t1 >> .. >> tk` (any grouping) "
        "evaluated once and then extended several times with different suffixes and tails, the prefix bound directly "
        "last (a pending chain is a value: later extensions must not show in earlier ones); non-trivial = a rejected argument list or a chain of "
        ">= 3 elements; distinct = distinct canonical case JSON")
ASSUMPTIONS = ["inspect.Signature.bind_partial is modelled by the closed form Sig.bindPartial and compared with the library through Partial on every generated signature",
               "positional-only parameters are outside the model (no shipped constructor uses them)",
               "constructor bodies do not raise (TypeError only comes from argument binding)"]
TRUSTED = ["CPython call binding (used by the oracle as the independent model of 'can bind')", "inspect.signature"]

LOG = []
POOLS = {}
PNAMES = ["a", "b", "c", "d", "k", "m"]


# ------------------------------------------------------------------ generated classes

class FalsyPool(RecPool):
    """a container-like pool without children: a perfectly good Pool that is falsy"""
    def __len__(self):
        return 0


def make_class(sig, base, service_wrapped, cid, recording_star=False, falsy=False, parent=None):
    from cobald.interfaces import Controller, PoolDecorator
    params = ["self"]
    for n, d in sig["pos"]:
        params.append(n + ("=None" if d else ""))
    if sig["varPos"]:
        params.append("*rest")
    elif sig["kwOnly"]:
        params.append("*")
    for n, d in sig["kwOnly"]:
        params.append(n + ("=None" if d else ""))
    if sig["varKw"]:
        params.append("**extra")
    names = [n for n, _ in sig["pos"]] + [n for n, _ in sig["kwOnly"]]
    body = "    def __init__(%s):\n" % ", ".join(params)
    body += "        LOG.append((%d, self))\n" % cid
    if base != "pool":
        body += "        self.target = %s\n" % (sig["pos"][0][0] if sig["pos"] else "rest[0]")
    if recording_star:
        body += "        self._args, self._kwargs, self._cid = rest, extra, %d\n" % cid
    body += "        self._bound = {%s}\n" % ", ".join("%r: %s" % (n, n) for n in names)
    body += "    def run(self):\n        pass\n"
    if falsy:
        body += "    def __len__(self):\n        return 0\n"
    bases = {"controller": "Controller", "decorator": "PoolDecorator", "pool": "RecPool"}[base]
    src = "class G%d(%s):\n%s" % (cid, bases, body)
    ns = {"Controller": Controller, "PoolDecorator": PoolDecorator, "RecPool": RecPool, "LOG": LOG}
    if parent is not None:
        # a subclass of another generated element class: a template of the subclass builds the subclass
        src = "class G%d(Parent):\n%s" % (cid, body)
        ns["Parent"] = parent
    exec(src, ns)
    cls = ns["G%d" % cid]
    if service_wrapped:
        from cobald.daemon.runners.service import service
        cls = service(flavour=threading)(cls)
    return cls


def gen_sig(rng, leaf):
    names = PNAMES[:]
    rng.shuffle(names)
    npos = rng.randint(0, 3)
    pos = [[names.pop(), False] for _ in range(npos)]
    ndef = rng.randint(0, npos)
    for i in range(npos - ndef, npos):
        pos[i][1] = True
    varpos = rng.random() < 0.25
    if not leaf:
        # the target is the first positional parameter whatever it is called - or it arrives
        # through *args of a pass-through constructor
        r = rng.random()
        if r < 0.7:
            pos = [["target", False]] + pos
        elif r < 0.9:
            pos = [[rng.choice(["pool", "tgt", "wrapped"]), False]] + pos
        else:
            pos, varpos = [], True
    nkw = rng.randint(0, 2)
    kwonly = [[names.pop(), rng.random() < 0.5] for _ in range(nkw)]
    return {"pos": pos, "varPos": varpos, "kwOnly": kwonly, "varKw": rng.random() < 0.25}


def gen_calls(rng, sig, leaf, pnames=None):
    known = [n for n, _ in (sig["pos"] if leaf else sig["pos"][1:])] + [n for n, _ in sig["kwOnly"]]
    calls = []
    nid = [0]
    def arg(allow_pool=True):
        nid[0] += 1
        return {"id": nid[0], "pool": allow_pool and rng.random() < 0.08}
    used = set()
    for _ in range(rng.randint(1, 4)):
        nargs = rng.choice([0, 0, 1, 1, 2, 3])
        kws = []
        for _k in range(rng.choice([0, 0, 1, 1, 2])):
            r = rng.random()
            if r < 0.7 and known:
                k = rng.choice(known)
            elif r < 0.78:
                k = "target" if leaf or not sig["pos"] else sig["pos"][0][0]
            elif r < 0.9:
                k = rng.choice(["zz", "rest", "extra", "q"])
            else:
                k = rng.choice(list(used) or ["zz"])
            if k in [x[0] for x in kws]:
                continue
            kws.append([k, arg(False)])
            used.add(k)
        calls.append({"args": [arg() for _ in range(nargs)], "kwargs": kws})
    return calls


def pyarg(a):
    if a["pool"]:
        return POOLS.setdefault(a["id"], RecPool(name="argpool%d" % a["id"]))
    return a["id"]


def run_calls(cls, calls):
    """template creation + curry calls on the real Partial; index of the first TypeError"""
    tmpl = None
    for i, c in enumerate(calls):
        args = [pyarg(a) for a in c["args"]]
        kwargs = {k: pyarg(a) for k, a in c["kwargs"]}
        try:
            tmpl = cls.s(*args, **kwargs) if tmpl is None else tmpl(*args, **kwargs)
        except TypeError:
            return i, None
    return None, tmpl


def expected_reject(cls, calls, leaf, sig):
    """from Python's own call binding: first step after which the accumulated arguments can never bind"""
    acc_args, acc_kw = [], {}
    named = [n for n, _ in sig["pos"]] + [n for n, _ in sig["kwOnly"]]
    for i, c in enumerate(calls):
        if any(k in acc_kw for k, _ in c["kwargs"]):
            return i
        acc_args += [pyarg(a) for a in c["args"]]
        acc_kw.update({k: pyarg(a) for k, a in c["kwargs"]})
        if "target" in acc_kw:
            return i
        if not leaf and acc_args and isinstance(acc_args[0], RecPool):
            return i
        # canonical completion: fill every still unfilled named parameter by keyword
        pos_given = ([None] if not leaf else []) + acc_args
        filled = set([n for n, _ in sig["pos"]][:len(pos_given)]) | set(acc_kw)
        completion = {n: 0 for n in named if n not in filled}
        raw = cls.__dict__.get("__wrapped_init__") or cls.__init__
        probe = object.__new__(cls) if True else None
        n0 = len(LOG)
        try:
            raw(probe, *pos_given, **acc_kw, **completion)
        except TypeError:
            return i
        finally:
            del LOG[n0:]
    return None


CLASSES = {}


def impl(case):
    if case["mode"] == "sig":
        key = json.dumps([case["sig"], case["base"], case["service"]], sort_keys=True)
        if key not in CLASSES:
            CLASSES[key] = make_class(case["sig"], case["base"], case["service"], len(CLASSES))
        cls = CLASSES[key]
        leaf = case["base"] == "pool"
        ra, tmpl = run_calls(cls, case["calls"])
        complete = False
        if tmpl is not None:
            n0 = len(LOG)
            try:
                tmpl.__construct__(*([] if leaf else [None]))
                complete = True
            except TypeError:
                complete = False
            del LOG[n0:]
        return {"reject_at": ra, "complete": complete, "expected": expected_reject(cls, case["calls"], leaf, case["sig"])}
    if case["mode"] == "shipped":
        cls = SHIPPED[case["cls"]][0]
        leaf = SHIPPED[case["cls"]][2]
        ra, tmpl = run_calls(cls, case["calls"])
        return {"reject_at": ra}
    if case["mode"] == "reuse":
        return impl_reuse(case)
    return impl_chain(case)


def line(case, o):
    if case["mode"] == "reuse":
        return {"mode": "chains", "chains": [{"items": c["items"], "tree": c["tree"]} for c in derived(case)]}
    if case["mode"] == "sig":
        return {"mode": "sig", "sig": case["sig"], "leaf": case["base"] == "pool", "calls": case["calls"]}
    if case["mode"] == "shipped":
        return {"mode": "sig", "sig": SHIPPED[case["cls"]][1], "leaf": SHIPPED[case["cls"]][2], "calls": case["calls"]}
    return {"mode": "chain", "items": case["items"], "tree": case["tree"]}


def expect(case, o, m):
    if "driver_error" in m:
        return o, m
    if case["mode"] == "sig":
        return {"reject_at": o["reject_at"], "complete": o["complete"]}, m
    if case["mode"] == "shipped":
        return {"reject_at": o["reject_at"]}, {"reject_at": m["reject_at"]}
    return o, m


# ------------------------------------------------------------------ shipped classes

SHIPPED = {}


def sig_of(cls, leaf):
    """the true constructor signature, read from the live class's __init__"""
    ps = list(inspect.signature(cls.__init__).parameters.values())[1:]
    sig = {"pos": [], "varPos": False, "kwOnly": [], "varKw": False}
    for p in ps:
        if p.kind == p.POSITIONAL_OR_KEYWORD:
            sig["pos"].append([p.name, p.default is not p.empty])
        elif p.kind == p.VAR_POSITIONAL:
            sig["varPos"] = True
        elif p.kind == p.KEYWORD_ONLY:
            sig["kwOnly"].append([p.name, p.default is not p.empty])
        elif p.kind == p.VAR_KEYWORD:
            sig["varKw"] = True
    return sig


def load_shipped():
    from cobald.controller.linear import LinearController
    from cobald.controller.relative_supply import RelativeSupplyController
    from cobald.controller.switch import DemandSwitch
    from cobald.decorator.standardiser import Standardiser
    from cobald.decorator.buffer import Buffer
    from cobald.decorator.logger import Logger
    from cobald.composite.uniform import UniformComposite
    from cobald.composite.weighted import WeightedComposite
    from cobald.composite.factory import FactoryPool
    for cls, leaf in [(LinearController, False), (RelativeSupplyController, False), (DemandSwitch, False),
                      (Standardiser, False), (Buffer, False), (Logger, False),
                      (UniformComposite, True), (WeightedComposite, True), (FactoryPool, True)]:
        SHIPPED[cls.__name__] = (cls, sig_of(cls, leaf), leaf)


def gen_shipped(rng):
    name = rng.choice(sorted(SHIPPED))
    cls, sig, leaf = SHIPPED[name]
    return {"mode": "shipped", "cls": name, "calls": gen_calls(rng, sig, leaf)}


# ------------------------------------------------------------------ chains

CHAIN_CLASSES = {}


def chain_class(cid, base, svc, falsy=False, sub_of=None):
    key = (cid, base, svc, falsy, json.dumps(sub_of, sort_keys=True))
    if key not in CHAIN_CLASSES:
        sig = {"pos": [] if base == "pool" else [["target", False]], "varPos": True, "kwOnly": [], "varKw": True}
        parent = chain_class(sub_of["ctor"], base, False, bool(sub_of.get("falsy"))) if sub_of else None
        CHAIN_CLASSES[key] = make_class(sig, base, svc, cid, recording_star=True, falsy=falsy, parent=parent)
    return CHAIN_CLASSES[key]


def gen_tree(rng, lo, hi):
    if hi - lo == 1:
        return lo
    mid = rng.randint(lo + 1, hi - 1)
    return [gen_tree(rng, lo, mid), gen_tree(rng, mid, hi)]


def all_trees(lo, hi):
    if hi - lo == 1:
        yield lo
        return
    for mid in range(lo + 1, hi):
        for l in all_trees(lo, mid):
            for r in all_trees(mid, hi):
                yield [l, r]


def gen_chain(rng, n=None):
    n = n or rng.randint(1, 8)
    nid = [100]
    def arg():
        nid[0] += 1
        return {"id": nid[0], "pool": False}
    def item(leaf, cid):
        calls = []
        for _ in range(rng.randint(1, 3)):
            kws = []
            for k in rng.sample(["x", "y", "z", "w"], rng.randint(0, 2)):
                if all(k != kk for c in calls for kk, _ in c["kwargs"]):
                    kws.append([k, arg()])
            calls.append({"args": [arg() for _ in range(rng.randint(0, 2))], "kwargs": kws})
        # only the head of a chain may be a Controller: every later element is the target of its predecessor, i.e. a Pool
        return {"ctor": cid, "leaf": leaf, "calls": calls, "base": "pool" if leaf else ("decorator" if cid > 0 else rng.choice(["controller", "decorator"])),
                "service": rng.random() < 0.3, "falsy": rng.random() < 0.12}
    items = [item(False, i) for i in range(n)]
    # element classes may derive from one another (SoftLimiter(Limiter)): a template of the subclass,
    # taken after one of its base class - both without arguments, or not - still builds the subclass
    for i, it in enumerate(items):
        olders = [o for o in items[:i] if o["base"] == "decorator" and not o["service"] and "sub_of" not in o]
        if it["base"] == "decorator" and olders and rng.random() < 0.3:
            o = rng.choice(olders)
            it["sub_of"] = {"ctor": o["ctor"], "falsy": o["falsy"]}
            if rng.random() < 0.6:
                for x in (o, it):
                    if x["calls"][0]["args"] or x["calls"][0]["kwargs"]:
                        x["calls"].insert(0, {"args": [], "kwargs": []})
    tail = rng.choice(["pool", "tmpl", "tmpl"])
    items.append({"pool": 999, "falsy": rng.random() < 0.2} if tail == "pool" else item(True, n))
    return {"mode": "chain", "items": items, "tree": gen_tree(rng, 0, n + 1)}


def build_items(items):
    objs = []
    for it in items:
        if "pool" in it:
            p = (FalsyPool if it.get("falsy") else RecPool)(name="tailpool")
            p._pid = it["pool"]
            objs.append(p)
        else:
            cls = chain_class(it["ctor"], it["base"], it["service"], bool(it.get("falsy")), it.get("sub_of"))
            t = None
            for c in it["calls"]:
                args = [a["id"] for a in c["args"]]
                kw = {k: a["id"] for k, a in c["kwargs"]}
                t = cls.s(*args, **kw) if t is None else t(*args, **kw)
            objs.append(t)
    return objs


def canon_obj(o):
    if hasattr(o, "_pid"):
        return {"pool": o._pid}
    return {"ctor": o._cid, "args": list(o._args), "kwargs": [[k, v] for k, v in o._kwargs.items()],
            "target": canon_obj(o.target) if hasattr(o, "target") and o.target is not None else None}


def call_of(o):
    return {"ctor": o._cid, "args": list(o._args), "kwargs": [[k, v] for k, v in o._kwargs.items()]}


def graft(tree, pre_tree, k, p):
    """leaf p of a use's tree stands for the shared pending value (k templates, grouped as pre_tree),
    the other leaves for the use's own items, in order"""
    if isinstance(tree, int):
        if tree == p:
            return shift(pre_tree, p)
        return tree if tree < p else tree + k - 1
    return [graft(tree[0], pre_tree, k, p), graft(tree[1], pre_tree, k, p)]


def shift(tree, d):
    return tree + d if isinstance(tree, int) else [shift(tree[0], d), shift(tree[1], d)]


def derived(case):
    """the chains a reuse program stands for: own items before ++ shared ++ own items after"""
    pre = case["prefix"]
    k = len(pre["items"])
    out = []
    for sfx in case["suffixes"]:
        p = sfx.get("pos", 0)
        items = sfx["items"][:p] + pre["items"] + sfx["items"][p:]
        out.append({"mode": "chain", "items": items, "tree": graft(sfx["tree"], pre["tree"], k, p)})
    return out


def gen_reuse(rng):
    k = rng.randint(2, 4)
    base = gen_chain(rng, k)
    pre_items = [dict(it, base="decorator") for it in base["items"][:k]]
    prefix = {"items": pre_items, "tree": gen_tree(rng, 0, k)}
    suffixes = []
    cid = k
    for j in range(rng.randint(2, 4)):
        extra = gen_chain(rng, rng.randint(1, 4))
        items = []
        for it in extra["items"]:
            if "pool" in it:
                items.append({"pool": 900 + j})
            else:
                # (only the head of a whole chain may be a Controller; irrelevant here: decorators throughout)
                items.append(dict(it, ctor=cid, base="pool" if it["leaf"] else "decorator"))
                cid += 1
        # the shared value is one `>>` operand of the use: left-most, or after some of the use's own heads
        pos = rng.choice([0, 0, rng.randint(0, len(items) - 1)])
        suffixes.append({"items": items, "pos": pos, "tree": gen_tree(rng, 0, len(items) + 1)})
    return {"mode": "reuse", "prefix": prefix, "suffixes": suffixes}


def impl_reuse(case):
    from cobald.interfaces import Partial
    from cobald.interfaces._partial import PartialBind

    def ev(objs, tree):
        if isinstance(tree, int):
            return objs[tree]
        return ev(objs, tree[0]) >> ev(objs, tree[1])

    try:
        pre = ev(build_items(case["prefix"]["items"]), case["prefix"]["tree"])
    except TypeError:
        return {"results": [{"error": "TypeError"}] * len(case["suffixes"])}
    results = []
    for sfx in case["suffixes"]:
        del LOG[:]
        own = build_items(sfx["items"])
        p = sfx.get("pos", 0)
        try:
            res = ev(own[:p] + [pre] + own[p:], sfx["tree"])
        except TypeError:
            results.append({"error": "TypeError"})
            continue
        if isinstance(res, (Partial, PartialBind)):
            results.append({"unbound": len(LOG)})
            continue
        ids = [id(o) for _, o in LOG]
        results.append({"obj": canon_obj(res), "log": [call_of(o) for _, o in LOG], "_once": len(set(ids)) == len(ids)})
    return {"results": results}


def impl_chain(case):
    del LOG[:]
    objs = build_items(case["items"])

    def ev(tree):
        if isinstance(tree, int):
            return objs[tree]
        l = ev(tree[0])
        r = ev(tree[1])
        return l >> r

    from cobald.interfaces import Partial
    from cobald.interfaces._partial import PartialBind
    try:
        res = ev(case["tree"])
    except TypeError:
        return {"error": "TypeError"}
    if isinstance(res, (Partial, PartialBind)):
        return {"unbound": len(LOG)}

    def canon(o):
        if hasattr(o, "_pid"):
            return {"pool": o._pid}
        return {"ctor": o._cid, "args": list(o._args), "kwargs": [[k, v] for k, v in o._kwargs.items()],
                "target": canon(o.target) if hasattr(o, "target") and o.target is not None else None}

    def call(o):
        return {"ctor": o._cid, "args": list(o._args), "kwargs": [[k, v] for k, v in o._kwargs.items()]}
    ids = [id(o) for _, o in LOG]
    return {"obj": canon(res), "log": [call(o) for _, o in LOG], "_once": len(set(ids)) == len(ids)}


def expect_chain(o):
    return {k: v for k, v in o.items() if not k.startswith("_")}


def hand_nested(case):
    """independent: nest the constructors by hand, last to first"""
    items = case["items"]
    log = []
    def merged(it):
        args, kw = [], []
        for c in it["calls"]:
            args += [a["id"] for a in c["args"]]
            kw += [[k, a["id"]] for k, a in c["kwargs"]]
        return args, kw
    tail = items[-1]
    if "pool" in tail:
        cur = {"pool": tail["pool"]}
    else:
        a, k = merged(tail)
        cur = {"ctor": tail["ctor"], "args": a, "kwargs": k, "target": None}
        log.append({"ctor": tail["ctor"], "args": a, "kwargs": k})
    for it in reversed(items[:-1]):
        a, k = merged(it)
        cur = {"ctor": it["ctor"], "args": a, "kwargs": k, "target": cur}
        log.append({"ctor": it["ctor"], "args": a, "kwargs": k})
    return {"obj": cur, "log": log}


def oracle(case, o):
    if case["mode"] == "sig":
        if o["reject_at"] != o["expected"]:
            if o["expected"] is None or (o["reject_at"] is not None and o["reject_at"] < o["expected"]):
                return [("rejects-bindable", "arguments that can bind were rejected at step %r (Python's own binding rejects at %r)" % (o["reject_at"], o["expected"]))]
            return [("accepts-unbindable", "arguments that can never bind were accepted: first TypeError at step %r, expected at step %r" % (o["reject_at"], o["expected"]))]
        return []
    if case["mode"] == "shipped":
        cls, sig, leaf = SHIPPED[case["cls"]]
        exp = expected_shipped(case, sig, leaf)
        if o["reject_at"] != exp:
            if exp is None or (o["reject_at"] is not None and o["reject_at"] < exp):
                return [("rejects-bindable:%s" % case["cls"], "%s: bindable arguments rejected at step %r (expected %r)" % (case["cls"], o["reject_at"], exp))]
            return [("accepts-unbindable:%s" % case["cls"], "%s: arguments that can never bind accepted (TypeError at step %r, expected at %r)" % (case["cls"], o["reject_at"], exp))]
        return []
    if case["mode"] == "reuse":
        out = []
        for j, (c, r) in enumerate(zip(derived(case), o["results"])):
            for key, what in oracle(c, r):
                out.append((key + "-on-reuse", "use %d of a shared pending chain: %s" % (j, what)))
        return out[:1]
    exp = hand_nested(case)
    got = expect_chain(o)
    out = []
    if got != exp:
        out.append(("chain-differs", "chain result %r differs from hand-nested construction %r" % (json.dumps(got)[:300], json.dumps(exp)[:300])))
    if o.get("_once") is False:
        out.append(("constructed-twice", "an element was constructed more than once"))
    return out


def expected_shipped(case, sig, leaf):
    """binding decided with inspect on the *real* __init__ signature (independent of Partial)"""
    cls = SHIPPED[case["cls"]][0]
    real = inspect.signature(cls.__init__)
    acc_args, acc_kw = [], {}
    for i, c in enumerate(case["calls"]):
        if any(k in acc_kw for k, _ in c["kwargs"]):
            return i
        acc_args += [pyarg(a) for a in c["args"]]
        acc_kw.update({k: pyarg(a) for k, a in c["kwargs"]})
        if "target" in acc_kw:
            return i
        if not leaf and acc_args and isinstance(acc_args[0], RecPool):
            return i
        try:
            real.bind_partial(None, *([None] if not leaf else []), *acc_args, **acc_kw)
        except TypeError:
            return i
    return None


def nontrivial(case, o):
    if case["mode"] == "reuse":
        return True
    if case["mode"] == "chain":
        return len(case["items"]) >= 3
    return o.get("reject_at") is not None


def shrinks(case):
    if case["mode"] in ("sig", "shipped"):
        calls = case["calls"]
        for i in range(len(calls)):
            if len(calls) > 1:
                yield {**case, "calls": calls[:i] + calls[i + 1:]}
            c = calls[i]
            for j in range(len(c["args"])):
                yield {**case, "calls": calls[:i] + [{**c, "args": c["args"][:j] + c["args"][j + 1:]}] + calls[i + 1:]}
            for j in range(len(c["kwargs"])):
                yield {**case, "calls": calls[:i] + [{**c, "kwargs": c["kwargs"][:j] + c["kwargs"][j + 1:]}] + calls[i + 1:]}


def run(ctx):
    load_shipped()
    rng = ctx.rng("sig")
    cases = []
    for _ in range(ctx.n(2500, 30000)):
        base = rng.choice(["controller", "decorator", "pool"])
        sig = gen_sig(rng, base == "pool")
        cases.append({"mode": "sig", "sig": sig, "base": base, "service": rng.random() < 0.35,
                      "calls": gen_calls(rng, sig, base == "pool")})
    corr.run_stream(ctx, "sig", cases, impl, line, oracle, nontrivial, shrinks, expect)
    rng = ctx.rng("shipped")
    cases = [gen_shipped(rng) for _ in range(ctx.n(1500, 15000))]
    corr.run_stream(ctx, "shipped", cases, impl, line, oracle, nontrivial, shrinks, expect)
    rng = ctx.rng("chain")
    cases = [gen_chain(rng) for _ in range(ctx.n(1500, 15000))]
    if not ctx.quick:
        for n in range(1, 6):
            base = gen_chain(rng, n)
            for t in all_trees(0, n + 1):
                cases.append({**base, "tree": t})
    corr.run_stream(ctx, "chain", cases, impl, line, oracle, nontrivial, None,
                    lambda c, o, m: (expect_chain(o), m))
    rng = ctx.rng("reuse")
    cases = [gen_reuse(rng) for _ in range(ctx.n(600, 6000))]
    corr.run_stream(ctx, "reuse", cases, impl, line, oracle, nontrivial, None,
                    lambda c, o, m: ([expect_chain(r) for r in o["results"]], m.get("results", m)))
    ctx.notes["shipped_signatures"] = {k: v[1] for k, v in SHIPPED.items()}


def replay(payload):
    load_shipped()
    case = payload.get("case") or payload["disagreements"][0]["case"]
    o = impl(case)
    v = oracle(case, o)
    print(json.dumps({"impl": o, "oracle": v}, indent=1, default=str))
    return 1 if v else 0

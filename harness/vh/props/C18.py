"""C18 — YAML loading never instantiates anything that is not a registered plugin."""
import json
import os
import subprocess
import sys
import tempfile

import yaml

from .. import corr, lean, tables

STREAMS = ["table-regeneration", "documents", "documents-without-libyaml"]
REGENERATE_SRC = True
DRIVER_DEPENDS_ON_GENERATED = True
RULE = ("the constructor tables of the loader class that core.config.load hands to PyYAML are introspected from the "
        "live class and re-emitted as Lean data (table_safe is re-proved against them); documents = every python/* tag "
        "kind known to PyYAML x target names (builtins, os / subprocess functions, a cobald class, a canary function, "
        "a not-yet-imported canary module) x positions (top level, pipeline element, argument of an eager and of a "
        "lazy registered tag - as value, as key and as sequence item -, nested, inside pipeline elements) x argument shapes, plus unregistered !tags and benign documents; each document "
        "is loaded in a child process through core.config.load and yaml.load(..., COBalDLoader) with canaries armed, and "
        "once more in a child process where PyYAML's C extension is unavailable (the loader tables must be the same there); "
        "non-trivial = a document with a python/* or unregistered tag; distinct = distinct YAML text")
ASSUMPTIONS = ["PyYAML's scanner / parser / composer / resolver (text -> node tags) are trusted: the model starts from the composed node tree",
               "construct_object dispatches as modelled: exact tag, then multi-constructor prefixes, then the None entries"]
TRUSTED = ["PyYAML 6.0.3 composer", "the canaries (marker file, import hook module, patched os.system / subprocess.Popen / builtins.eval)"]

PY_KINDS = ["python/name:", "python/module:", "python/object:", "python/object/apply:", "python/object/new:"]
PY_TYPED = ["python/none", "python/bool", "python/str", "python/unicode", "python/bytes", "python/int", "python/long",
            "python/float", "python/complex", "python/list", "python/tuple", "python/dict"]
TARGETS = ["os.system", "subprocess.Popen", "builtins.eval", "builtins.exec", "vh_canary.fire", "vh_canary.K",
           "cobald.controller.linear.LinearController", "vh_canary_unimported", "os",
           "vh_canary_pkg.sub.mod.run", "vh_canary_pkg.sub.mod", "vh_canary_pkg.sub", "xml.dom.minidom.parseString"]

CANARY = '''
import os
def _mark(what):
    with open(os.environ["VH_CANARY_FILE"], "a") as f:
        f.write(what + "\\n")
def fire(*a, **k):
    _mark("fire-called")
class K:
    def __init__(self, *a, **k):
        _mark("K-instantiated")
    def __setstate__(self, s):
        _mark("K-setstate")
'''
CANARY2 = '''
import os
with open(os.environ["VH_CANARY_FILE"], "a") as f:
    f.write("unimported-module-imported\\n")
'''

CHILD = r'''
import json, os, sys, builtins, subprocess
if os.environ.get("VH_NO_LIBYAML"):
    sys.modules["yaml._yaml"] = None      # PyYAML without its optional C extension
sys.path.insert(0, os.environ["VH_CANARY_DIR"])
import vh_canary
def _rec(name):
    def f(*a, **k):
        vh_canary._mark(name + "-called")
        raise RuntimeError("canary " + name)
    return f
_eval, _exec = builtins.eval, builtins.exec
import yaml
import cobald.daemon.core.config as core
from cobald.daemon.core.config import COBalDLoader, add_constructor_plugins, load
import tempfile
with tempfile.NamedTemporaryFile("w", suffix=".yaml", delete=False) as _f:
    _f.write("pipeline: []\n")
try:
    with load(_f.name):      # warm up every lazy import before the canaries are armed
        pass
except BaseException:
    pass
os.unlink(_f.name)
os.system = _rec("os.system")
subprocess.Popen = _rec("subprocess.Popen")
out = []
for case in json.load(open(sys.argv[1])):
    res = {}
    path = case["path"]
    builtins.eval = _rec("builtins.eval"); builtins.exec = _rec("builtins.exec")
    try:
        try:
            with load(path) as c:
                res["load"] = "ok"
        except BaseException as e:
            res["load"] = "error:" + type(e).__name__
        try:
            add_constructor_plugins("cobald.config.yaml_constructors", COBalDLoader)
            with open(path) as f:
                yaml.load(f, COBalDLoader)
            res["yaml"] = "ok"
        except BaseException as e:
            res["yaml"] = "error:" + type(e).__name__
    finally:
        builtins.eval, builtins.exec = _eval, _exec
    imported = sorted(m for m in sys.modules if m.startswith(("vh_canary_unimported", "vh_canary_pkg", "xml.dom")))
    res["unimported_loaded"] = imported
    for m in imported:        # so that the next document is judged on its own
        del sys.modules[m]
    out.append(res)
def _kind(fn):
    return "%s.%s" % (getattr(fn, "__module__", "?"), getattr(fn, "__qualname__", "?"))
table = {"mro": [c.__module__ + "." + c.__name__ for c in COBalDLoader.__mro__],
         "exact": sorted([str(k), _kind(v)] for k, v in COBalDLoader.yaml_constructors.items()),
         "multi": sorted([str(k), _kind(v)] for k, v in COBalDLoader.yaml_multi_constructors.items())}
json.dump({"results": out, "table": table}, open(sys.argv[2], "w"))
'''


def value_for(kind, target, rng):
    tag = "!!" + kind + target if kind.endswith(":") else "!!" + kind
    if kind in ("python/object/apply:", "python/object/new:"):
        return "%s %s" % (tag, rng.choice(['["true"]', "[]", "{args: [1], kwds: {a: 1}}"]))
    if kind == "python/object:":
        return "%s %s" % (tag, rng.choice(["{a: 1}", "{}"]))
    if kind in ("python/name:", "python/module:"):
        return '%s ""' % tag
    return "%s %s" % (tag, rng.choice(["1", "[1, 2]", "{a: 1}", '"x"']))


def gen_doc(rng):
    r = rng.random()
    if r < 0.62:
        kind = rng.choice(PY_KINDS)
        val = value_for(kind, rng.choice(TARGETS), rng)
        bad = "python"
    elif r < 0.72:
        val = value_for(rng.choice(PY_TYPED), "", rng)
        bad = "python"
    elif r < 0.86:
        val = rng.choice(["!Unregistered {a: 1}", "!foo [1]", "!LinearControllerX", "!vh_canary.K {}", "!!python [1]",
                          "!vh_canary_pkg.sub.mod.K {}", "!vh_canary_pkg.sub.mod.run [1]", "!xml.dom.minidom.Document {}"])
        bad = "unregistered"
    else:
        val = rng.choice(["1", "[1, 2]", "{a: b}", '"text"', "2001-12-14", "!!set {a, b}", "!!binary aGVsbG8="])
        bad = None
    pos = rng.choice(["top", "pipeline-element", "eager-arg", "lazy-arg", "nested", "key", "eager-key", "lazy-key",
                      "eager-seq", "lazy-seq", "pipeline-arg", "pipeline-key", "deep-lazy", "root", "root-flow", "section",
                      "second-document"])
    if pos == "top":
        text = "__config_test:\n  x: %s\npipeline: []\n" % val
    elif pos == "pipeline-element":
        text = "pipeline:\n  - %s\n" % val
    elif pos == "eager-arg":
        text = "__config_test:\n  y: !__yaml_tag_test\n    a: %s\npipeline: []\n" % val
    elif pos == "lazy-arg":
        text = "__config_test:\n  y: !LinearController\n    rate: %s\npipeline: []\n" % val
    elif pos == "nested":
        text = "__config_test:\n  y:\n    - [1, {k: [%s]}]\npipeline: []\n" % val
    elif pos in ("root", "root-flow", "section") and bad is not None:
        # the tag sits on the mapping that is the document itself (or on a whole section): the content
        # below it is a perfectly valid configuration
        tag = val.split(" ")[0]
        if pos == "root":
            text = "--- %s\npipeline: []\n__config_test:\n  x: 1\n" % tag
        elif pos == "root-flow":
            text = "%s {pipeline: [], __config_test: {x: 1}}\n" % tag
        else:
            text = "pipeline: []\n__config_test: %s\n  x: 1\n" % tag
    elif pos == "second-document" and bad is not None:
        # a valid configuration first; the tag comes after a document separator of the same file
        sep = rng.choice(["---\n", "...\n---\n", "--- "])
        tail = ("%s\n" % val) if sep == "--- " else ("__config_test:\n  x: %s\npipeline: []\n" % val)
        text = "pipeline: []\n__config_test:\n  x: 1\n" + sep + tail
    elif pos == "eager-key":
        text = "__config_test:\n  y: !__yaml_tag_test\n    ? %s\n    : 1\npipeline: []\n" % val
    elif pos == "lazy-key":
        text = "__config_test:\n  y: !LinearController\n    ? %s\n    : 1\npipeline: []\n" % val
    elif pos == "eager-seq":
        text = "__config_test:\n  y: !__yaml_tag_test\n    - 1\n    - %s\npipeline: []\n" % val
    elif pos == "lazy-seq":
        text = "__config_test:\n  y: !LinearController\n    - %s\npipeline: []\n" % val
    elif pos == "pipeline-arg":
        text = "pipeline:\n  - !LinearController\n    low_utilisation: %s\n  - !Standardiser\n    minimum: 1\n" % val
    elif pos == "pipeline-key":
        text = "pipeline:\n  - !LinearController\n    ? %s\n    : 0.5\n" % val
    elif pos == "deep-lazy":
        text = "__config_test:\n  y: !LinearController\n    rate:\n      - {k: [1, {j: %s}]}\npipeline: []\n" % val
    else:
        text = "__config_test:\n  ? %s\n  : 1\npipeline: []\n" % val
    return {"text": text, "bad": bad, "pos": pos}


def node_json(n):
    if isinstance(n, yaml.ScalarNode):
        return {"t": n.tag, "k": "scalar"}
    if isinstance(n, yaml.SequenceNode):
        return {"t": n.tag, "k": "seq", "c": [node_json(x) for x in n.value]}
    return {"t": n.tag, "k": "map", "c": [[node_json(k), node_json(v)] for k, v in n.value]}


def run(ctx):
    # (a) regenerate the table, rebuild what depends on it
    changed, loader_cls = tables.regenerate()
    ctx.notes["table_changed"] = changed
    ctx.notes["loader_class"] = "%s.%s" % (loader_cls.__module__, loader_cls.__qualname__)
    ctx.notes["loader_mro"] = [c.__name__ for c in loader_cls.__mro__]
    if changed:
        ctx.lean_status = lean.prepare(ctx.pid, thorough=not ctx.quick)
    ctx.count("table-regeneration", {"loader": ctx.notes["loader_class"], "entries": len(loader_cls.yaml_constructors)}, True)
    ctx.count("table-regeneration", {"multi": len(loader_cls.yaml_multi_constructors)}, True)
    # (b) documents
    rng = ctx.rng("docs")
    docs = [gen_doc(rng) for _ in range(ctx.n(500, 6000))]
    tmp = tempfile.mkdtemp(prefix="vh-c18-")
    try:
        open(os.path.join(tmp, "vh_canary.py"), "w").write(CANARY)
        open(os.path.join(tmp, "vh_canary_unimported.py"), "w").write(CANARY2)
        # a package several levels deep, none of it imported: naming something inside it must not import its parents
        for sub, what in (("vh_canary_pkg", "package"), ("vh_canary_pkg/sub", "subpackage")):
            os.makedirs(os.path.join(tmp, sub))
            open(os.path.join(tmp, sub, "__init__.py"), "w").write(CANARY2.replace("unimported-module-imported", what + "-imported"))
        open(os.path.join(tmp, "vh_canary_pkg/sub/mod.py"), "w").write(CANARY2.replace("unimported-module-imported", "deep-module-imported") + "def run(*a, **k):\n    pass\nclass K:\n    pass\n")
        marker = os.path.join(tmp, "marker.txt")
        open(marker, "w").close()
        cases = []
        for i, d in enumerate(docs):
            p = os.path.join(tmp, "d%d.yaml" % i)
            open(p, "w").write(d["text"])
            cases.append({"path": p})
        json.dump(cases, open(os.path.join(tmp, "cases.json"), "w"))
        open(os.path.join(tmp, "child.py"), "w").write(CHILD)
        env = dict(os.environ, VH_CANARY_FILE=marker, VH_CANARY_DIR=tmp)
        # canary attribution: run in chunks so that a fired canary can be pinned to a document
        res, table = run_child(tmp, cases, env)
        fired = open(marker).read().split()
        # the same documents in an environment where PyYAML lacks its C extension (pure-Python
        # install): the loader must be the same safe one there
        res2, table2 = run_child(tmp, cases, dict(env, VH_NO_LIBYAML="1"))
        fired += ["no-libyaml:" + x for x in open(marker).read().split()[len(fired):]]
        ctx.notes["loader_table_entries"] = len(table["exact"])
        if table2 != table:
            diff = {"mro": [table["mro"], table2["mro"]],
                    "exact": [x for x in table2["exact"] if x not in table["exact"]][:10],
                    "multi": [x for x in table2["multi"] if x not in table["multi"]][:10]}
            ctx.disagree("documents-without-libyaml", {"environment": "yaml._yaml unavailable"}, diff, "the loader tables of the regenerated Lean table")
        # model verdicts
        reqs, comp_err = [], {}
        for i, d in enumerate(docs):
            try:
                node = yaml.compose(d["text"], Loader=yaml.SafeLoader)
                reqs.append((i, {"doc": node_json(node)}))
            except yaml.YAMLError as e:
                comp_err[i] = type(e).__name__
        outs = lean.drive(["C18 " + json.dumps(r) for _, r in reqs]) if ctx.lean_status.get("driver_ok") else []
        model = {i: o for (i, _), o in zip(reqs, outs)}
        for i, d in enumerate(docs):
            r = res[i]
            ctx.count("documents", d["text"], d["bad"] is not None)
            ctx.tally("bad:%s" % d["bad"])
            ctx.tally("pos:%s" % d["pos"])
            impl_err = r["load"].startswith("error") and r["yaml"].startswith("error")
            impl_ok = r["load"] == "ok" and r["yaml"] == "ok"
            if i in comp_err and d["pos"] != "second-document":
                continue  # not a well-formed YAML document at all (a file of several documents is judged below: it must be rejected)
            if d["bad"] and not impl_err:
                ctx.violation("dangerous-document-accepted", "document using a %s tag at %s was not rejected: %r -> %r" % (d["bad"], d["pos"], d["text"], r), d)
            if r.get("unimported_loaded"):
                ctx.violation("module-imported", "loading imported %r, named by the document: %r" % (r["unimported_loaded"], d["text"]), d)
            r2 = res2[i]
            ctx.count("documents-without-libyaml", d["text"], d["bad"] is not None)
            if d["bad"] and not (r2["load"].startswith("error") and r2["yaml"].startswith("error")):
                ctx.violation("dangerous-document-accepted-without-libyaml", "without PyYAML's C extension, a document using a %s tag at %s was not rejected: %r -> %r" % (d["bad"], d["pos"], d["text"], r2), d)
            if r2.get("unimported_loaded"):
                ctx.violation("module-imported", "loading imported %r, named by the document: %r" % (r2["unimported_loaded"], d["text"]), d)
            m = model.get(i)
            if m is not None and "driver_error" not in m:
                mv = "error" if m["result"] == "error" else "ok"
                iv = "error" if impl_err else ("ok" if impl_ok else "mixed:%r" % r)
                # the model decides rejection by tag; a document it accepts may still fail in
                # the implementation for unrelated reasons (unhashable key, constructor arguments)
                if (mv == "error" and iv != "error") or (mv == "ok" and d["bad"] is not None):
                    ctx.disagree("documents", d, iv, mv)
                ctx.tally("model:%s/impl:%s" % (mv, iv.split(":")[0]))
        if fired:
            ctx.violation("canary-fired", "side-effect canaries fired while loading: %r" % sorted(set(fired)), {"fired": sorted(set(fired))})
        ctx.notes["canaries_fired"] = sorted(set(fired))
    finally:
        import shutil
        shutil.rmtree(tmp, ignore_errors=True)


def run_child(tmp, cases, env):
    out = os.path.join(tmp, "out.json")
    p = subprocess.run([sys.executable, os.path.join(tmp, "child.py"), os.path.join(tmp, "cases.json"), out],
                       env=env, capture_output=True, text=True, timeout=1200)
    if not os.path.exists(out):
        raise RuntimeError("C18 child failed: %s" % p.stderr[-2000:])
    data = json.load(open(out))
    os.unlink(out)
    return data["results"], data["table"]


def replay(payload):
    case = payload.get("case") or payload["disagreements"][0]["case"]
    print(json.dumps(case, indent=1))
    return 0

"""C05 — A YAML pipeline section builds the chain it describes."""
import copy
import json
import os
import tempfile

from .. import corr
from ..synth import Synth

STREAMS = ["yaml"]
REGENERATE_SRC = True
RULE = ("YAML documents with a pipeline of 1..8 elements, every element one of: !Tag with mapping / sequence / no "
        "arguments (lazy and eager tag settings), legacy __type__ mapping with keyword items; argument values = "
        "scalars, nested lists and mappings; a constructor failing at a random position in 20% of the documents with one of ten exception types (TypeError, "
        "KeyError, ... included); legacy elements may nest further __type__ mappings in their arguments; 15% of the elements are falsy objects (container-like, __len__ == 0); loaded "
        "in 30% one argument object is shared by up to three elements through a YAML anchor / alias (a mapping, or an object that owns a lock and cannot be copied) and must reach them as that very object; loaded through cobald.daemon.core.config.load from a temporary .yaml file; non-trivial = at least 3 elements of at "
        "least 2 syntactic forms; distinct = distinct YAML text")
ASSUMPTIONS = ["PyYAML's mapping of nodes to construct_mapping / construct_sequence results (modelled as keywords / positionals)",
               "legacy elements carry keyword items only (an __args__ entry collides with target= and is outside the statement)"]
TRUSTED = ["PyYAML 6 scanner/parser/composer", "the C04 model of Partial (>>) which this model builds on"]

MODULE = '''
from cobald.interfaces import Controller, PoolDecorator, Pool
import copy
import threading
LOG = []
FAIL = {}
HELPER_LOG = []
TOKENS = []

class Token:
    """an argument object whose identity matters (a shared connection, a credential store): it owns a lock"""
    def __init__(self):
        self.lock = threading.Lock()
        TOKENS.append(self)

def helper(*args, **kwargs):
    """a factory nested inside the arguments of a legacy element"""
    HELPER_LOG.append((args, dict(kwargs)))
    out = {"$helper": dict(kwargs)}
    if args:
        out["$args"] = list(args)
    return out

class _Rec:
    def _record(self, cid, args, kwargs):
        if cid in FAIL:
            raise FAIL[cid]("constructor %d fails" % cid)
        self._raw = (list(args), dict(kwargs))       # the very objects that were handed over
        keep = lambda v: v if isinstance(v, Token) else copy.deepcopy(v)
        self._cid, self._args, self._kwargs = cid, [keep(a) for a in args], {k: keep(v) for k, v in kwargs.items()}
        LOG.append(self)

def _mk(cid, base):
    if base is Pool:
        class C(base, _Rec):
            supply = demand = utilisation = allocation = 0
            def __init__(self, *args, **kwargs):
                self._record(cid, args, kwargs)
    else:
        class C(base, _Rec):
            supply = demand = utilisation = allocation = 0
            def __init__(self, target, *args, **kwargs):
                self.target = target
                self._record(cid, args, kwargs)
    C.__name__ = C.__qualname__ = "E%d" % cid
    return C

E0 = _mk(0, Controller)
for _i in range(1, 8):
    globals()["E%d" % _i] = _mk(_i, PoolDecorator)
P8 = _mk(8, Pool)

def _falsy(cls):
    """same element, but the object is falsy (container-like, empty)"""
    class F(cls):
        def __len__(self):
            return 0
    F.__name__ = F.__qualname__ = cls.__name__ + "F"
    return F
for _i in range(0, 8):
    globals()["E%dF" % _i] = _falsy(globals()["E%d" % _i])
P8F = _falsy(P8)
'''

CTX = {}


def setup(sy):
    import importlib
    from cobald.daemon.core.config import COBalDLoader, yaml_constructor
    from cobald.daemon.plugins import yaml_tag
    path = os.path.join(sy.dir, "vh_c05mod.py")
    open(path, "w").write(MODULE)
    importlib.invalidate_caches()
    mod = importlib.import_module("vh_c05mod")
    CTX["mod"] = mod
    for f in ("", "F"):
        for i in range(0, 8):
            cls = getattr(mod, "E%d%s" % (i, f))
            COBalDLoader.add_constructor("!VhE%d%sLazy" % (i, f), yaml_constructor(cls.s, eager=False))
            COBalDLoader.add_constructor("!VhE%d%sEager" % (i, f), yaml_constructor(cls.s, eager=True))
        P8 = getattr(mod, "P8" + f)
        COBalDLoader.add_constructor("!VhP8%sLazy" % f, yaml_constructor(P8.s, eager=False))
        COBalDLoader.add_constructor("!VhP8%sEager" % f, yaml_constructor(P8.s, eager=True))
        COBalDLoader.add_constructor("!VhP8%sRaw" % f, yaml_constructor(P8, eager=True))
    COBalDLoader.add_constructor("!VhToken", lambda loader, node: mod.Token())


def gen_value(rng, depth=2):
    r = rng.random()
    if depth <= 0 or r < 0.55:
        return rng.choice([1, 0, -3, 2.5, True, False, None, "s", "a b", "x: y", ""])
    if r < 0.8:
        return [gen_value(rng, depth - 1) for _ in range(rng.randint(0, 3))]
    return {rng.choice(["p", "q", "r"]): gen_value(rng, depth - 1) for _ in range(rng.randint(0, 2))}


FAIL_EXC = ["ValueError", "TypeError", "KeyError", "AssertionError", "RuntimeError", "LookupError", "AttributeError",
            "IndexError", "OSError", "NotImplementedError", "StopIteration", "StopIteration", "StopAsyncIteration"]


SHARED = {"token": "<Token>", "mapping": {"p": 1, "q": [2]}}


def cfg_value(v):
    """configured value -> what the constructor is expected to report"""
    if isinstance(v, dict) and "$shared" in v:
        return SHARED[v["$shared"]]
    return v


def yaml_value(v):
    """configured value -> what is written into the document"""
    if isinstance(v, dict) and "$helper" in v:
        return {"__type__": "vh_c05mod.helper", **v["$helper"]}
    if isinstance(v, dict):
        return {k: yaml_value(x) for k, x in v.items()}
    if isinstance(v, list):
        return [yaml_value(x) for x in v]
    return v


def gen_case(rng):
    n = rng.randint(1, 8)
    elems = []
    for i in range(n):
        last = i == n - 1
        cid = 8 if last else i
        form = rng.choice(["map", "seq", "bare", "legacy"])
        if last:
            form = rng.choice(["map", "seq", "bare", "legacy", "raw"])
        e = {"ctor": cid, "form": form, "eager": rng.random() < 0.5, "args": [], "kwargs": [], "falsy": rng.random() < 0.15}
        if form in ("map", "legacy"):
            for k in rng.sample(["interval", "rate", "name", "opts", "x"], rng.randint(0 if form == "legacy" else 1, 3)):
                e["kwargs"].append([k, gen_value(rng)])
        elif form in ("seq", "raw"):
            e["args"] = [gen_value(rng) for _ in range(rng.randint(1, 3))]
        elems.append(e)
    fail = [rng.choice(elems)["ctor"]] if rng.random() < 0.2 else []
    # legacy elements may hold further __type__ mappings inside their arguments
    for e in elems:
        if e["form"] == "legacy" and rng.random() < 0.4:
            e["kwargs"].append([rng.choice(["aux", "helper"]), {"$helper": {k: rng.choice([1, "s", None]) for k in rng.sample(["p", "q"], rng.randint(0, 2))}}])
    # one argument object shared by several elements through a YAML anchor / alias: every element is
    # constructed with that very object (a plain mapping, or an object that cannot be copied at all)
    holders = [e for e in elems if e["form"] in ("map", "legacy")]
    if holders and rng.random() < 0.3:
        kind = rng.choice(["token", "mapping"])
        if kind == "mapping":
            # (the content of a __type__ element is translated, which rebuilds its containers: only objects
            # keep their identity there)
            holders = [e for e in holders if e["form"] == "map"]
        for e in (rng.sample(holders, rng.randint(1, min(3, len(holders)))) if holders else []):
            e["kwargs"].append(["shared", {"$shared": kind}])
    # a whole legacy element written once and repeated by alias (`- &e {__type__: ...}` ... `- *e`): the same
    # mapping object stands at two places of the pipeline, and each place gets an object of its own
    legacy = [i for i, e in enumerate(elems[:-1]) if e["form"] == "legacy"]
    if legacy and rng.random() < 0.2:
        j = rng.choice(legacy)
        k = rng.randint(j + 1, len(elems) - 1)
        elems[j]["anchor"] = "el%d" % j
        elems.insert(k, {**copy.deepcopy(elems[j]), "alias_of": "el%d" % j})
        del elems[k]["anchor"]
    return {"elems": elems, "fails": fail, "fail_exc": rng.choice(FAIL_EXC)}


def to_yaml(case):
    lines = ["pipeline:"]
    anchored = [False]

    def dumps(v):
        if isinstance(v, dict) and "$shared" in v:
            if anchored[0]:
                return "*sh"
            anchored[0] = True
            return "&sh !VhToken {}" if v["$shared"] == "token" else "&sh " + json.dumps(SHARED["mapping"])
        return json.dumps(v)
    for e in case["elems"]:
        name = ("P8" if e["ctor"] == 8 else "E%d" % e["ctor"]) + ("F" if e.get("falsy") else "")
        tag = "!Vh%s%s" % (name, "Raw" if e["form"] == "raw" else ("Eager" if e["eager"] else "Lazy"))
        if e["form"] == "bare":
            lines.append("  - %s" % tag)
        elif e["form"] in ("seq", "raw"):
            lines.append("  - %s %s" % (tag, json.dumps(e["args"])))
        elif e["form"] == "map":
            lines.append("  - %s" % tag)
            for k, v in e["kwargs"]:
                lines.append("    %s: %s" % (k, dumps(v)))
        elif e.get("alias_of"):
            lines.append("  - *%s" % e["alias_of"])
        else:
            if e.get("anchor"):
                lines.append("  - &%s" % e["anchor"])
                lines.append("    __type__: vh_c05mod.%s" % name)
            else:
                lines.append("  - __type__: vh_c05mod.%s" % name)
            for k, v in e["kwargs"]:
                lines.append("    %s: %s" % (k, dumps(yaml_value(v))))
    return "\n".join(lines) + "\n"


def impl(case):
    from cobald.daemon.core.config import load
    mod = CTX["mod"]
    del mod.LOG[:]
    mod.FAIL.clear()
    import builtins
    mod.FAIL.update({c: getattr(builtins, case.get("fail_exc", "ValueError")) for c in case["fails"]})
    fd, path = tempfile.mkstemp(suffix=".yaml", dir=CTX["dir"])
    with os.fdopen(fd, "w") as f:
        f.write(to_yaml(case))
    try:
        try:
            with load(path) as cfg:
                content = next(c for p, c in cfg.items() if p.section == "pipeline")
        except Exception as e:
            return {"objs": None, "log": [o._cid for o in mod.LOG], "error": type(e).__name__}
    finally:
        os.unlink(path)
    objs = content
    if not isinstance(objs, list):
        return {"objs": "not-a-list", "log": [o._cid for o in mod.LOG]}
    links = []
    for i, o in enumerate(objs):
        nxt = objs[i + 1] if i + 1 < len(objs) else None
        links.append((getattr(o, "target", None) is nxt) if nxt is not None else not hasattr(o, "target") or o.target is None)

    def plain(v):
        # anything that is not configuration data (e.g. a pool object smuggled into a nested factory) by type name
        if isinstance(v, dict):
            return {k: plain(x) for k, x in v.items()}
        if isinstance(v, (list, tuple)):
            return [plain(x) for x in v]
        if v is None or isinstance(v, (bool, int, float, str)):
            return v
        return "<%s>" % type(v).__name__

    def canon(o):
        return {"ctor": o._cid, "args": plain(o._args), "kwargs": sorted(([k, plain(v)] for k, v in o._kwargs.items()), key=lambda kv: kv[0]),
                "target": canon(o.target) if getattr(o, "target", None) is not None else None}
    shared = [o._raw[1]["shared"] for o in objs if "shared" in o._raw[1]]
    return {"objs": [canon(o) for o in objs], "log": [o._cid for o in mod.LOG], "links": links,
            "once": len({id(o) for o in mod.LOG}) == len(mod.LOG),
            "shared_same": all(x is shared[0] for x in shared) and (not shared or not isinstance(shared[0], mod.Token) or shared[0] is mod.TOKENS[-1])}


def argmap(case):
    """number the configured argument values: the model treats them as opaque ids"""
    ids, elems = {}, []
    n = [0]
    def aid(v):
        n[0] += 1
        ids[n[0]] = v
        return {"id": n[0], "pool": False}
    for e in case["elems"]:
        elems.append({"ctor": e["ctor"], "leaf": e["ctor"] == 8 and e["form"] not in ("legacy", "raw"),
                      "legacy": e["form"] in ("legacy", "raw"),
                      "args": [aid(v) for v in e["args"]], "kwargs": [[k, aid(v)] for k, v in e["kwargs"]]})
    return elems, ids


def line(case, o):
    elems, _ = argmap(case)
    return {"elems": elems, "fails": case["fails"]}


def expect(case, o, m):
    if "driver_error" in m:
        return o, m
    _, ids = argmap(case)
    def conv(x):
        if x is None:
            return None
        return {"ctor": x["ctor"], "args": [ids[a] for a in x["args"]], "kwargs": sorted(([k, cfg_value(ids[a])] for k, a in x["kwargs"]), key=lambda kv: kv[0]),
                "target": conv(x["target"])}
    mo = None if m["objs"] is None else [conv(x) for x in m["objs"]]
    return {"objs": o["objs"], "log": o["log"]}, {"objs": mo, "log": m["log"]}


def oracle(case, o):
    """the pipeline built in Python by hand from the configured elements"""
    out = []
    elems = case["elems"]
    fails = set(case["fails"])
    exp_log = []
    failed = False
    for e in reversed(elems):
        if e["ctor"] in fails:
            failed = True
            break
        exp_log.append(e["ctor"])
    if failed:
        if o["objs"] is not None:
            out.append(("partial-pipeline", "a constructor failed but loading returned %r" % (o["objs"],)))
        return out
    if o["objs"] is None:
        return [("load-error:%s" % o.get("error"), "loading a valid pipeline raised %s" % o.get("error"))]
    if o["objs"] == "not-a-list" or len(o["objs"]) != len(elems):
        return [("wrong-length", "pipeline has %r elements, configured %d" % (o["objs"], len(elems)))]
    if o["log"] != exp_log or not o["once"]:
        out.append(("construction-order", "constructed %r, expected each once, last to first: %r" % (o["log"], exp_log)))
    if not all(o["links"]):
        out.append(("target-links", "some element's target is not the very next object: %r" % (o["links"],)))
    if not o.get("shared_same", True):
        out.append(("argument-identity", "an argument object shared by several elements (anchor / alias) reached them as different objects, or as a copy"))
    for e, got in zip(elems, o["objs"]):
        if got["ctor"] != e["ctor"] or got["args"] != e["args"] or got["kwargs"] != sorted(([k, cfg_value(v)] for k, v in e["kwargs"]), key=lambda kv: kv[0]):
            out.append(("arguments", "element %d constructed with %r / %r, configured %r / %r" % (e["ctor"], got["args"], got["kwargs"], e["args"], e["kwargs"])))
            break
    return out


def nontrivial(case, o):
    return len(case["elems"]) >= 3 and len({e["form"] for e in case["elems"]}) >= 2


def shrinks(case):
    es = case["elems"]
    for i in range(len(es) - 1):
        if es[i].get("anchor") and any(x.get("alias_of") == es[i]["anchor"] for x in es):
            continue      # (an alias needs its anchor)
        yield {**case, "elems": es[:i] + es[i + 1:]}
    for i, e in enumerate(es):
        if e.get("anchor") or e.get("alias_of"):
            continue
        if e["args"] or e["kwargs"]:
            e2 = {**e, "args": e["args"][:-1], "kwargs": e["kwargs"][:-1]}
            if e2["form"] in ("seq", "raw") and not e2["args"]:
                continue
            if e2["form"] == "map" and not e2["kwargs"]:
                continue
            yield {**case, "elems": es[:i] + [e2] + es[i + 1:]}


def run(ctx):
    with Synth() as sy:
        setup(sy)
        CTX["dir"] = sy.dir
        rng = ctx.rng("yaml")
        cases = [gen_case(rng) for _ in range(ctx.n(1200, 12000))]
        corr.run_stream(ctx, "yaml", cases, impl, line, oracle, nontrivial, shrinks, expect)
        for c in cases:
            for e in c["elems"]:
                ctx.tally("form:" + e["form"])
        ctx.samples.append({"yaml": to_yaml(cases[0])})


def replay(payload):
    with Synth() as sy:
        setup(sy)
        CTX["dir"] = sy.dir
        case = payload.get("case") or payload["disagreements"][0]["case"]
        print(to_yaml(case))
        o = impl(case)
        v = oracle(case, o)
        print(json.dumps({"impl": o, "oracle": v}, indent=1, default=str))
        return 1 if v else 0

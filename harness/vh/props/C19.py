"""C19 — Nested __type__ mappings translate bottom-up with exact error locations."""
import copy
import json

from .. import corr
from ..synth import Synth, NAMES, FAILS, UNRESOLVABLE, PKG

STREAMS = ["trees", "pipeline-elements"]
REGENERATE_SRC = True
RULE = ("random trees of mappings, lists and scalars (depth <= 6, fan-out <= 5; thorough deeper) with __type__ nodes "
        "at random positions, factories = function, submodule function, class, nested attribute, raising factory, "
        "non-callable attribute, module objects, unresolvable names (no module / no attribute / nested), non-string "
        "__type__; keys containing dots and brackets; non-trivial = at least two __type__ nodes; distinct = distinct "
        "canonical tree JSON; lists repeat equal siblings; in a third of the cases structurally equal sub-trees are one "
        "shared Python object (alias), in a third the same hierarchy object is translated twice; the input is "
        "compared with a pristine copy afterwards")
ASSUMPTIONS = ["__import__/getattr inside load_name is the parameter `resolve` of the model; the correspondence exercises the real one on a synthetic package",
               "__args__ is a list (a non-list __args__ is outside the statement)"]
TRUSTED = ["CPython dict insertion order, importlib"]

KEYS = ["a", "b", "k", "x.y", "z[0]", "interval", "n"]
CTX = {}


def gen_tree(rng, depth, allow_type=True):
    r = rng.random()
    if depth <= 0 or r < 0.25:
        return {"s": rng.choice(["v", "w", "", "t.u", "pipeline", "the pipeline of site A", "__type__"])} if rng.random() < 0.5 else {"n": rng.randint(0, 9)}
    if r < 0.5:
        items = [gen_tree(rng, depth - 1) for _ in range(rng.randint(0, 4))]
        # equal siblings: the same definition repeated (an index must still name the position)
        while items and rng.random() < 0.3:
            items.insert(rng.randint(0, len(items)), copy.deepcopy(rng.choice(items)))
        return {"l": items}
    keys = rng.sample(KEYS, rng.randint(0, 4))
    m = [[k, gen_tree(rng, depth - 1)] for k in keys]
    if allow_type and rng.random() < 0.6:
        q = rng.random()
        if q < 0.78:
            t = {"s": rng.choice([n for n, f in NAMES.items() if f not in FAILS])}
        elif q < 0.86:
            t = {"s": rng.choice([n for n, f in NAMES.items() if f in FAILS])}
        elif q < 0.95:
            t = {"s": rng.choice(UNRESOLVABLE)}
        else:
            t = {"n": 5}
        entries = [["__type__", t]]
        if rng.random() < 0.5:
            entries.append(["__args__", {"l": [gen_tree(rng, depth - 1) for _ in range(rng.randint(0, 3))]}])
        m = m + entries
        rng.shuffle(m)
    return {"m": m}


def to_py(c, memo=None):
    """memo given: structurally equal sub-trees become one shared Python object (what a YAML
    anchor/alias or a Python configuration reusing a dict produces)"""
    if "s" in c:
        return c["s"]
    if "n" in c:
        return c["n"]
    key = json.dumps(c, sort_keys=True) if memo is not None else None
    if key is not None and key in memo:
        return memo[key]
    if "l" in c:
        v = [to_py(x, memo) for x in c["l"]]
    else:
        v = {k: to_py(x, memo) for k, x in c["m"]}
    if key is not None:
        memo[key] = v
    return v


def canon(v, Obj):
    if isinstance(v, Obj):
        return {"obj": v.idx}
    if isinstance(v, str):
        return {"s": v}
    if isinstance(v, int):
        return {"n": v}
    if isinstance(v, (list, tuple)):
        return {"l": [canon(x, Obj) for x in v]}
    if isinstance(v, dict):
        return {"m": [[k, canon(x, Obj)] for k, x in v.items()]}
    return {"?": repr(v)}


def impl_pipeline(case):
    """the same translation as it runs inside a pipeline section (PipelineTranslator): every element is a
    __type__ mapping; an element receives its successor as `target`, nothing nested inside it does"""
    from cobald.daemon.config.mapping import ConfigurationError
    from cobald.daemon.core.config import PipelineTranslator
    mod = CTX["mod"]
    del mod.LOG[:]
    from cobald.interfaces import Partial
    by_fid = {0: mod.f0, 3: mod.ns.inner.g, 8: mod.nosig}

    def elem(e):
        # an element that the YAML layer has already turned into a template (`!Tag` / `.s()`)
        return Partial(by_fid[e["partial"]], __leaf__=False) if "partial" in e else to_py(e)
    structure = {"pipeline": [elem(e) for e in case["elems"]]}
    try:
        res = PipelineTranslator().translate_hierarchy(structure)
        out = {"ok": canon(res, mod.Obj)}
    except ConfigurationError as e:
        out = {"err": e.where}
    except Exception as e:
        out = {"raised": type(e).__name__}
    out["log"] = [[None, fid, [canon(a, mod.Obj) for a in args], [[k, canon(v, mod.Obj)] for k, v in kw.items()]]
                  for fid, args, kw in mod.LOG]
    return out


def oracle_pipeline(case, o):
    log = []
    try:
        prev, items = None, []
        for i in reversed(range(len(case["elems"]))):
            e = case["elems"][i]
            if "partial" in e:
                # `template >> successor`: the constructor is called with the successor as its target
                log.append(["[%d]" % i, e["partial"], [prev], []])
                prev = {"obj": len(log) - 1}
            else:
                extra = [] if prev is None else [["target", prev]]
                prev = ref_eval(e, "[%d]" % i, log, extra)
            items.append(prev)
        exp = {"ok": {"l": list(reversed(items))}}
    except Fail as f:
        exp = {"err": f.path}
    out = []
    got = {k: v for k, v in o.items() if k not in ("log", "extra")}
    if got != exp:
        out.append(("pipeline-element-translation", "translated %r, independent evaluation gives %r" % (got, exp)))
    elif [c[1:] for c in o["log"]] != [c[1:] for c in log]:
        out.append(("pipeline-element-calls", "factory calls %r, expected %r" % ([c[1:] for c in o["log"]], [c[1:] for c in log])))
    return out


def gen_pipeline(rng):
    ok = [n for n, f in NAMES.items() if f not in FAILS]
    elems = []
    for _ in range(rng.randint(1, 4)):
        m = [[k, gen_tree(rng, rng.randint(0, 3))] for k in rng.sample(KEYS, rng.randint(0, 3))]
        m.append(["__type__", {"s": rng.choice(ok)}])
        rng.shuffle(m)
        elems.append({"m": m})
    # already constructed templates between the encoded elements (never last: the last one is the pool)
    for i in range(len(elems) - 1):
        if rng.random() < 0.35:
            elems[i] = {"partial": rng.choice([0, 3])}
    return {"mode": "pipeline", "elems": elems}


def impl(case):
    if case.get("mode") == "pipeline":
        return impl_pipeline(case)
    from cobald.daemon.config.mapping import Translator, ConfigurationError
    mod = CTX["mod"]
    del mod.LOG[:]
    structure = to_py(case["cfg"], {} if case.get("shared") else None)

    def once():
        del mod.LOG[:]
        try:
            res = Translator().translate_hierarchy(structure)
            out = {"ok": canon(res, mod.Obj)}
        except ConfigurationError as e:
            out = {"err": e.where}
        except Exception as e:
            out = {"raised": type(e).__name__}
        out["log"] = [[None, fid, [canon(a, mod.Obj) for a in args], [[k, canon(v, mod.Obj)] for k, v in kw.items()]]
                      for fid, args, kw in mod.LOG]
        return out

    out = once()
    extra = {}
    if canon(structure, mod.Obj) != canon(to_py(case["cfg"]), mod.Obj):
        extra["input_mutated"] = True
    if case.get("twice"):
        # the same hierarchy object translated a second time
        again = once()
        if renumber(again) != renumber(out):
            extra["second"] = again
    if extra:
        out["extra"] = extra
    return out


def renumber(out):
    """object identities by order of first appearance (two translations allot different numbers)"""
    ids = {}

    def walk(v):
        if isinstance(v, dict):
            if "obj" in v and len(v) == 1:
                return {"obj": ids.setdefault(v["obj"], len(ids))}
            return {k: walk(x) for k, x in v.items()}
        if isinstance(v, list):
            return [walk(x) for x in v]
        return v
    return walk({"log": out.get("log"), "res": {k: v for k, v in out.items() if k not in ("log", "extra")}})


def line(case, o):
    if case.get("mode") == "pipeline":
        return None        # judged by the independent evaluation only (the pipeline walk itself is C05's model)
    return {"cfg": case["cfg"], "names": [[n, f] for n, f in NAMES.items()], "fails": FAILS}


def expect(case, o, m):
    if "driver_error" in m:
        return o, m
    strip = lambda log: [c[1:] for c in log]
    a = {k: v for k, v in o.items() if k not in ("log", "extra")}
    b = {k: v for k, v in m.items() if k != "log"}
    return (a, strip(o["log"])), (b, strip(m["log"]))


# ---- independent recursive evaluation (the oracle), written from the property text

class Fail(Exception):
    def __init__(self, path):
        self.path = path


def ref_eval(c, path, log, extra=()):
    if "s" in c or "n" in c:
        return c
    if "l" in c:
        out = [None] * len(c["l"])
        for i in reversed(range(len(c["l"]))):
            out[i] = ref_eval(c["l"][i], "%s[%s]" % (path, i), log)
        return {"l": out}
    items = [[k, ref_eval(v, "%s.%s" % (path, k), log)] for k, v in c["m"]] + [list(x) for x in extra]
    d = dict((k, v) for k, v in items)
    if "__type__" not in d:
        return {"m": items}
    t = d["__type__"]
    if "s" not in t or t["s"] not in NAMES:
        raise Fail(path)
    fid = NAMES[t["s"]]
    args = d.get("__args__", {"l": []})["l"]
    kwargs = [[k, v] for k, v in items if k not in ("__type__", "__args__")]
    if fid in FAILS:
        raise Fail(path)
    log.append([path, fid, args, kwargs])
    return {"obj": len(log) - 1}


def count_types(c):
    if "l" in c:
        return sum(count_types(x) for x in c["l"])
    if "m" in c:
        return sum(count_types(v) for _, v in c["m"]) + (1 if any(k == "__type__" for k, _ in c["m"]) else 0)
    return 0


def oracle(case, o):
    if case.get("mode") == "pipeline":
        return oracle_pipeline(case, o)
    log = []
    try:
        exp = {"ok": ref_eval(case["cfg"], "", log)}
    except Fail as f:
        exp = {"err": f.path}
    out = []
    ex = o.get("extra", {})
    if ex.get("input_mutated"):
        out.append(("input-mutated", "translating changed the configuration it was given (plain data must be left unchanged)"))
    if "second" in ex:
        out.append(("second-translation-differs", "translating the same hierarchy again gives %r" % (ex["second"],)))
    got = {k: v for k, v in o.items() if k not in ("log", "extra")}
    if got != exp:
        kind = "error-location" if "err" in exp or "err" in got else "result"
        out.append((kind, "translated %r, independent evaluation gives %r" % (got, exp)))
    if [c[1:] for c in o["log"]] != [c[1:] for c in log]:
        out.append(("call-log", "factory calls %r, expected %r" % ([c[1] for c in o["log"]], [c[1] for c in log])))
    return out


def nontrivial(case, o):
    if case.get("mode") == "pipeline":
        return sum(count_types(e) for e in case["elems"] if "partial" not in e) >= 2
    return count_types(case["cfg"]) >= 2


def shrinks(case):
    if case.get("mode") == "pipeline":
        return
    def subs(c):
        if "l" in c:
            for i in range(len(c["l"])):
                yield {"l": c["l"][:i] + c["l"][i + 1:]}
                for s in subs(c["l"][i]):
                    yield {"l": c["l"][:i] + [s] + c["l"][i + 1:]}
        elif "m" in c:
            for i in range(len(c["m"])):
                yield {"m": c["m"][:i] + c["m"][i + 1:]}
                for s in subs(c["m"][i][1]):
                    yield {"m": c["m"][:i] + [[c["m"][i][0], s]] + c["m"][i + 1:]}
    for s in subs(case["cfg"]):
        yield dict(case, cfg=s)


def run(ctx):
    with Synth() as sy:
        CTX["mod"] = sy.mod
        rng = ctx.rng("trees")
        cases = [{"cfg": gen_tree(rng, rng.randint(1, ctx.n(6, 9))), "shared": rng.random() < 0.35, "twice": rng.random() < 0.35}
                 for _ in range(ctx.n(3000, 40000))]
        corr.run_stream(ctx, "trees", cases, impl, line, oracle, nontrivial, shrinks, expect)
        for c in cases:
            ctx.tally("types=%d" % min(count_types(c["cfg"]), 6))
        rng = ctx.rng("pipeline")
        cases = [gen_pipeline(rng) for _ in range(ctx.n(800, 8000))]
        corr.run_stream(ctx, "pipeline-elements", cases, impl, line, oracle, nontrivial, None, expect)


def replay(payload):
    with Synth() as sy:
        CTX["mod"] = sy.mod
        case = payload.get("case") or payload["disagreements"][0]["case"]
        o = impl(case)
        v = oracle(case, o)
        print(json.dumps({"impl": o, "oracle": v}, indent=1))
        return 1 if v else 0

"""C07 — Composite pools conserve demand and aggregate their children faithfully."""
import json
import random
from fractions import Fraction as F

from .. import corr
from ..num import wire, unwire, canon
from ..pools import RecPool

STREAMS = ["ops-exact"]
REGENERATE_SRC = True
RULE = ("uniform / weighted(supply|utilisation|allocation) composites over 0..8 (thorough 0..40) children "
        "with exact Fraction attributes (all-zero weights, one non-zero weight, equal weights, magnitudes "
        "10^±9), op histories of demand writes, child state changes, children added/removed; an extra "
        "float stream is judged by the oracle only, with relative tolerance 1e-9; next to every composite a sibling of the same class is created empty and filled in place - the composite must hold exactly the pools it was given; non-trivial = at least one "
        "demand write to a composite with >= 2 children; distinct = distinct canonical case JSON")
ASSUMPTIONS = ["floating-point rounding is not modelled: exact streams use Fractions; the float stream is checked up to 1e-9 relative",
               "child weights (supply, utilisation, allocation) are non-negative"]
TRUSTED = ["CPython Fraction arithmetic, sum(), ZeroDivisionError on division by zero"]

ATTRS = ["supply", "utilisation", "allocation"]


def gen_child(rng, mode):
    def val(big=False):
        r = rng.random()
        if mode == "zero" and r < 0.9:
            return F(0)
        if r < 0.2:
            return F(0)
        if r < 0.3 and big:
            return F(rng.randint(1, 9)) * F(10) ** rng.choice([-9, 9])
        return F(rng.randint(0, 40), rng.choice([1, 1, 2, 3, 4, 10]))
    return {"supply": wire(val(True)), "util": wire(val()), "alloc": wire(val()), "demand": wire(val(True))}


def gen_case(rng, maxn, nops):
    kind = rng.choice(["uniform", "weighted", "weighted", "weighted"])
    weight = rng.choice(ATTRS)
    mode = rng.choice(["any", "any", "any", "zero", "equal", "single"])
    n = rng.choice([0, 1, 2, 3]) if rng.random() < 0.5 else rng.randint(0, maxn)
    children = [gen_child(rng, mode) for _ in range(n)]
    wk = {"supply": "supply", "utilisation": "util", "allocation": "alloc"}[weight]
    if mode == "equal" and children:
        for c in children:
            c[wk] = children[0][wk]
    if mode == "single" and children:
        for c in children[1:]:
            c[wk] = "0/1"
    ops = []
    cnt = n
    for _ in range(nops):
        r = rng.random()
        if r < 0.45:
            D = F(rng.randint(0, 200), rng.choice([1, 1, 2, 3, 7]))
            if rng.random() < 0.1:
                D = F(rng.randint(1, 9)) * F(10) ** rng.choice([-9, 9])
            ops.append(["D", wire(D)])
        elif r < 0.7 and cnt:
            v = F(0) if rng.random() < 0.3 else F(rng.randint(0, 40), rng.choice([1, 2, 3]))
            ops.append(["c", rng.randrange(cnt), rng.choice(ATTRS), wire(v)])
        elif r < 0.78 and cnt:
            ops.append(["cd", rng.randrange(cnt), wire(F(rng.randint(0, 40), rng.choice([1, 2])))])
        elif r < 0.9 and cnt < maxn + 4:
            ops.append(["add", gen_child(rng, mode)])
            cnt += 1
        elif cnt:
            ops.append(["rm", rng.randrange(cnt)])
            cnt -= 1
    return {"kind": kind, "weight": weight, "children": children, "ops": ops}


def mkpool(c, conv=lambda x: x):
    return RecPool(conv(unwire(c["supply"])), conv(unwire(c["demand"])), conv(unwire(c["util"])), conv(unwire(c["alloc"])))


def build(case, conv=lambda x: x):
    from cobald.composite.uniform import UniformComposite
    from cobald.composite.weighted import WeightedComposite
    pools = [mkpool(c, conv) for c in case["children"]]
    # a sibling composite of the same class that was created empty and filled in place: what it holds is
    # none of this composite's business
    sibling = UniformComposite() if case["kind"] == "uniform" else WeightedComposite(weight=case["weight"])
    sibling.children.append(RecPool(conv(F(7)), conv(F(7)), conv(F(1, 2)), conv(F(1, 2)), name="sibling's"))
    if case["kind"] == "uniform":
        return UniformComposite(*pools), pools
    return WeightedComposite(*pools, weight=case["weight"]), pools


def apply_op(comp, op, conv=lambda x: x):
    if op[0] == "D":
        comp.demand = conv(unwire(op[1]))
    elif op[0] == "c":
        setattr(comp.children[op[1]], op[2], conv(unwire(op[3])))
    elif op[0] == "cd":
        comp.children[op[1]]._demand = conv(unwire(op[2]))
    elif op[0] == "add":
        comp.children.append(mkpool(op[1], conv))
    elif op[0] == "rm":
        del comp.children[op[1]]


def snap(comp):
    return [canon(comp.demand), canon(comp.supply), canon(comp.utilisation), canon(comp.allocation),
            [canon(c.demand) for c in comp.children]]


def impl(case):
    comp, _ = build(case)
    obs = [snap(comp)]
    for op in case["ops"]:
        try:
            apply_op(comp, op)
            obs.append(snap(comp))
        except Exception as e:
            obs.append({"error": type(e).__name__})
            break
    return {"obs": obs}


def line(case, o):
    return case


def oracle_state(case, comp, last_D, just_wrote, tol=None):
    """clauses of C07 on the live composite; tol=None exact, else relative tolerance"""
    out = []
    ch = list(comp.children)
    n = len(ch)

    def eq(a, b):
        if tol is None:
            return a == b
        return abs(a - b) <= tol * max(1, abs(a), abs(b))

    def le(a, b):
        if tol is None:
            return a <= b
        return a <= b + tol * max(1, abs(a), abs(b))

    weighted = case["kind"] == "weighted"
    w = [getattr(c, case["weight"]) for c in ch] if weighted else [1] * n
    W = sum(w)
    if last_D is not None and not eq(comp.demand, last_D):
        out.append(("demand-readback", "composite reads back %s after %s was written" % (comp.demand, last_D)))
    if just_wrote and n >= 1:
        D = last_D
        sh = [c.demand for c in ch]
        if not eq(sum(sh), D):
            out.append(("shares-sum", "children's demands sum to %s, written %s" % (sum(sh), D)))
        for i in range(n):
            if not (le(0, sh[i]) and le(sh[i], D)):
                out.append(("share-bounds", "share %s outside [0, %s]" % (sh[i], D)))
                break
        if W == 0 or not weighted:
            if any(not eq(s, sh[0]) for s in sh):
                out.append(("share-uniform", "shares %s are not equal" % (sh,)))
        else:
            for i in range(n):
                if not eq(sh[i] * W, D * w[i]):
                    out.append(("share-proportional", "share %d is %s, expected %s" % (i, sh[i], D * w[i] / W)))
                    break
    if not eq(comp.supply, sum(c.supply for c in ch)):
        out.append(("supply-sum", "supply %s is not the sum of the children's" % (comp.supply,)))
    for name in ("utilisation", "allocation"):
        v = getattr(comp, name)
        vals = [getattr(c, name) for c in ch]
        if n == 0:
            ok = eq(v, 1)
        elif weighted and W == 0:
            ok = eq(v, 0) if comp.supply > 0 else eq(v, 1)
        else:
            ok = le(min(vals), v) and le(v, max(vals))
        if not ok:
            out.append(("fitness-range:%s" % name, "%s = %s with children %s (n=%d, W=%s, supply=%s)" % (name, v, vals, n, W, comp.supply)))
    return out


def oracle(case, o, conv=lambda x: x, tol=None):
    comp, mine = build(case, conv)
    mine = list(mine)
    out = []
    last_D = None
    out += oracle_state(case, comp, None, False, tol)
    if [id(c) for c in comp.children] != [id(c) for c in mine]:
        return out + [("children-foreign", "a new composite given %d pools holds %d" % (len(mine), len(comp.children)))]
    for op in case["ops"]:
        try:
            apply_op(comp, op, conv)
        except Exception as e:
            out.append(("error:%s" % type(e).__name__, "op %s raised %s" % (op, type(e).__name__)))
            break
        # the composite's children are the pools it was given, in that order, and nothing else
        if op[0] == "add" and comp.children:
            mine.append(comp.children[-1])
        elif op[0] == "rm" and op[1] < len(mine):
            del mine[op[1]]
        if [id(c) for c in comp.children] != [id(c) for c in mine]:
            out.append(("children-foreign", "the composite holds %d pools (%s), it was given %d" % (
                len(comp.children), ", ".join(getattr(c, "name", "?") for c in comp.children if all(c is not m for m in mine)) or "other order", len(mine))))
            break
        if op[0] == "D":
            last_D = conv(unwire(op[1]))
        out += oracle_state(case, comp, last_D, op[0] == "D", tol)
    return out


def gen_extreme(rng):
    """float magnitudes far from 1: every share D * w_i / W is representable (so is D * w_i), but
    intermediate quantities such as D / W or 1 / W need not be"""
    n = rng.randint(2, 5)
    kind = rng.choice(["weighted", "weighted", "uniform"])
    attr = rng.choice(["supply", "utilisation", "allocation"])
    # exponent of the weights, exponent of the demand
    # (D * w_i stays a normal float with room for the mantissas: -300 <= E + e <= 305)
    e, E = rng.choice([(-10, 300), (-9, 299), (0, 305), (-3, 306), (170, -170), (160, -160), (150, -165), (-300, 0),
                       (0, 300), (0, -300), (100, 100), (-150, -150), (-200, 250), (140, -300)])
    if attr != "supply":
        e = min(e, 0)      # utilisation / allocation are ratios <= 1
    ws = [rng.choice([0, 1, 1, 2, 3, 5]) * 10.0 ** e * (1 if attr == "supply" else 0.1) for _ in range(n)]
    if attr != "supply":
        ws = [min(w, 1.0) for w in ws]
    D = rng.choice([1, 2, 3, 7]) * 10.0 ** E
    return {"kind": kind, "weight": attr, "ws": ws, "D": D}


def oracle_extreme(case):
    import math
    from cobald.composite.uniform import UniformComposite
    from cobald.composite.weighted import WeightedComposite
    pools = []
    for w in case["ws"]:
        p = RecPool(1.0, 0.0, 1.0, 1.0)
        setattr(p, "_" + case["weight"], w)
        pools.append(p)
    comp = UniformComposite(*pools) if case["kind"] == "uniform" else WeightedComposite(*pools, weight=case["weight"])
    D = case["D"]
    try:
        comp.demand = D
    except Exception as e:
        return [("extreme-error:%s" % type(e).__name__, "writing demand %r raised %s" % (D, type(e).__name__))]
    sh = [p.demand for p in pools]
    if any(not isinstance(x, (int, float)) or not math.isfinite(x) for x in sh):
        return [("extreme-share-not-finite", "demand %r over weights %r: shares %r" % (D, case["ws"], sh))]
    W = sum(F(w) for w in case["ws"])
    out = []
    for x, w in zip(sh, case["ws"]):
        exp = F(D) / len(sh) if (case["kind"] == "uniform" or W == 0) else F(D) * F(w) / W
        if not (0 <= x <= D * (1 + 1e-9)) or abs(F(x) - exp) > exp * F(1, 10 ** 9):
            out.append(("extreme-share", "demand %r over weights %r: share %r, expected %r" % (D, case["ws"], x, float(exp))))
            break
    if not out and abs(sum(F(x) for x in sh) - F(D)) > F(D) * F(1, 10 ** 9):
        out.append(("extreme-sum", "demand %r over weights %r: shares sum to %r" % (D, case["ws"], float(sum(F(x) for x in sh)))))
    if comp.demand != D:
        out.append(("extreme-readback", "reads back %r after %r" % (comp.demand, D)))
    return out


def nontrivial(case, o):
    n = len(case["children"])
    for op in case["ops"]:
        if op[0] == "add":
            n += 1
        elif op[0] == "rm":
            n -= 1
        elif op[0] == "D" and n >= 2:
            return True
    return False


def shrinks(case):
    ops = case["ops"]
    for i in range(len(ops)):
        cand = {**case, "ops": ops[:i] + ops[i + 1:]}
        if valid(cand):
            yield cand
    ch = case["children"]
    for i in range(len(ch)):
        cand = {**case, "children": ch[:i] + ch[i + 1:]}
        if valid(cand):
            yield cand


def valid(case):
    n = len(case["children"])
    for op in case["ops"]:
        if op[0] in ("c", "cd", "rm") and not (0 <= op[1] < n):
            return False
        if op[0] == "add":
            n += 1
        if op[0] == "rm":
            n -= 1
    return True


def run(ctx):
    rng = ctx.rng("ops")
    maxn = ctx.n(8, 40)
    cases = [gen_case(rng, maxn, rng.randint(1, 30)) for _ in range(ctx.n(2500, 30000))]
    corr.run_stream(ctx, "ops-exact", cases, impl, line, oracle, nontrivial, shrinks)
    # float stream: oracle only, with tolerance
    r2 = ctx.rng("float")
    nf = 0
    for _ in range(ctx.n(1500, 20000)):
        case = gen_case(r2, maxn, r2.randint(1, 12))
        salt = r2.randrange(1, 997)
        conv = lambda x, salt=salt: float(x) * (1 + ((x.numerator * 31 + x.denominator * salt) % 1009) * 1e-7)
        for key, what in oracle(case, None, conv, 1e-9):
            ctx.violation("float:" + key, what, case)
        nf += 1
        ctx.count("float-oracle", case, nontrivial(case, None))
    # tiny and huge magnitudes (floats only; the model is exact): oracle on the implementation
    r3 = ctx.rng("extreme")
    for _ in range(ctx.n(600, 6000)):
        case = gen_extreme(r3)
        for key, what in oracle_extreme(case):
            ctx.violation("float:" + key, what, case)
        ctx.count("float-extremes", case, True)
    for c in cases:
        ctx.tally("kind:%s" % (c["kind"] if c["kind"] == "uniform" else "weighted-" + c["weight"]))
        ctx.tally("n=%d" % min(len(c["children"]), 9))


def replay(payload):
    case = payload.get("case") or payload["disagreements"][0]["case"]
    o = impl(case)
    v = oracle(case, o)
    print(json.dumps({"impl": o, "oracle": v}, indent=1))
    return 1 if v else 0

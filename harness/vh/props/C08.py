"""C08 — Controllers move demand only in the documented direction and amount."""
import json
from fractions import Fraction as F

import trio
import trio.testing

from .. import corr, vclock
from ..num import wire, unwire, canon
from ..pools import RecPool

STREAMS = ["linear", "rel", "stepwise", "switch"]
REGENERATE_SRC = True
RULE = ("pool states on and around every threshold (t, t±1/k), controller parameters accepted and rejected by "
        "the constructors, rule / slave tables of 0..8 entries in random declaration order (duplicates and zero "
        "thresholds rejected), sequences of 1..25 regulation steps interleaved with pool state changes; Stepwise "
        "is driven through run() under trio's MockClock; DemandSwitch controllers arrive unbound, bound to the switch's pool, or bound to another pool that compares equal to it; non-trivial = accepted constructor and at least one step "
        "that changed demand or selected a non-default rule/controller; distinct = distinct canonical case JSON")
ASSUMPTIONS = ["exact arithmetic: parameters and pool states are Fractions/ints (IEEE rounding not modelled)",
               "supply is non-negative for Stepwise (a negative supply is not a pool state; the lookup then finds no rule)"]
TRUSTED = ["CPython sorted() on (number, object) tuples with distinct numbers", "trio MockClock for driving Stepwise.run"]

REJECT = (AssertionError, ValueError, TypeError)
FIELDS = ["supply", "demand", "utilisation", "allocation"]


def q(rng, lo, hi, dens=(1, 1, 2, 4, 3)):
    d = rng.choice(dens)
    return F(rng.randint(lo * d, hi * d), d)


def near(rng, anchors):
    a = rng.choice(anchors)
    # on the anchor, visibly off it, and a hair off it (closer than any float tolerance one might apply)
    return a + rng.choice([0, 0, F(1, 4), -F(1, 4), F(1, 100), -F(1, 100), 1, -1,
                           F(1, 10 ** 12), -F(1, 10 ** 12), F(1, 10 ** 15), -F(1, 10 ** 15)])


def gen_pool(rng):
    return {"supply": wire(q(rng, 0, 30)), "demand": wire(q(rng, -5, 40)),
            "util": wire(q(rng, 0, 1, (4, 10))), "alloc": wire(q(rng, 0, 1, (4, 10)))}


def gen_ctl(rng, typ=None, bad=0.06):
    typ = typ or rng.choice(["linear", "rel"])
    low = q(rng, 0, 1, (4, 10))
    high = max(low, q(rng, 0, 1, (4, 10))) if rng.random() > bad else low - F(1, 4)
    if rng.random() < 0.3:
        high = low
    if typ == "linear":
        rate = q(rng, 1, 8) if rng.random() > bad else rng.choice([F(0), F(-1)])
        return {"type": "linear", "low": wire(low), "high": wire(high), "rate": wire(rate)}
    ls = q(rng, 0, 3, (4,)) / 4 if rng.random() > bad else F(1)
    hs = 1 + q(rng, 1, 8, (4,)) / 4 if rng.random() > bad else F(1)
    return {"type": "rel", "low": wire(low), "high": wire(high), "low_scale": wire(ls), "high_scale": wire(hs)}


def gen_ops(rng, n, anchors_for, with_interval=True):
    ops = []
    for _ in range(n):
        if rng.random() < 0.5:
            ops.append(["step", wire(q(rng, 0, 5))] if with_interval else ["step"])
        else:
            f = rng.choice(FIELDS)
            ops.append(["set", f, wire(near(rng, anchors_for(f)))])
    ops.append(["step", wire(q(rng, 1, 5))] if with_interval else ["step"])
    return ops


def gen_case(rng, stream):
    pool = gen_pool(rng)
    n = rng.randint(1, 25)
    if stream in ("linear", "rel"):
        ctl = gen_ctl(rng, stream)
        anch = {"utilisation": [unwire(ctl["low"])], "allocation": [unwire(ctl["high"])],
                "supply": [F(0), F(10)], "demand": [F(0), F(10)]}
        return {"kind": stream, "ctl": ctl, "pool": pool, "ops": gen_ops(rng, n, lambda f: anch[f])}
    if stream == "stepwise":
        k = rng.randint(0, 8)
        ths = [q(rng, -2, 30) if rng.random() < 0.15 else q(rng, 1, 30) for _ in range(k)]
        if k and rng.random() < 0.08:
            ths[-1] = rng.choice(ths[:-1] + [F(0)]) if k > 1 else F(0)
        specs = [["const", wire(q(rng, 0, 20))]]
        for _ in range(k):
            specs.append(rng.choice([["const", wire(q(rng, 0, 50))], ["none"], ["dplus", wire(q(rng, -3, 3))],
                                     ["smul", wire(q(rng, 0, 3))], ["ival", wire(q(rng, 1, 4, (1, 2, 4)))]]))
        if rng.random() < 0.2:
            specs[0] = ["none"]
        table = [[wire(t), i + 1] for i, t in enumerate(ths)]
        rng.shuffle(table)
        anch = {"supply": ths + [F(0), F(5)], "demand": [F(0), F(10)], "utilisation": [F(1, 2)], "allocation": [F(1, 2)]}
        ops = gen_ops(rng, n, lambda f: [max(a, F(0)) if f == "supply" else a for a in anch[f]], with_interval=False)
        ops = [o if o[0] == "step" or o[1] != "supply" or unwire(o[2]) >= 0 else ["set", "supply", "0/1"] for o in ops]
        # built directly, or through the decorator skeleton - where controllers may be created from the
        # skeleton between two `add`s (each controller has the rules declared when it is created)
        build = rng.choice(["direct", "skeleton", "skeleton"])
        early = sorted(rng.sample(range(len(table) + 1), rng.randint(0, min(2, len(table) + 1)))) if build == "skeleton" else []
        return {"kind": "stepwise", "rules": specs, "table": table, "interval": wire(q(rng, 1, 8, (1, 2, 4))), "pool": pool, "ops": ops,
                "build": build, "early": early, "final": rng.choice(["call", "partial"]), "addform": rng.choice(["direct", "decorator"])}
    # switch
    k = rng.randint(0, 6)
    ctls = [gen_ctl(rng, bad=0.01) for _ in range(k + 1)]
    ths = [q(rng, -5, 40, (1, 1, 2, 4)) for _ in range(k)]
    if k > 1 and rng.random() < 0.06:
        ths[-1] = ths[0]
    slaves = [[wire(t), i + 1] for i, t in enumerate(ths)]
    rng.shuffle(slaves)
    anch = {"demand": ths + [F(0)], "supply": [F(10)], "utilisation": [unwire(c["low"]) for c in ctls],
            "allocation": [unwire(c["high"]) for c in ctls]}
    # controllers may arrive unbound, already bound to the switch's pool, or bound to another object that
    # compares equal to it (pools that define equality by value, e.g. by the name of the site they drive):
    # the constructor accepts all three and all of them have to act on the switch's own pool afterwards
    binds = [rng.choice(["none", "none", "same", "twin"]) if rng.random() < 0.5 else "none" for _ in ctls]
    return {"kind": "switch", "ctls": ctls, "slaves": slaves, "default": 0, "pool": pool, "binds": binds,
            "ops": gen_ops(rng, n, lambda f: anch[f])}


class EqPool(RecPool):
    """a pool with equality by value: every EqPool of one site equals every other"""
    site = "site"

    def __eq__(self, other):
        return isinstance(other, EqPool) and other.site == self.site

    def __hash__(self):
        return hash(self.site)


def mkpool(p, cls=RecPool):
    return cls(unwire(p["supply"]), unwire(p["demand"]), unwire(p["util"]), unwire(p["alloc"]))


def mkctl(c, target):
    from cobald.controller.linear import LinearController
    from cobald.controller.relative_supply import RelativeSupplyController
    if c["type"] == "linear":
        return LinearController(target, low_utilisation=unwire(c["low"]), high_allocation=unwire(c["high"]), rate=unwire(c["rate"]))
    return RelativeSupplyController(target, low_utilisation=unwire(c["low"]), high_allocation=unwire(c["high"]),
                                    low_scale=unwire(c["low_scale"]), high_scale=unwire(c["high_scale"]))


def mkrule(spec, rid, log):
    def rule(pool, interval):
        log.append((rid, pool, interval))
        if spec[0] == "const":
            return unwire(spec[1])
        if spec[0] == "none":
            return None
        if spec[0] == "dplus":
            return pool.demand + unwire(spec[1])
        if spec[0] == "smul":
            return pool.supply * unwire(spec[1])
        if spec[0] == "ival":
            return F(interval) * unwire(spec[1])
    return rule


def impl(case):
    kind = case["kind"]
    binds = case.get("binds") or []
    pool = mkpool(case["pool"], EqPool if "twin" in binds else RecPool)
    obs, calls = [], []
    if kind in ("linear", "rel"):
        try:
            ctl = mkctl(case["ctl"], pool)
        except REJECT:
            return {"ctor": "reject"}
        for op in case["ops"]:
            if op[0] == "step":
                ctl.regulate(unwire(op[1]))
            else:
                setattr(pool, "_" + op[1], unwire(op[2]))
            obs.append(canon(pool.demand))
        return {"ctor": "ok", "obs": obs}
    if kind == "switch":
        from cobald.controller.switch import DemandSwitch
        try:
            twin = {"none": lambda: None, "same": lambda: pool, "twin": lambda: mkpool(case["pool"], EqPool)}
            ctls = [mkctl(c, twin[binds[i] if binds else "none"]()) for i, c in enumerate(case["ctls"])]
        except REJECT:
            return {"ctor": "reject-slave"}
        for i, c in enumerate(ctls):
            orig = c.regulate
            def wrapped(interval, i=i, orig=orig):
                calls.append((i, interval))
                return orig(interval)
            c.regulate = wrapped
        flat = []
        for t, i in case["slaves"]:
            tq = unwire(t)
            flat += [int(tq) if tq.denominator == 1 else float(tq), ctls[i]]
        try:
            sw = DemandSwitch(pool, ctls[case["default"]], *flat)
        except (REJECT + (Exception,)) as e:
            return {"ctor": "reject", "etype": type(e).__name__}
        targets_ok = all(c.target is pool for c in ctls)
        for op in case["ops"]:
            if op[0] == "step":
                n0 = len(calls)
                sw.regulate(unwire(op[1]))
                new = calls[n0:]
                obs.append([canon(pool.demand), new[0][0] if len(new) == 1 else "calls=%d" % len(new)])
                if len(new) == 1 and new[0][1] != unwire(op[1]):
                    obs[-1].append("interval-mismatch")
            else:
                setattr(pool, "_" + op[1], unwire(op[2]))
        return {"ctor": "ok", "obs": obs, "targets_ok": targets_ok}
    # stepwise: through run() on a virtual clock
    from cobald.controller.stepwise import Stepwise
    interval = unwire(case["interval"])
    rules = [mkrule(s, i, calls) for i, s in enumerate(case["rules"])]
    try:
        if case.get("build") == "skeleton":
            from cobald.controller.stepwise import stepwise
            sk = stepwise(rules[0])
            scratch = RecPool(0, 0, 1, 1)
            for j, (t, i) in enumerate(case["table"]):
                if j in case["early"]:
                    # (the rules declared so far may not make a valid controller by themselves, e.g. a lone
                    # threshold 0 - that says nothing about the controller created at the end)
                    try:
                        (sk(scratch, interval=1) if j % 2 else sk.s(interval=1) >> scratch)
                    except REJECT:
                        pass
                if case["addform"] == "decorator":
                    sk.add(supply=unwire(t))(rules[i])
                else:
                    sk.add(rules[i], supply=unwire(t))
            if len(case["table"]) in case["early"]:
                try:
                    sk(scratch, interval=1)
                except REJECT:
                    pass
            sw = sk(pool, interval=float(interval)) if case["final"] == "call" else sk.s(interval=float(interval)) >> pool
        else:
            sw = Stepwise(pool, rules[0], *[(unwire(t), rules[i]) for t, i in case["table"]], interval=float(interval))
    except REJECT:
        return {"ctor": "reject"}
    err = []

    async def main():
        async with trio.open_nursery() as nursery:
            started = False
            for op in case["ops"]:
                if op[0] == "step":
                    n0 = len(calls)
                    if not started:
                        nursery.start_soon(runner)
                        started = True
                        await trio.sleep(float(interval) / 2)
                    else:
                        await trio.sleep(float(interval))
                    if err:
                        obs.append("no-rule" if err[0] == "TypeError" else "error:" + err[0])
                        break
                    new = calls[n0:]
                    ok = len(new) == 1 and new[0][1] is pool and F(new[0][2]) == interval
                    obs.append([canon(pool.demand), new[0][0] if ok else "calls=%r" % [(c[0], c[2]) for c in new]])
                else:
                    setattr(pool, "_" + op[1], unwire(op[2]))
            nursery.cancel_scope.cancel()

    async def runner():
        try:
            await sw.run()
        except trio.Cancelled:
            raise
        except Exception as e:
            err.append(type(e).__name__)

    vclock.run(main)
    return {"ctor": "ok", "obs": obs}


def line(case, o):
    return case


def expect(case, o, m):
    a = {"ctor": o["ctor"], "obs": o.get("obs")}
    b = {"ctor": m.get("ctor"), "obs": m.get("obs")} if "driver_error" not in m else m
    return a, b


def oracle(case, o):
    """C08 clauses evaluated from the property text on the implementation's observations"""
    out = []
    if o["ctor"] != "ok":
        return out
    kind = case["kind"]
    p = {k: unwire(v) for k, v in case["pool"].items()}
    st = {"supply": p["supply"], "demand": p["demand"], "utilisation": p["util"], "allocation": p["alloc"]}
    if kind == "switch" and not o.get("targets_ok"):
        out.append(("switch-targets", "a slave controller does not act on the switch's own target"))
    obs = list(o["obs"])
    oi = 0
    for op in case["ops"]:
        if oi >= len(obs):
            break
        if op[0] == "set":
            st[op[1]] = unwire(op[2])
            if kind in ("linear", "rel"):
                oi += 1
            continue
        ob = obs[oi]
        oi += 1
        before = st["demand"]
        if kind == "linear" or kind == "rel":
            c = case["ctl"]
            after = unwire(ob)
            out += ctl_oracle(c, st, unwire(op[1]), before, after)
            st["demand"] = after
        elif kind == "switch":
            after, chosen = unwire(ob[0]), ob[1]
            best, bt = case["default"], None
            for t, i in case["slaves"]:
                t = unwire(t)
                if t <= before and (bt is None or t > bt):
                    best, bt = i, t
            if chosen != best or len(ob) > 2:
                out.append(("switch-select", "demand %s: step delegated to %r, expected exactly one call of controller %d with the interval" % (before, ob[1:], best)))
            else:
                out += ctl_oracle(case["ctls"][best], st, unwire(op[1]), before, after)
            st["demand"] = after
        else:
            if ob == "no-rule" or isinstance(ob, str):
                out.append(("stepwise-error", "step at supply %s failed: %s" % (st["supply"], ob)))
                break
            after, rid = unwire(ob[0]), ob[1]
            best, bt = 0, None
            for t, i in case["table"]:
                t = unwire(t)
                if t <= st["supply"] and (bt is None or t > bt):
                    best, bt = i, t
            if rid != best:
                out.append(("stepwise-select", "supply %s: rule calls %r, expected exactly one call of rule %d (pool, interval)" % (st["supply"], rid, best)))
            else:
                spec = case["rules"][best]
                exp = {"const": lambda: unwire(spec[1]), "none": lambda: None, "dplus": lambda: before + unwire(spec[1]),
                       "smul": lambda: st["supply"] * unwire(spec[1]), "ival": lambda: unwire(case["interval"]) * unwire(spec[1])}[spec[0]]()
                if (exp is None and after != before) or (exp is not None and after != exp):
                    out.append(("stepwise-apply", "rule %d returned %s, demand went %s -> %s" % (best, exp, before, after)))
            st["demand"] = after
    return out


def ctl_oracle(c, st, interval, before, after):
    out = []
    low_hit = st["utilisation"] < unwire(c["low"])
    high_hit = st["allocation"] > unwire(c["high"])
    if c["type"] == "linear":
        amount = unwire(c["rate"]) * interval
        d = after - before
        if abs(d) > amount:
            out.append(("linear-bound", "demand changed by %s > rate*interval = %s" % (d, amount)))
        if d < 0 and not low_hit:
            out.append(("linear-down", "demand decreased though utilisation %s is not below %s" % (st["utilisation"], c["low"])))
        if d > 0 and not high_hit:
            out.append(("linear-up", "demand increased though allocation %s is not above %s" % (st["allocation"], c["high"])))
        if low_hit != high_hit and abs(d) != amount:
            out.append(("linear-exact", "exactly one condition holds but |change| = %s, expected %s" % (abs(d), amount)))
        if not low_hit and not high_hit and d != 0:
            out.append(("linear-none", "neither condition holds but demand changed by %s" % d))
    else:
        s = st["supply"]
        allowed = set()
        if low_hit:
            allowed.add(s * unwire(c["low_scale"]))
        if high_hit:
            allowed.add(s * unwire(c["high_scale"]))
        if not low_hit and not high_hit:
            allowed.add(s)
        if after not in allowed:
            out.append(("relsupply-cases", "demand set to %s, expected one of %s" % (after, sorted(allowed))))
    return out


def nontrivial(case, o):
    if o["ctor"] != "ok":
        return False
    obs = o["obs"]
    if case["kind"] in ("linear", "rel"):
        return len(set(obs)) > 1
    return any(isinstance(x, list) and x[1] != 0 for x in obs) or len({json.dumps(x) for x in obs}) > 1


def shrinks(case):
    ops = case["ops"]
    for i in range(len(ops)):
        yield {**case, "ops": ops[:i] + ops[i + 1:]}


def malformed(ctx, rng, n):
    """constructor rejections the property relies on (odd slave lists, non-numeric thresholds, foreign targets)"""
    from cobald.controller.switch import DemandSwitch
    from cobald.controller.linear import LinearController
    for i in range(n):
        pool, other = RecPool(), RecPool()
        kind = rng.choice(["odd", "nonnumeric", "foreign-slave", "foreign-default", "notcontroller"])
        d = LinearController(None)
        s = LinearController(None)
        args = {"odd": (d, 5), "nonnumeric": (d, "5", s), "foreign-slave": (d, 5, LinearController(other)),
                "foreign-default": (LinearController(other),), "notcontroller": (d, 5, object())}[kind]
        try:
            DemandSwitch(pool, *args)
            ctx.violation("switch-ctor-accepts:" + kind, "DemandSwitch accepted a malformed slave list (%s)" % kind, {"kind": kind})
        except Exception:
            pass
        ctx.count("switch-malformed", {"kind": kind, "i": i}, False)


def run(ctx):
    for s in STREAMS:
        rng = ctx.rng(s)
        cases = [gen_case(rng, s) for _ in range(ctx.n(700, 8000))]
        corr.run_stream(ctx, s, cases, impl, line, oracle, nontrivial, shrinks, expect)
        for c in cases:
            ctx.tally("ops", len(c["ops"]))
    malformed(ctx, ctx.rng("mal"), 25)


def replay(payload):
    case = payload.get("case") or payload["disagreements"][0]["case"]
    o = impl(case)
    v = oracle(case, o)
    print(json.dumps({"impl": o, "oracle": v}, indent=1, default=str))
    return 1 if v else 0

"""C16 — Decorators are transparent except for what they are meant to change."""
import json
import logging
import warnings
from fractions import Fraction as F

from .. import corr
from ..num import wire, unwire, canon, INF
from ..pools import RecPool

STREAMS = ["stacks", "templates"]
REGENERATE_SRC = True
RULE = ("random stacks of depth 0..8 of PoolDecorator, Logger, Standardiser and Buffer over a recording pool; sequences "
        "of reads (supply / utilisation / allocation / demand), demand writes and changes of the underlying pool; a "
        "capturing handler snapshots every record and the base pool's demand at emission time; templates built from "
        "the known field names (regenerated from _LOGGER_TEST_FIELDS), unknown names, %%, flags/width/precision and "
        "malformed conversions; non-trivial = stack depth >= 2 with at least one demand write (stacks) / at least one "
        "named field (templates); distinct = distinct canonical case JSON")
ASSUMPTIONS = ["logging delivers exactly one record per Logger.log call at an enabled level",
               "CPython's % operator with a mapping: modelled for named fields, %%, flags, width, precision and the conversion characters diouxXeEfFgGcrsa"]
TRUSTED = ["logging module", "CPython printf-style formatting"]

KNOWN = []


class Capture(logging.Handler):
    """deferred: the handler only keeps the record (like logging.handlers.MemoryHandler) and the
    fields are read after the write has been applied - they must still be those from before"""

    def __init__(self, lid, sink, base, deferred=False):
        super().__init__()
        self.lid, self.sink, self.base, self.deferred = lid, sink, base, deferred

    def emit(self, record):
        if self.deferred:
            self.sink.append({"logger": self.lid, "level": record.levelno, "name": record.name, "record": record,
                              "base_demand_at_emit": self.base._demand, "args": None})
            return
        a = record.args

        def field(k):
            try:
                return a[k]           # what %-formatting does (a mapping may compute its items)
            except Exception:
                return None
        self.sink.append({"logger": self.lid, "level": record.levelno, "name": record.name,
                          "args": {k: field(k) for k in ("value", "demand", "supply", "utilisation", "allocation")},
                          "target_is": field("target"), "base_demand_at_emit": self.base._demand, "record": record,
                          "keys": sorted(a.keys())})


def late_same(r):
    a = r["record"].args
    try:
        late = {k: a[k] for k in ("value", "demand", "supply", "utilisation", "allocation")}
        r["record"].getMessage()
    except Exception:
        return False
    return late == r["args"]


def q(rng, lo, hi, dens=(1, 1, 2, 4)):
    d = rng.choice(dens)
    return F(rng.randint(lo * d, hi * d), d)


def gen_case(rng):
    depth = rng.randint(0, 8)
    layers = []
    transparent = rng.random() < 0.4
    for i in range(depth):
        k = rng.choice(["plain", "logger"]) if transparent else rng.choice(["plain", "logger", "logger", "std", "buffer"])
        if k == "logger":
            layers.append(["logger", i])
        elif k == "std":
            mn, mx = sorted([q(rng, -5, 30), q(rng, -5, 30)])
            p = {"min": wire(mn) if rng.random() < 0.7 else "-inf", "max": wire(mx) if rng.random() < 0.7 else "inf",
                 "g": wire(rng.choice([F(1), F(1), F(2), F(3, 2), F(5)])),
                 "backlog": wire(q(rng, 1, 9)) if rng.random() < 0.5 else "inf",
                 "surplus": wire(q(rng, 1, 9)) if rng.random() < 0.5 else "inf"}
            layers.append(["std", p])
        else:
            layers.append([k])
    pool = {"supply": wire(q(rng, 0, 20)), "demand": wire(q(rng, 0, 20)), "util": wire(q(rng, 0, 1, (4,))), "alloc": wire(q(rng, 0, 1, (4,)))}
    ops = []
    for _ in range(rng.randint(1, 20)):
        r = rng.random()
        if r < 0.3:
            ops.append(["get", rng.choice(["supply", "utilisation", "allocation"])])
        elif r < 0.45:
            ops.append(["getd"])
        elif r < 0.8:
            ops.append(["set", wire(q(rng, -5, 40))])
        else:
            ops.append(["base", rng.choice(["supply", "utilisation", "allocation", "demand"]), wire(q(rng, 0, 20))])
    return {"mode": "stack", "pool": pool, "layers": layers, "ops": ops, "deferred": rng.random() < 0.3}


def num(w):
    v = unwire(w)
    return v


def impl(case):
    if case["mode"] == "tmpl":
        from cobald.decorator.logger import Logger
        with warnings.catch_warnings():
            warnings.simplefilter("ignore")
            try:
                Logger(RecPool(), name="vh.c16.tmpl", message=case["t"])
                return {"ok": True}
            except Exception as e:
                return {"ok": False, "etype": type(e).__name__}
    from cobald.interfaces import PoolDecorator
    from cobald.decorator.logger import Logger
    from cobald.decorator.standardiser import Standardiser
    from cobald.decorator.buffer import Buffer

    class Plain(PoolDecorator):
        pass

    p = case["pool"]
    base = RecPool(num(p["supply"]), num(p["demand"]), num(p["util"]), num(p["alloc"]))
    sink, handlers = [], []
    top = base
    level_of = {}
    for l in case["layers"]:
        if l[0] == "plain":
            top = Plain(top)
        elif l[0] == "logger":
            name = "vh.c16.L%d" % l[1]
            lg = logging.getLogger(name)
            lg.setLevel(logging.DEBUG)
            lg.propagate = False
            h = Capture(l[1], sink, base, deferred=bool(case.get("deferred")))
            lg.addHandler(h)
            handlers.append((lg, h))
            level = [logging.INFO, logging.WARNING, logging.DEBUG][l[1] % 3]
            level_of[l[1]] = (level, name)
            top = Logger(top, name=name, level=level)
        elif l[0] == "std":
            pp = l[1]
            top = Standardiser(top, minimum=num(pp["min"]), maximum=num(pp["max"]), granularity=num(pp["g"]),
                               backlog=num(pp["backlog"]), surplus=num(pp["surplus"]))
        else:
            top = Buffer(top, window=5)
    obs, extra = [], []
    try:
        for op in case["ops"]:
            if op[0] == "get":
                obs.append(canon(getattr(top, op[1])))
            elif op[0] == "getd":
                obs.append(canon(top.demand))
            elif op[0] == "set":
                del sink[:]
                before = base._demand
                top.demand = num(op[1])
                for r in sink:
                    if r["args"] is None:
                        a = r["record"].args

                        def field(k):
                            try:
                                return a[k]
                            except Exception:
                                return None
                        r["args"] = {k: field(k) for k in ("value", "demand", "supply", "utilisation", "allocation")}
                        r["target_is"] = field("target")
                recs = [[r["logger"], canon(r["args"]["value"]), canon(r["args"]["demand"]), canon(r["args"]["supply"]),
                         canon(r["args"]["utilisation"]), canon(r["args"]["allocation"])] for r in sink]
                obs.append({"records": recs, "base": canon(base._demand)})
                extra.append({"before": canon(before),
                              "emit_ok": all(r["base_demand_at_emit"] == before for r in sink),
                              "level_ok": all((r["level"], r["name"]) == level_of[r["logger"]] for r in sink),
                              # a handler that keeps the record and formats it later (MemoryHandler, a test
                              # fixture) must still see the state from before the write
                              "late_ok": all(late_same(r) for r in sink),
                              "keys_ok": all(r["target_is"] is not None and all(v is not None for v in r["args"].values()) for r in sink)})
            else:
                setattr(base, "_" + op[1], num(op[2]))
                obs.append(None)
    finally:
        for lg, h in handlers:
            lg.removeHandler(h)
    return {"obs": obs, "extra": extra}


def line(case, o):
    if case["mode"] == "tmpl":
        return {"mode": "tmpl", "known": KNOWN, "t": case["t"]}
    return case


def expect(case, o, m):
    if "driver_error" in m:
        return o, m
    if case["mode"] == "tmpl":
        return o["ok"], m["ok"]
    return o["obs"], m["obs"]


def oracle(case, o):
    out = []
    if case["mode"] == "tmpl":
        names = case["names"]
        unknown = [n for n in names if n not in KNOWN]
        if unknown and o["ok"]:
            out.append(("template-unknown-accepted", "template %r names unknown field(s) %r but the Logger was constructed" % (case["t"], unknown)))
        if case.get("wellformed") and not unknown and not o["ok"]:
            out.append(("template-known-rejected", "well-formed template %r over documented fields was rejected (%s)" % (case["t"], o.get("etype"))))
        return out
    p = {k: unwire(v) for k, v in case["pool"].items()}
    st = {"supply": p["supply"], "utilisation": p["util"], "allocation": p["alloc"], "demand": p["demand"]}
    kinds = [l[0] for l in case["layers"]]
    transparent = all(k in ("plain", "logger") for k in kinds)
    nlog = kinds.count("logger")
    ei = 0
    for op, ob in zip(case["ops"], o["obs"]):
        if op[0] == "get":
            if unwire(ob) != st[op[1]]:
                out.append(("not-transparent:%s" % op[1], "%s read through the stack is %s, the pool has %s" % (op[1], ob, st[op[1]])))
        elif op[0] == "getd":
            if transparent and unwire(ob) != st["demand"]:
                out.append(("demand-read-not-passed", "demand read through plain/Logger stack is %s, pool has %s" % (ob, st["demand"])))
        elif op[0] == "set":
            v = unwire(op[1])
            ex = o["extra"][ei]
            ei += 1
            recs = ob["records"]
            per = {}
            for r in recs:
                per[r[0]] = per.get(r[0], 0) + 1
            if any(c != 1 for c in per.values()):
                out.append(("logger-record-count", "a Logger emitted %r records for one write" % (per,)))
            if not ex.get("late_ok", True):
                out.append(("logger-record-not-a-snapshot", "read after the write, the record no longer carries the state from before the write: %r" % (ex,)))
            if not (ex["emit_ok"] and ex["level_ok"] and ex["keys_ok"]):
                out.append(("logger-record-form", "record emitted after the write was applied / wrong level or logger / missing fields: %r" % (ex,)))
            if transparent:
                if len(recs) != nlog:
                    out.append(("logger-record-count", "%d records for %d Loggers in a transparent stack" % (len(recs), nlog)))
                for r in recs:
                    if any(x is None for x in r[1:]):
                        out.append(("logger-record-form", "a record lacks one of value / demand / supply / utilisation / allocation: %r" % (r,)))
                        break
                    got = [unwire(x) for x in r[1:]]
                    want = [v, st["demand"], st["supply"], st["utilisation"], st["allocation"]]
                    if got != want:
                        out.append(("logger-record-content", "record carries %r, expected value and pre-write state %r" % (got, want)))
                        break
                if unwire(ob["base"]) != v:
                    out.append(("demand-write-not-passed", "wrote %s through plain/Logger stack, pool has %s" % (v, ob["base"])))
            st["demand"] = unwire(ob["base"])
        else:
            st[op[1]] = unwire(op[2])
    return out


def gen_tmpl(rng):
    known = KNOWN
    pieces, names, wf = [], [], True
    for _ in range(rng.randint(1, 5)):
        r = rng.random()
        if r < 0.25:
            pieces.append(rng.choice(["demand = ", " x ", "[", "]", "a,b "]))
        elif r < 0.35:
            pieces.append("%%")
        elif r < 0.9:
            name = rng.choice(known) if rng.random() < 0.75 else rng.choice(["foo", "Demand", "values", "", "tar get"])
            conv = rng.choice(["s", "s", "r", ".2f", "d", "5.1f", "-8s", "+d", "e", "g", "x", "c", "o", "a", "i", "05d", "z", ""])
            pieces.append("%%(%s)%s" % (name, conv))
            names.append(name)
            last = conv[-1:] if conv else ""
            if last not in list("diueEfFgGrsa") or (name == "target" and last not in "rsa"):
                wf = False
        else:
            pieces.append(rng.choice(["%", "%(demand", "%s", "%d", "%(supply)"]))
            wf = False
    t = "".join(pieces)
    # the named fields, by an independent scan: '%%' is a literal, '%(name)' a field
    import re
    names = [m.group(1) for m in re.finditer(r"%%|%\(([^)]*)\)", t) if m.group(1) is not None]
    if "%%(" in t or re.search(r"%(?!%|\()", t.replace("%%", "")):
        wf = False
    return {"mode": "tmpl", "t": t, "names": names, "wellformed": wf}


def nontrivial(case, o):
    if case["mode"] == "tmpl":
        return bool(case["names"])
    return len(case["layers"]) >= 2 and any(op[0] == "set" for op in case["ops"])


def shrinks(case):
    if case["mode"] != "stack":
        return
    ops = case["ops"]
    for i in range(len(ops)):
        yield {**case, "ops": ops[:i] + ops[i + 1:]}
    ls = case["layers"]
    for i in range(len(ls)):
        yield {**case, "layers": ls[:i] + ls[i + 1:]}


def run(ctx):
    global KNOWN
    from cobald.decorator.logger import _LOGGER_TEST_FIELDS
    KNOWN = sorted(_LOGGER_TEST_FIELDS.keys())
    ctx.notes["known_fields_regenerated"] = KNOWN
    rng = ctx.rng("stacks")
    cases = [gen_case(rng) for _ in range(ctx.n(2000, 25000))]
    corr.run_stream(ctx, "stacks", cases, impl, line, oracle, nontrivial, shrinks, expect)
    rng = ctx.rng("tmpl")
    cases = [gen_tmpl(rng) for _ in range(ctx.n(2000, 20000))]
    corr.run_stream(ctx, "templates", cases, impl, line, oracle, nontrivial, None, expect)


def replay(payload):
    global KNOWN
    from cobald.decorator.logger import _LOGGER_TEST_FIELDS
    KNOWN = sorted(_LOGGER_TEST_FIELDS.keys())
    case = payload.get("case") or payload["disagreements"][0]["case"]
    o = impl(case)
    v = oracle(case, o)
    print(json.dumps({"impl": o, "oracle": v}, indent=1, default=str))
    return 1 if v else 0

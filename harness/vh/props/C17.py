"""C17 — Monitoring output is well-formed and lossless."""
import json
import logging
from fractions import Fraction as F

from .. import corr
from ..num import wire

STREAMS = ["line", "formatter", "json"]
REGENERATE_SRC = True
RULE = ("records over the alphabet {a b , = space \" ' \\ % é 🚀 combining-acute} (every character special to "
        "the line protocol), 0..8 tags / fields, str / int / float / bool values, whitelist as set or dict with "
        "string and non-string defaults, integer resolutions, integer record times; three-way comparison: "
        "implementation output == Lean encodeLine; independent Python reference decoder(output) == Lean "
        "decodeLine(output) == input record; non-trivial = at least one special character in a name/key/value; "
        "distinct = distinct canonical case JSON")
ASSUMPTIONS = ["'%s' / '%d' renderings of int, float, bool contain none of , = space \" \\ newline (checked on every generated value)",
               "record times are integer seconds (timestamp * 1e9 is then exact in IEEE double)",
               "excluded as the property states: line breaks, trailing backslash in name/keys/tag values, '%' in the name, keys colliding with log-record attribute names"]
TRUSTED = ["CPython str.replace, sorted, % formatting; json.dumps/loads; logging.LogRecord"]

ALPHA = ["a", "b", "c", ",", "=", " ", '"', "'", "\\", "é", "🚀", "́", "%", "x"]
SPECIAL = set(',= "\'\\%')


def gen_str(rng, minlen=1, maxlen=6, trailing_bs_ok=False, percent_ok=True):
    while True:
        n = rng.randint(minlen, maxlen)
        s = "".join(rng.choice(ALPHA) for _ in range(n))
        if not percent_ok:
            s = s.replace("%", "p")
        if not trailing_bs_ok and s.endswith("\\"):
            continue
        return s


def gen_val(rng, for_tag=False):
    r = rng.random()
    if r < 0.55:
        return {"s": gen_str(rng, 1 if for_tag else 0, 6, trailing_bs_ok=not for_tag)}
    if r < 0.75:
        v = rng.choice([0, 1, -1, rng.randint(-10**6, 10**6), 2**63])
        return {"py": ["int", v]}
    if r < 0.9:
        v = rng.choice([0.0, 0.45, -1.5, 1e-7, 1e20, 298.0, rng.randint(-1000, 1000) / 8])
        return {"py": ["float", repr(v)]}
    return {"py": ["bool", rng.random() < 0.5]}


def pyval(v):
    if "s" in v:
        return v["s"]
    t, x = v["py"]
    return {"int": int, "float": float, "bool": bool}[t](x) if t != "float" else float(x)


def wireval(v):
    """what the model receives: strings as {"s"}, everything else as its %s rendering"""
    if "s" in v:
        return {"s": v["s"]}
    return {"t": "%s" % (pyval(v),)}


def gen_keys(rng, n, attrs):
    keys = []
    while len(keys) < n:
        k = gen_str(rng, 1, 5)
        if k not in keys and k not in attrs:
            keys.append(k)
    return keys


def gen_case(rng, stream, attrs):
    if stream == "line":
        nt, nf = rng.randint(0, 6), rng.randint(0, 8)
        return {"mode": "line", "name": gen_str(rng, 1, 8, percent_ok=False),
                "tags": [[k, gen_val(rng, True)] for k in gen_keys(rng, nt, attrs)],
                "fields": [[k, gen_val(rng)] for k in gen_keys(rng, nf, attrs)],
                "tsec": rng.choice([None, None, 0, 1, rng.randint(0, 2**31 - 1), -5])}
    if stream == "formatter":
        keys = gen_keys(rng, rng.randint(0, 10), attrs)
        wl = [k for k in keys if rng.random() < 0.35] + gen_keys(rng, rng.randint(0, 2), attrs)
        wl = list(dict.fromkeys(wl))
        as_dict = rng.random() < 0.5
        defaults = [[k, gen_val(rng, True)] for k in wl if rng.random() < 0.7] if as_dict else []
        args = [[k, gen_val(rng, k in wl)] for k in keys if rng.random() < 0.8]
        # record attribute names present in the record must be dropped from the fields
        if rng.random() < 0.3:
            args.append([rng.choice(sorted(attrs)), {"s": "zz"}])
        res = rng.choice([None, 1, 10, 60, rng.randint(1, 10**4)])
        return {"mode": "fmt", "name": gen_str(rng, 1, 8, percent_ok=False), "whitelist": wl, "as_dict": as_dict,
                "defaults": defaults, "args": args, "res": res, "created": rng.randint(0, 2**31 - 1)}
    # json
    def jv():
        return rng.choice([1, 2.5, True, None, "s,= \"'\\é🚀", [1, "a"], {"n": {"m": 1}}, gen_str(rng, 0, 5, True)])
    pool = ["time", "message", "a", "b", gen_str(rng, 1, 3, True), "z"]
    defaults = {rng.choice(pool): jv() for _ in range(rng.randint(0, 4))}
    data = {rng.choice(pool): jv() for _ in range(rng.randint(0, 4))}
    extra = {}
    # keys that are not text (json.dumps renders int / float / bool / None keys as text): per-slot
    # reports like {0: 0.5, 1: 0.75}, at the top level and nested, beside text keys
    if rng.random() < 0.3:
        nk = lambda: rng.choice([0, 7, -3, 2.5, None, True])   # (no two of these are equal as dict keys)
        if rng.random() < 0.6:
            extra["xdata"] = [[nk(), jv()] for _ in range(rng.randint(1, 3))]
        if rng.random() < 0.3:
            extra["xdefaults"] = [[nk(), jv()] for _ in range(rng.randint(1, 2))]
        if rng.random() < 0.5:
            data[rng.choice(["a", "per_slot"])] = {"__pairs__": [[nk(), jv()], ["all", 1.0], [nk(), 2]]}
    return {"mode": "json", "defaults": defaults, "data": data, **extra, "msg": gen_str(rng, 1, 6, True, percent_ok=False),
            "datefmt": rng.choice([None, "", "%Y", "%H:%M"]), "created": rng.randint(0, 2**31 - 1),
            # the same record may have passed through another handler's formatter before
            "pre": rng.choice([None, None, "line", "text", "json"])}


# ---------------------------------------------------------------- reference decoder (Python)

def ref_scan(S, s, i):
    out = []
    n = len(s)
    while i < n:
        c = s[i]
        if c == "\\" and i + 1 < n and s[i + 1] in S:
            out.append(s[i + 1]); i += 2
        elif c in S:
            break
        else:
            out.append(c); i += 1
    return "".join(out), i


def ref_decode(line):
    """InfluxDB line protocol, written from the reference: returns dict or None"""
    if not line.endswith("\n") or "\n" in line[:-1]:
        return None
    name, i = ref_scan(", ", line, 0)
    tags = []
    while i < len(line) and line[i] == ",":
        k, i = ref_scan(",= ", line, i + 1)
        if i >= len(line) or line[i] != "=":
            return None
        v, i = ref_scan(",= ", line, i + 1)
        tags.append([k, v])
    if i >= len(line) or line[i] != " ":
        return None
    i += 1
    fields = []
    if line[i] not in " \n":
        while True:
            k, i = ref_scan(",= ", line, i)
            if i >= len(line) or line[i] != "=":
                return None
            i += 1
            if line[i] == '"':
                i += 1
                buf = []
                while True:
                    if i >= len(line):
                        return None
                    c = line[i]
                    if c == "\\" and i + 1 < len(line) and line[i + 1] in '"\\':
                        buf.append(line[i + 1]); i += 2
                    elif c == '"':
                        i += 1
                        break
                    else:
                        buf.append(c); i += 1
                fields.append([k, {"s": "".join(buf)}])
            else:
                j = i
                while line[j] not in ", \n":
                    j += 1
                fields.append([k, {"t": line[i:j]}])
                i = j
            if line[i] == ",":
                i += 1
                continue
            break
    ts = None
    if line[i] == " ":
        j = line.index("\n", i)
        ts = line[i + 1:j]
        i = j
    if line[i:] != "\n":
        return None
    return {"name": name, "tags": tags, "fields": fields, "ts": ts}


def classify(tok):
    """type class and value of an unquoted token per the protocol"""
    if tok in ("t", "T", "true", "True", "TRUE"):
        return ("bool", True)
    if tok in ("f", "F", "false", "False", "FALSE"):
        return ("bool", False)
    try:
        if tok.endswith("i") or tok.endswith("u"):
            return ("number", F(int(tok[:-1])))
        return ("number", F(tok) if "e" not in tok.lower() and "inf" not in tok and "nan" not in tok else F(float(tok)))
    except (ValueError, ZeroDivisionError):
        return ("bad", tok)


# ---------------------------------------------------------------- implementation drivers

def rec_text_safe(rec):
    """let a plain text formatter set `asctime` on the very record (its %-args are a mapping: the message has no
    conversions, so formatting it is harmless)"""
    return rec


def jkey(k):
    """the text json.dumps writes for a key"""
    if isinstance(k, str):
        return k
    if k is True:
        return "true"
    if k is False:
        return "false"
    if k is None:
        return "null"
    return repr(k)


def jreal(v):
    """the Python value a case describes ({"__pairs__": [[k, v], ...]} is a mapping with arbitrary keys)"""
    if isinstance(v, dict):
        if set(v) == {"__pairs__"}:
            return {k: jreal(x) for k, x in v["__pairs__"]}
        return {k: jreal(x) for k, x in v.items()}
    if isinstance(v, list):
        return [jreal(x) for x in v]
    return v


def jtext(v):
    """the same value as a JSON parser returns it (keys are text; a later equal key wins)"""
    if isinstance(v, dict):
        return {jkey(k): jtext(x) for k, x in v.items()}
    if isinstance(v, list):
        return [jtext(x) for x in v]
    return v


def jlayer(case, which):
    d = {k: jreal(v) for k, v in case[which].items()}
    d.update({k: jreal(v) for k, v in case.get("x" + which, [])})
    return d


def impl(case, attrs=None):
    from cobald.monitor.format_line import line_protocol, LineProtocolFormatter
    from cobald.monitor.format_json import JsonFormatter
    try:
        if case["mode"] == "line":
            out = line_protocol(case["name"], {k: pyval(v) for k, v in case["tags"]},
                                {k: pyval(v) for k, v in case["fields"]},
                                None if case["tsec"] is None else float(case["tsec"]))
        elif case["mode"] == "fmt":
            wl = case["whitelist"]
            tags = {k: pyval(v) for k, v in case["defaults"]} if case["as_dict"] else set(wl)
            if case["as_dict"]:
                for k in wl:
                    tags.setdefault(k, "dflt")
            fm = LineProtocolFormatter(tags if (wl or case["as_dict"]) else None, resolution=case["res"])
            rec = logging.LogRecord("n", logging.INFO, "p", 1, case["name"], ({k: pyval(v) for k, v in case["args"]},), None)
            rec.created = float(case["created"])
            out = fm.format(rec)
        else:
            fm = JsonFormatter(jlayer(case, "defaults"), datefmt=case["datefmt"])
            rec = logging.LogRecord("n", logging.INFO, "p", 1, case["msg"], (jlayer(case, "data"),), None)
            rec.created = float(case["created"])
            try:
                # (whether that other formatter likes the record is its own business)
                if case.get("pre") == "line":
                    LineProtocolFormatter().format(rec)
                elif case.get("pre") == "text":
                    logging.Formatter("%(asctime)s", datefmt="%d.%m.").format(rec)
                elif case.get("pre") == "json":
                    JsonFormatter({}, datefmt="%S").format(rec)
            except Exception:
                pass
            out = fm.format(rec)
            return {"out": out, "time": logging.Formatter().formatTime(rec, case["datefmt"])}
    except Exception as e:
        return {"error": type(e).__name__}
    return {"out": out}


def fmt_defaults(case):
    d = [[k, wireval(v)] for k, v in case["defaults"]]
    if case["as_dict"]:
        have = {k for k, _ in d}
        d += [[k, {"s": "dflt"}] for k in case["whitelist"] if k not in have]
    return d


def line(case, o):
    if case["mode"] == "line":
        return {"mode": "line", "name": case["name"], "tags": [[k, wireval(v)] for k, v in case["tags"]],
                "fields": [[k, wireval(v)] for k, v in case["fields"]],
                **({"tsec": str(case["tsec"])} if case["tsec"] is not None else {})}
    if case["mode"] == "fmt":
        return {"mode": "fmt", "name": case["name"], "defaults": fmt_defaults(case), "whitelist": case["whitelist"],
                "attrs": ATTRS, "args": [[k, wireval(v)] for k, v in case["args"]], "created": "%d/1" % case["created"],
                **({"res": str(case["res"])} if case["res"] is not None else {})}
    layers = [[[k, json.dumps(v, sort_keys=True)] for k, v in jtext(jlayer(case, "defaults")).items()]]
    if case["datefmt"] is None or case["datefmt"]:
        layers.append([["time", json.dumps(o.get("time"))]])
    layers.append([["message", json.dumps(case["msg"])]])
    layers.append([[k, json.dumps(v, sort_keys=True)] for k, v in jtext(jlayer(case, "data")).items()])
    return {"mode": "json", "layers": layers}


def expect(case, o, m):
    if "error" in o:
        return o, m
    if case["mode"] == "json":
        try:
            got = json.loads(o["out"])
            a = sorted([k, json.dumps(v, sort_keys=True)] for k, v in got.items()) if isinstance(got, dict) else "not-an-object"
        except ValueError:
            a = "not-json"
        return a, sorted(m.get("merged", [["driver", json.dumps(m)]]))
    return {"line": o["out"], "decoded": ref_decode(o["out"])}, {"line": m.get("line"), "decoded": m.get("decoded")}


def expected_record(case):
    """the record the line must decode to, from the property text (independent of the model)"""
    if case["mode"] == "line":
        tags = {k: ("%s" % (pyval(v),)) for k, v in case["tags"]}
        fields = {k: v for k, v in case["fields"]}
        ts = None if case["tsec"] is None else case["tsec"] * 10**9
    else:
        wl = set(case["whitelist"])
        tags = {k: ("%s" % (pyval(v),)) for k, v in case["defaults"]} if case["as_dict"] else {}
        if case["as_dict"]:
            for k in wl:
                tags.setdefault(k, "dflt")
        for k, v in case["args"]:
            if k in wl:
                tags[k] = "%s" % (pyval(v),)
        fields = {k: v for k, v in case["args"] if k not in wl and k not in ATTRS}
        ts = None if case["res"] is None else (case["created"] // case["res"]) * case["res"] * 10**9
    return case["name"], tags, fields, ts


def oracle(case, o):
    if "error" in o:
        return [("format-error:%s" % o["error"], "formatting raised %s" % o["error"])]
    out = []
    if case["mode"] == "json":
        try:
            got = json.loads(o["out"])
        except ValueError:
            return [("json-invalid", "output is not JSON: %r" % o["out"][:80])]
        exp = jtext(jlayer(case, "defaults"))
        if case["datefmt"] is None or case["datefmt"]:
            exp["time"] = o["time"]
        exp["message"] = case["msg"]
        exp.update(jtext(jlayer(case, "data")))
        if got != exp or "\n" in o["out"]:
            out.append(("json-merge", "JSON output %r differs from defaults<time<message<data = %r" % (got, exp)))
        return out
    s = o["out"]
    if not s.endswith("\n") or s.count("\n") != 1:
        out.append(("not-single-line", "output is not a single newline-terminated line: %r" % s))
        return out
    d = ref_decode(s)
    if d is None:
        return [("undecodable", "reference parser rejects %r" % s)]
    name, tags, fields, ts = expected_record(case)
    if d["name"] != name:
        out.append(("name-lost", "measurement decodes to %r, reported %r" % (d["name"], name)))
    if dict(map(tuple, d["tags"])) != tags or len(d["tags"]) != len(tags):
        out.append(("tags-lost", "tags decode to %r, expected %r" % (d["tags"], tags)))
    if [k for k, _ in d["tags"]] != sorted(k for k, _ in d["tags"]):
        out.append(("tags-unsorted", "tags are not sorted by key"))
    dec = {k: v for k, v in d["fields"]}
    if set(dec) != set(fields) or len(d["fields"]) != len(fields):
        out.append(("fields-lost", "field keys decode to %r, expected %r" % (sorted(dec), sorted(fields))))
    else:
        for k, v in fields.items():
            dv = dec[k]
            if "s" in v:
                if dv != {"s": v["s"]}:
                    out.append(("field-string-lost", "string field %r=%r decodes to %r" % (k, v["s"], dv)))
            else:
                pv = pyval(v)
                if "t" not in dv:
                    out.append(("field-type-lost", "%s field %r decodes as a string" % (v["py"][0], k)))
                    continue
                cls, val = classify(dv["t"])
                want = "bool" if isinstance(pv, bool) else "number"
                same = (val == pv) if want == "bool" else (cls == "number" and (float(dv["t"]) == pv if isinstance(pv, float) else val == F(pv)))
                if cls != want or not same:
                    out.append(("field-value-lost", "%s field %r=%r decodes to %r" % (v["py"][0], k, pv, dv["t"])))
    if (d["ts"] is None) != (ts is None) or (ts is not None and d["ts"] != str(ts)):
        out.append(("timestamp", "timestamp decodes to %r, expected %r" % (d["ts"], ts)))
    return out


def nontrivial(case, o):
    txt = json.dumps(case, ensure_ascii=False)
    return any(c in txt for c in ",= ") and ("\\\\" in txt or "\\\"" in txt or "'" in txt)


def shrinks(case):
    for key in ("tags", "fields", "args", "defaults"):
        if key in case and isinstance(case[key], list):
            l = case[key]
            for i in range(len(l)):
                yield {**case, key: l[:i] + l[i + 1:]}
    if case.get("mode") in ("line", "fmt") and len(case["name"]) > 1:
        yield {**case, "name": case["name"][:-1].rstrip("\\") or "a"}
    for key in ("tags", "fields", "args"):
        for i, (k, v) in enumerate(case.get(key, []) if isinstance(case.get(key), list) else []):
            if "s" in v and len(v["s"]) > 1:
                for j in range(len(v["s"])):
                    s2 = v["s"][:j] + v["s"][j + 1:]
                    if s2 and not (key != "fields" and s2.endswith("\\")):
                        l = list(case[key]); l[i] = [k, {"s": s2}]
                        yield {**case, key: l}


ATTRS = []


def run(ctx):
    global ATTRS
    from cobald.monitor.format_json import RECORD_ATTRIBUTES
    ATTRS = list(RECORD_ATTRIBUTES)
    for s in STREAMS:
        rng = ctx.rng(s)
        cases = [gen_case(rng, s, set(ATTRS)) for _ in range(ctx.n(1500, 25000))]
        corr.run_stream(ctx, s, cases, impl, line, oracle, nontrivial, shrinks, expect)
    # renderings assumed free of special characters: check on every generated non-string value
    bad = 0
    rng = ctx.rng("render")
    for _ in range(2000):
        v = gen_val(rng)
        if "py" in v and any(c in ("%s" % (pyval(v),)) for c in ',= "\\\n'):
            bad += 1
    ctx.notes["renderings_with_special_chars"] = bad


def replay(payload):
    global ATTRS
    from cobald.monitor.format_json import RECORD_ATTRIBUTES
    ATTRS = list(RECORD_ATTRIBUTES)
    case = payload.get("case") or payload["disagreements"][0]["case"]
    o = impl(case)
    v = oracle(case, o)
    print(json.dumps({"impl": o, "oracle": v}, indent=1, ensure_ascii=False))
    return 1 if v else 0

"""C02 — Termination cancels every coroutine payload and finishes its cleanup first."""
from ..rt import check

STREAMS = ["termination"]
REGENERATE_SRC = True
RULE = ("gated scenarios: still-running coroutine payloads (sleeping, spinning on zero-length sleeps, adopted from other "
        "payloads, parked on an awaitable nothing else refers to - with the cyclic garbage collector run on purpose before the trigger -, with synchronous cleanup 0..50 ms and trio shielded cleanup 0..300 ms) and blocked thread payloads x "
        "trigger (failure in each flavour, SIGINT, shutdown() from outside, shutdown() from a thread payload) x trigger "
        "time; per-payload event logs with sequence numbers and monotonic time stamps compared with the instant accept() "
        "ended (same process, same clock; the worker lingers 250 ms afterwards to see late steps); events replayed on the "
        "Lean LTS; non-trivial = at least two payloads; distinct = distinct scenario")
ASSUMPTIONS = ["asyncio cleanup is 'finally blocks' only: asynchronous cleanup in an asyncio payload is re-cancelled every 0.1 s by aclose and is outside the statement",
               "what asyncio does with tasks at interpreter exit is not exhibited", "framework semantics enter the model as enabling conditions"]
TRUSTED = ["scenario engine (harness/vh/rt)"]


def oracle(sc, out):
    res = []
    end = check.accept_end(out)
    if end is None:
        res.append(("never-ends", "trigger %s: accept() did not end within the bound (blocked threads must not prevent termination)" % sc.get("trigger")))
        return res
    log = out["log"]
    endseq = end["seq"]
    started = {e["pid"]: e for e in log if e["kind"] == "start"}
    body_end = {e["pid"]: e for e in log if e["kind"] == "body-end"}
    unwound = {e["pid"]: e for e in log if e["kind"] == "unwound"}
    cancel = {e["pid"]: e for e in log if e["kind"] == "cancel-seen"}
    co = {p["pid"]: p for p in sc["payloads"] if p["fl"] in ("aio", "trio")}
    for pid, p in co.items():
        if pid not in started:
            continue
        if pid in body_end and body_end[pid]["seq"] < endseq:
            continue
        if pid not in cancel:
            res.append(("not-cancelled", "coroutine payload %d (%s) was still running and never received its framework's cancellation" % (pid, p["fl"])))
        elif pid not in unwound or unwound[pid]["seq"] > endseq:
            res.append(("cleanup-after-end", "cleanup of payload %d (%s, cleanup %r) had not finished when accept() ended" % (pid, p["fl"], p.get("cleanup"))))
    for e in log:
        if e["seq"] > endseq and e["kind"] in ("step", "start") and e.get("pid") in co:
            res.append(("step-after-end", "coroutine payload %d executed a step after accept() had ended" % e["pid"]))
            break
    return res


def run(ctx):
    check.run_family(ctx, "termination", ctx.n(96, 1500), oracle)


def replay(payload):
    return check.replay(payload, oracle)

"""C09 — Periodic services act once per interval, for as long as they run."""
import json
from fractions import Fraction as F

import trio
import trio.testing

from .. import corr, vclock
from ..num import wire, unwire, canon
from ..pools import RecPool
from . import C08

STREAMS = ["linear", "rel", "switch", "stepwise", "buffer", "factory", "factory_env", "buffer_float", "ctl_float"]
REGENERATE_SRC = True
DRIVER_DEPENDS_ON_GENERATED = True
RULE = ("every shipped periodic service is run by trio.run(run, clock=MockClock(autojump_threshold=0)) next to a "
        "scripted environment task; intervals / windows are dyadic, 20..120 periods (thorough up to 500); environment "
        "actions (pool state changes, demand writes through a Buffer) are placed before, on and after period "
        "boundaries; the recording pool logs every read and write with trio.current_time(); the observed event order "
        "(incl. same-instant order) is passed to the model; extra oracle-only streams use windows / intervals that are no binary fractions (0.1, 0.3, 1/3, ...) and services started at any time of the clock (0, 0.05, 123.456, 1e6+0.1), with a budget of task steps per run (a loop that spins at one instant is reported); non-trivial = at least 5 periods and one environment "
        "action; distinct = distinct canonical case JSON")
ASSUMPTIONS = ["trio's clock contract: sleep(d) started at virtual time t ends at t+d and the loop body takes no virtual time (MockClock with autojump)",
               "real-time behaviour (scheduler latency, wall-clock drift) is not modelled: the claim is about the virtual-clock contract",
               "a well-behaved pool: reads and writes do not raise"]
TRUSTED = ["trio 0.34 MockClock", "the C08 / C15 models reused for the step functions"]


class TimedPool(RecPool):
    """records every utilisation / demand read and every demand write with the virtual time"""

    def __init__(self, *a, **k):
        super().__init__(*a, **k)
        self.events = []

    def _now(self):
        try:
            return trio.current_time()
        except RuntimeError:
            return None

    @property
    def utilisation(self):
        self.events.append(("read-util", self._now()))
        return self._utilisation

    @utilisation.setter
    def utilisation(self, v):
        self._utilisation = v

    @property
    def supply(self):
        self.events.append(("read-supply", self._now()))
        return self._supply

    @supply.setter
    def supply(self, v):
        self._supply = v

    @property
    def demand(self):
        self.events.append(("read-demand", self._now()))
        return self._demand

    @demand.setter
    def demand(self, v):
        self.events.append(("write", self._now(), v))
        self._demand = v


def dy(rng, lo, hi, dens=(1, 2, 4)):
    d = rng.choice(dens)
    return F(rng.randint(lo * d, hi * d), d)


def gen_script(rng, interval, periods, kinds):
    """environment actions before / on / after boundaries"""
    script = []
    for k in range(periods):
        for _ in range(rng.choice([0, 0, 1, 1, 2])):
            off = rng.choice([F(-1, 4), F(0), F(0), F(1, 4), F(1, 2)])
            t = (k + off) * interval
            if t < 0:
                t = F(0)
            kind = rng.choice(kinds)
            if kind == "write":
                script.append([wire(t), "write", wire(dy(rng, 0, 30))])
            else:
                f = rng.choice([0, 1, 2])
                x = dy(rng, 0, 20) if f == 0 else dy(rng, 0, 1, (4,))
                script.append([wire(t), "env", f, wire(x)])
    script.sort(key=lambda e: unwire(e[0]))
    return script


def gen_case(rng, stream, maxp):
    interval = rng.choice([F(1, 4), F(1, 2), F(1), F(2), F(5)])
    periods = rng.randint(20, maxp)
    case = {"kind": stream, "interval": wire(interval), "periods": periods, "pool": C08.gen_pool(rng)}
    if stream in ("linear", "rel"):
        case["ctl"] = C08.gen_ctl(rng, stream, bad=0)
    elif stream == "switch":
        k = rng.randint(0, 4)
        case["ctls"] = [C08.gen_ctl(rng, bad=0) for _ in range(k + 1)]
        ths = rng.sample([F(x, 2) for x in range(-4, 60)], k)
        case["slaves"] = [[wire(t), i + 1] for i, t in enumerate(ths)]
    elif stream == "stepwise":
        k = rng.randint(0, 4)
        ths = rng.sample([F(x, 2) for x in range(1, 40)], k)
        case["rules"] = [["const", wire(dy(rng, 0, 20))]] + [rng.choice([["const", wire(dy(rng, 0, 50))], ["none"], ["dplus", wire(dy(rng, -3, 3))], ["smul", wire(dy(rng, 0, 3))]]) for _ in range(k)]
        case["table"] = [[wire(t), i + 1] for i, t in enumerate(ths)]
    elif stream == "buffer":
        case["script"] = gen_script(rng, interval, periods, ["write"])
        return case
    elif stream == "factory":
        case["script"] = []
        return case
    elif stream == "buffer_float":
        # windows that are not binary fractions, a service that starts late: the model's exact times do not
        # apply (float sums), the oracle allows 1e-6 - what matters is that every window gets its flush
        case["kind"] = "buffer_float"
        case["window"] = rng.choice([0.1, 0.3, 0.7, 1.0, 2.5, 10.0, 1 / 3])
        case["start"] = rng.choice([0.0, 0.0, 0.3, 0.05, 1.7])
        case["periods"] = rng.randint(5, 40)
        case["writes"] = [[k, rng.randint(0, 50)] for k in range(case["periods"]) if rng.random() < 0.6]
        return case
    elif stream == "ctl_float":
        # controllers whose interval is not a binary fraction and whose service starts at any time of the
        # clock: steps are due at start + k * interval (the model's exact times do not apply, 1e-6 allowed)
        inner = gen_case(rng, rng.choice(["linear", "rel", "switch", "stepwise"]), 40)
        return {**inner, "kind": "ctl_float", "inner": inner["kind"], "script": [], "periods": rng.randint(5, 40),
                "window": rng.choice([0.1, 0.3, 0.7, 1.0, 2.5, 10.0, 1 / 3, 60.0]),
                "start": rng.choice([0.0, 0.3, 0.05, 1.7, 3.0, 123.456, 1e6 + 0.1])}
    elif stream == "factory_env":
        # between boundaries: demand goes up / down / stays, children disable themselves or lower
        # their own demand (their supply stays) - so that supply == demand, supply > demand and
        # supply < demand all meet children whose demands do not add up to the request
        case["kind"] = "factory_env"
        case["periods"] = min(case["periods"], 60)
        case["script"] = [rng.choice(["inc", "inc", "same", "same", "dec", "disable", "disable", "halve"]) for _ in range(case["periods"])]
        return case
    case["script"] = gen_script(rng, interval, periods, ["env"])
    return case


def build(case, pool, calls):
    kind = case["kind"]
    interval = unwire(case["interval"])   # an exact Fraction: trio.sleep accepts it, arithmetic stays exact
    if kind in ("linear", "rel"):
        c = C08.mkctl(case["ctl"], pool)
        c.interval = interval
        return c
    if kind == "switch":
        from cobald.controller.switch import DemandSwitch
        ctls = [C08.mkctl(c, None) for c in case["ctls"]]
        flat = []
        for t, i in case["slaves"]:
            tq = unwire(t)
            flat += [int(tq) if tq.denominator == 1 else float(tq), ctls[i]]
        return DemandSwitch(pool, ctls[0], *flat, interval=interval)
    if kind == "stepwise":
        from cobald.controller.stepwise import Stepwise
        def timed(rule):
            def wrapped(p, interval):
                pool.events.append(("rule", trio.current_time()))
                return rule(p, interval)
            return wrapped
        rules = [timed(C08.mkrule(s, i, calls)) for i, s in enumerate(case["rules"])]
        return Stepwise(pool, rules[0], *[(unwire(t), rules[i]) for t, i in case["table"]], interval=interval)
    if kind == "buffer":
        from cobald.decorator.buffer import Buffer
        return Buffer(pool, window=interval)
    raise ValueError(kind)


MARKER = {"linear": "read-util", "rel": "read-util", "switch": "read-util", "stepwise": "rule", "buffer": "read-demand"}


def impl(case):
    kind = case["kind"]
    interval = unwire(case["interval"])
    duration = float(interval * case["periods"] - interval / 8)
    if kind == "factory":
        return impl_factory(case, interval, duration)
    if kind == "factory_env":
        return impl_factory_env(case, interval, duration)
    if kind == "buffer_float":
        return impl_buffer_float(case)
    if kind == "ctl_float":
        return impl_ctl_float(case)
    p = case["pool"]
    pool = TimedPool(unwire(p["supply"]), unwire(p["demand"]), unwire(p["util"]), unwire(p["alloc"]))
    calls = []
    try:
        svc = build(case, pool, calls)
    except Exception as e:
        return {"ctor": type(e).__name__}
    init_target = canon(pool._demand)
    init_stored = canon(svc.demand) if kind == "buffer" else None
    del pool.events[:]
    err = []

    async def runner():
        try:
            await svc.run()
        except trio.Cancelled:
            raise
        except BaseException as e:
            err.append(type(e).__name__)

    async def env():
        for e in case["script"]:
            t = float(unwire(e[0]))
            await trio.sleep_until(t)
            if e[1] == "write":
                pool.events.append(("env-write", trio.current_time(), e[2]))
                svc.demand = unwire(e[2])
            else:
                pool.events.append(("env", trio.current_time(), e[2], e[3]))
                setattr(pool, "_" + ["supply", "utilisation", "allocation"][e[2]], unwire(e[3]))

    async def main():
        with trio.move_on_after(duration):
            async with trio.open_nursery() as nursery:
                nursery.start_soon(runner)
                nursery.start_soon(env)

    vclock.run(main)
    # fold the raw log into events: step (marker + following writes) / env
    marker = MARKER[kind]
    events, times, demands, target_writes = [], [], [], []
    cur = unwire(init_target)
    open_step = False
    for ev in pool.events:
        if ev[0] == marker and not (kind == "switch" and False):
            if kind == "switch" or kind in ("linear", "rel"):
                pass
            events.append(["step"]); times.append(ev[1]); demands.append(cur); open_step = True
        elif ev[0] == "write":
            cur = ev[2]
            target_writes.append([ev[1], canon(ev[2])])
            if open_step:
                demands[-1] = cur
        elif ev[0] == "env":
            events.append(["env", ev[2], ev[3]]); demands.append(cur); open_step = False
        elif ev[0] == "env-write":
            events.append(["write", ev[2]]); demands.append(cur); open_step = False
    return {"ctor": "ok", "events": events, "step_times": [canon(F(t)) for t in times], "demands": [canon(d) for d in demands],
            "error": err[0] if err else None, "target_writes": target_writes,
            "init": {"target": init_target, "stored": init_stored}}


def impl_factory(case, interval, duration):
    from cobald.composite.factory import FactoryPool
    times = []

    def factory():
        times.append(trio.current_time())
        return RecPool(1, 1, 1, 1)

    fp = FactoryPool(factory=factory, interval=float(interval))
    err = []

    async def runner():
        try:
            await fp.run()
        except trio.Cancelled:
            raise
        except BaseException as e:
            err.append(type(e).__name__)

    async def env():
        k = 0
        await trio.sleep(float(interval) / 2)
        while True:
            fp.demand = k + 1      # one more child needed per period, requested between boundaries
            k += 1
            await trio.sleep(float(interval))

    async def main():
        with trio.move_on_after(duration):
            async with trio.open_nursery() as nursery:
                nursery.start_soon(env)
                nursery.start_soon(runner)

    vclock.run(main)
    return {"ctor": "ok", "events": [["step"]] * len(times), "step_times": [canon(F(t)) for t in times], "demands": [],
            "error": err[0] if err else None, "target_writes": [], "init": {}}


def impl_buffer_float(case):
    from cobald.decorator.buffer import Buffer
    w, start = case["window"], case["start"]
    pool = RecPool(1, 0, 1, 1)
    writes = []          # (time, value) of every write that reaches the target
    orig = type(pool).demand.fset

    class P(RecPool):
        @property
        def demand(self):
            return self._demand

        @demand.setter
        def demand(self, v):
            writes.append((trio.current_time(), v))
            self._demand = v
    pool = P(1, 0, 1, 1)
    buf = Buffer(pool, window=w)
    env_writes, err = [], []

    async def runner():
        await trio.sleep(start)
        try:
            await buf.run()
        except trio.Cancelled:
            raise
        except BaseException as e:
            err.append(type(e).__name__)

    async def env():
        t0 = trio.current_time()
        for k, v in case["writes"]:
            await trio.sleep_until(t0 + start + (k + 0.5) * w)
            env_writes.append((trio.current_time(), v))
            buf.demand = v

    async def main():
        with trio.move_on_after(start + case["periods"] * w + w / 4):
            async with trio.open_nursery() as nursery:
                nursery.start_soon(runner)
                nursery.start_soon(env)

    vclock.run(main, limit=200000)
    return {"ctor": "ok", "error": err[0] if err else None, "writes": writes, "env": env_writes, "events": [], "step_times": [], "demands": [],
            "target_writes": [], "init": {}}


def impl_ctl_float(case):
    w, start = case["window"], case["start"]
    p = case["pool"]
    pool = TimedPool(unwire(p["supply"]), unwire(p["demand"]), unwire(p["util"]), unwire(p["alloc"]))
    inner = {**case, "kind": case["inner"]}
    try:
        svc = build(inner, pool, [])
        svc.interval = w
    except Exception as e:
        return {"ctor": type(e).__name__}
    del pool.events[:]
    err = []

    async def runner():
        await trio.sleep(start)
        try:
            await svc.run()
        except trio.Cancelled:
            raise
        except BaseException as e:
            err.append(type(e).__name__)

    async def main():
        with trio.move_on_after(start + case["periods"] * w - w / 8):
            await runner()

    try:
        vclock.run(main, limit=100000)
    except vclock.Livelock:
        err.append("Livelock")
    times = [ev[1] for ev in pool.events if ev[0] == MARKER[case["inner"]]]
    return {"ctor": "ok", "error": err[0] if err else None, "times": times[:2000], "events": [], "step_times": [], "demands": [],
            "target_writes": [], "init": {}}


def impl_factory_env(case, interval, duration):
    """a FactoryPool under a scripted environment: between two boundaries the environment acts once; the
    state is recorded after its action and again shortly after the next boundary"""
    from cobald.composite.factory import FactoryPool
    from . import C15
    made = []
    spawned = [0]

    def factory():
        c = RecPool(1, 1, 1, 1, name="child%d" % len(made))
        c.cid = 1000 + spawned[0]
        spawned[0] += 1
        made.append(c)
        return c

    fp = FactoryPool(factory=factory, interval=float(interval))
    fp._vh_spawned = spawned
    err, samples, trace = [], [], []
    obs = [C15.snap(fp, None)]
    rnd = __import__("random").Random(json.dumps(case["script"]))

    async def runner():
        try:
            await fp.run()
        except trio.Cancelled:
            raise
        except BaseException as e:
            err.append(type(e).__name__)

    async def env():
        await trio.sleep(float(interval) / 2)
        for act in case["script"]:
            active = sorted(fp._hatchery, key=lambda c: c.cid)
            op = None
            if act == "inc":
                fp.demand = fp.demand + 1
                op = ["D", wire(F(fp.demand))]
            elif act == "dec" and fp.demand >= 1:
                fp.demand = fp.demand - 1
                op = ["D", wire(F(fp.demand))]
            elif act == "disable" and active:
                c = rnd.choice(active)
                c.demand = 0
                op = ["c", c.cid, 3, "0/1"]
            elif act == "halve" and active:
                c = rnd.choice(active)
                c.demand = F(c.demand) / 2
                op = ["c", c.cid, 3, wire(F(c.demand))]
            del active
            if op is not None:
                trace.append(op)
                obs.append(C15.snap(fp, None))
            order = [c.cid for c in fp._hatchery]
            await trio.sleep(float(interval) * 0.75)      # the boundary lies in between
            trace.append(["adj", order])
            obs.append(C15.snap(fp, None) if not err else "error")
            act_now = list(fp._hatchery)
            samples.append({"t": trio.current_time(), "request": canon(F(fp.demand)),
                            "active_demand": canon(sum((F(c.demand) for c in act_now), F(0))),
                            "active_supply": canon(F(fp.supply)),
                            "idle_active": sum(1 for c in act_now if c.demand <= 0),
                            "both": len(set(fp._hatchery) & set(fp._mortuary)), "made": len(made)})
            del act_now
            if err:
                break
            await trio.sleep(float(interval) * 0.25)

    async def main():
        with trio.move_on_after(duration):
            async with trio.open_nursery() as nursery:
                nursery.start_soon(runner)
                await trio.sleep(0)
                await env()
                nursery.cancel_scope.cancel()

    vclock.run(main)
    return {"ctor": "ok", "events": [], "step_times": [], "demands": [], "error": err[0] if err else None,
            "target_writes": [], "init": {}, "samples": samples, "trace": trace, "obs": obs}


def line(case, o):
    if o.get("ctor") != "ok" or case["kind"] in ("buffer_float", "ctl_float"):
        return None
    if case["kind"] == "factory_env":
        return {"kind": "factory_env", "children": [], "ops": o["trace"],
                "factory": [{"id": 0, "supply": "1/1", "util": "1/1", "alloc": "1/1", "demand": "1/1"}]}
    kind = case["kind"]
    base = {"interval": case["interval"], "pre": kind == "factory", "events": o["events"]}
    if kind == "factory":
        return {**base, "kind": "times"}
    if kind == "buffer":
        return {**base, "kind": "buffer", "stored": o["init"]["stored"], "target": o["init"]["target"]}
    d = {**base, "kind": kind, "pool": case["pool"]}
    for k in ("ctl", "ctls", "slaves", "rules", "table"):
        if k in case:
            d[k] = case[k]
    return d


def expect(case, o, m):
    if "driver_error" in m:
        return o, m
    if case["kind"] == "factory_env":
        return o["obs"], m.get("obs")
    a = {"step_times": o["step_times"], "demands": o["demands"] if case["kind"] != "factory" else []}
    return a, {"step_times": m["step_times"], "demands": m["demands"]}


def oracle(case, o):
    out = []
    if o.get("ctor") != "ok":
        return [("constructor:%s" % o.get("ctor"), "constructing the service raised %s" % o.get("ctor"))]
    kind = case["kind"]
    interval = unwire(case["interval"])
    if o["error"]:
        out.append(("run-raised:%s:%s" % (kind, o["error"]), "%s.run() raised %s on a well-behaved pool" % (kind, o["error"])))
    if kind == "buffer_float":
        w, start = case["window"], case["start"]
        if o["error"]:
            return [("run-raised:buffer:%s" % o["error"], "Buffer.run() raised %s" % o["error"])]
        for t, v in o["writes"]:
            x = (t - start) / w
            if abs(x - round(x)) > 1e-6:
                out.append(("buffer-not-quiet", "window %r started at %r: the target was written at %r, between boundaries" % (w, start, t)))
                return out
        # at the boundary after each write of a new value the target gets it
        last = 0
        for te, v in o["env"]:
            k = int((te - start) / w) + 1                    # the next boundary
            tb = start + k * w
            if tb > start + case["periods"] * w:
                continue
            later = [x for x in o["env"] if te < x[0] < tb - 1e-9]
            if later:
                continue
            if v != last and not any(abs(t - tb) < 1e-6 and val == v for t, val in o["writes"]):
                out.append(("buffer-flush", "window %r started at %r: %r written at %r did not reach the target at the boundary %r" % (w, start, v, te, tb)))
                return out
            last = v
        return out
    if kind == "ctl_float":
        w, start = case["window"], case["start"]
        if o["error"] == "Livelock":
            return [("ctl-spins:%s" % case["inner"], "%s with interval %r started at %r: more than 100000 task steps without virtual time passing (%d regulation steps so far)" % (case["inner"], w, start, len(o["times"])))]
        if o["error"]:
            return [("run-raised:%s:%s" % (case["inner"], o["error"]), "%s.run() raised %s on a well-behaved pool" % (case["inner"], o["error"]))]
        want = [start + k * w for k in range(case["periods"])]
        tol = 1e-6 * max(1.0, w) + 1e-9 * start
        if len(o["times"]) != len(want) or any(abs(a - b) > tol for a, b in zip(o["times"], want)):
            i = next((i for i, (a, b) in enumerate(zip(o["times"], want)) if abs(a - b) > tol), min(len(want), len(o["times"])))
            out.append(("step-times:%s" % case["inner"], "%s with interval %r started at %r: %d steps at %r..., expected %d steps at start + k*interval (first difference at step %d)" % (case["inner"], w, start, len(o["times"]), o["times"][max(0, i - 1):i + 2], len(want), i)))
        return out
    if kind == "factory_env":
        # after every boundary the adjustment has been made: no active child without demand, nobody both
        # active and released, and - whenever the pool had less supply than requested or exactly as much
        # (the growing branch) - the children's demands cover the request again
        for sm in o["samples"]:
            if sm["idle_active"]:
                out.append(("factory-boundary-skipped", "t=%s: %d active child(ren) with no demand left after an interval boundary (request %s, active demand %s)" % (sm["t"], sm["idle_active"], sm["request"], sm["active_demand"])))
                break
            if sm["both"]:
                out.append(("factory-both", "t=%s: a child is both active and released" % sm["t"]))
                break
            if unwire(sm["active_supply"]) <= unwire(sm["request"]) and unwire(sm["active_demand"]) < unwire(sm["request"]):
                out.append(("factory-boundary-skipped", "t=%s: active demand %s does not cover the request %s after an interval boundary although the pool's supply %s does not exceed it" % (sm["t"], sm["active_demand"], sm["request"], sm["active_supply"])))
                break
        return out
    times = [unwire(t) for t in o["step_times"]]
    first = interval if kind == "factory" else F(0)
    expect_n = case["periods"] - (1 if kind == "factory" else 0)
    want = [first + k * interval for k in range(expect_n)]
    if times != want and not o["error"]:
        i = next((j for j, (a, b) in enumerate(zip(times, want)) if a != b), min(len(times), len(want)))
        out.append(("step-times:%s" % kind, "%d steps at %s..., expected %d steps at k*interval (first difference at step %d)" % (len(times), [str(t) for t in times[:4]], len(want), i)))
    if kind == "linear" and not o["error"]:
        rate = unwire(case["ctl"]["rate"])
        # demand over time: sample pairs of step indices
        ds = [unwire(d) for e, d in zip(o["events"], o["demands"]) if e[0] == "step"]
        for i in range(0, len(ds), 7):
            for j in range(i, min(len(ds), i + 40), 5):
                span = times[j] - times[i]
                if abs(ds[j] - ds[i]) > rate * (span + interval):
                    out.append(("linear-drift", "demand moved by %s over a span of %s (> rate x (span + interval) = %s)" % (abs(ds[j] - ds[i]), span, rate * (span + interval))))
                    return out
    if kind == "buffer" and not o["error"]:
        for t, v in o["target_writes"]:
            if F(t) / interval != int(F(t) / interval):
                out.append(("buffer-not-quiet", "the target was written at %s, between window boundaries" % t))
                break
        stored = unwire(o["init"]["stored"])
        for e, d in zip(o["events"], o["demands"]):
            if e[0] == "write":
                stored = unwire(e[1])
            elif e[0] == "step" and unwire(d) != stored:
                out.append(("buffer-flush", "after a boundary the target has %s, last value written to the buffer is %s" % (d, stored)))
                break
    return out


def nontrivial(case, o):
    return case["periods"] >= 5 and (len(case.get("script", [])) > 0 or case["kind"] in ("factory", "ctl_float"))


def shrinks(case):
    if case["kind"] == "buffer_float":
        return
    if case["kind"] == "ctl_float":
        if case["periods"] > 2:
            yield {**case, "periods": case["periods"] // 2}
        if case["start"]:
            yield {**case, "start": 0.0}
        return
    if case["kind"] == "factory_env":
        sc = case["script"]
        if len(sc) > 1:
            yield {**case, "script": sc[:len(sc) // 2], "periods": max(2, len(sc) // 2 + 1)}
            yield {**case, "script": sc[:-1], "periods": max(2, len(sc))}
        for i in range(len(sc)):
            if sc[i] != "same":
                yield {**case, "script": sc[:i] + ["same"] + sc[i + 1:]}
        return
    if case["periods"] > 2:
        yield {**case, "periods": case["periods"] // 2, "script": [e for e in case.get("script", []) if unwire(e[0]) < unwire(case["interval"]) * (case["periods"] // 2)]}
    sc = case.get("script", [])
    for i in range(len(sc)):
        yield {**case, "script": sc[:i] + sc[i + 1:]}


def run(ctx):
    for s in STREAMS:
        rng = ctx.rng(s)
        n = ctx.n(60, 500) if not s.startswith("factory") else (ctx.n(10, 60) if s == "factory" else ctx.n(40, 400)) if s not in ("buffer_float", "ctl_float") else ctx.n(60, 600)
        cases = [gen_case(rng, s, ctx.n(120, 500)) for _ in range(n)]
        corr.run_stream(ctx, s, cases, impl, line, oracle, nontrivial, shrinks, expect)


def replay(payload):
    case = payload.get("case") or payload["disagreements"][0]["case"]
    o = impl(case)
    v = oracle(case, o)
    print(json.dumps({"impl": {k: (x if k not in ("events", "demands", "step_times", "target_writes") else x[:10]) for k, x in o.items()}, "oracle": v}, indent=1, default=str))
    return 1 if v else 0

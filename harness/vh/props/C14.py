"""C14 — Config sections are validated, then digested once each in constraint order."""
import json

from .. import corr

STREAMS = ["plugins", "direct"]
REGENERATE_SRC = True
RULE = ("0..8 section plugins with random acyclic before/after graphs (plus constraints naming absent plugins, "
        "self-constraints, occasional cycles) given as list / tuple / set / generator / iterator, loaded twice, required flags, digests returning None or a value; configs = subsets "
        "of the sections ± unknown sections (incl. names that are parts of the word 'logging' and the empty name) ± a logging section; in 40% the same plugin objects have been loaded before with only some of them installed; section content = a mapping, or (30 %) None / 0 / False / "
        "'' / [] / {} / a list / a string, handed to the digest by identity; entry points substituted in "
        "cobald.daemon.core.config.get_entrypoints; non-trivial = at least two plugins called and at least one "
        "constraint between installed plugins; distinct = distinct canonical case JSON")
ASSUMPTIONS = ["the entrypoints API (substituted by generated objects with name/load()/extras)",
               "toposort package: re-implemented in Lean (Model/Sections.lean peel) and compared layer by layer up to the order inside one layer"]
TRUSTED = ["toposort 1.10 (modelled, compared)", "logging.config.dictConfig for the logging section"]


def as_iterable(names, kind):
    """constraints() takes any iterable of names: a list, a tuple, a set, or a one-shot iterator"""
    if kind == "tuple":
        return tuple(names)
    if kind == "set":
        return set(names)
    if kind == "generator":
        return (n for n in names)
    if kind == "iter":
        return iter(list(names))
    return list(names)


class FakeEntry:
    def __init__(self, name, obj):
        self.name, self._obj, self.extras = name, obj, None

    def load(self):
        return self._obj


CONTENT_KINDS = ["none", "none", "zero", "false", "empty-str", "empty-list", "empty-map", "list", "str"]


def content_of(kind, k):
    return {"none": None, "zero": 0, "false": False, "empty-str": "", "empty-list": [], "empty-map": {},
            "list": [k, 1], "str": "text of %s" % (k,)}.get(kind, {"content-of": k})


def gen_case(rng):
    n = rng.randint(0, 8)
    names = ["s%d" % i for i in range(n)]
    hidden = names[:]
    rng.shuffle(hidden)
    pos = {s: i for i, s in enumerate(hidden)}
    absent = ["zz1", "zz2"]
    plugins = []
    cyc = rng.random() < 0.06
    for s in names:
        after, before = [], []
        for t in names:
            if t == s:
                continue
            if pos[t] < pos[s] and rng.random() < 0.25:
                after.append(t)
            if pos[t] > pos[s] and rng.random() < 0.25:
                before.append(t)
        if rng.random() < 0.15:
            after.append(rng.choice(absent))
        if rng.random() < 0.15:
            before.append(rng.choice(absent))
        if rng.random() < 0.05:
            after.append(s)
        plugins.append({"name": s, "required": rng.random() < 0.2, "before": before, "after": after,
                        "iter": rng.choice(["list", "list", "tuple", "set", "generator", "iter"])})
    if cyc and n >= 2:
        a, b = rng.sample(range(n), 2)
        plugins[a]["after"].append(names[b])
        plugins[b]["after"].append(names[a])
    rng.shuffle(plugins)
    present = [s for s in names if rng.random() < 0.7]
    if rng.random() < 0.5:
        present = names[:]  # all required ones satisfied
    cfg = present[:]
    if rng.random() < 0.12:
        cfg.append(rng.choice(["unknown", "pipelin", "zz1", "log", "logg", "ogging", "in", "g", "", "Logging", "logging2", "loggin", "s",
                               # a YAML mapping key need not be text (`1: x`, `~: x`, `2.5: x`, `yes: x`): still an unknown section
                               1, None, 2.5, True]))
    if rng.random() < 0.3:
        cfg.append("logging")
    rng.shuffle(cfg)
    returns = [s for s in names if rng.random() < 0.5]
    # what the section holds: mostly a mapping, sometimes nothing at all (`section:` with an empty
    # body in YAML) or another falsy value - present is present
    content = {s: rng.choice(CONTENT_KINDS) for s in cfg if s != "logging" and rng.random() < 0.3}
    case = {"plugins": plugins, "cfg": cfg, "returns": returns, "content": content}
    if rng.random() < 0.4:
        # the same plugin objects have been loaded before in this process while only some of them were
        # installed (another entry point group, an earlier configuration): that load is over and done with
        case["pre"] = [s for s in names if rng.random() < 0.6]
    return case


def impl(case):
    import cobald.daemon.core.config as core
    from cobald.daemon.config.mapping import load_configuration, ConfigurationError
    from cobald.daemon.plugins import constraints
    from toposort import CircularDependencyError
    log = []
    entries = []
    for p in case["plugins"]:
        def digest(data, name=p["name"]):
            log.append([name, data])
            return ("kept", name) if name in case["returns"] else None
        digest = constraints(before=as_iterable(p["before"], p.get("iter")), after=as_iterable(p["after"], p.get("iter")),
                             required=p["required"])(digest)
        entries.append(FakeEntry(p["name"], digest))
    orig = core.get_entrypoints
    if case.get("pre") is not None:
        core.get_entrypoints = lambda group: [e for e in entries if e.name in case["pre"]]
        try:
            core.load_section_plugins("vh.group.earlier")
        except Exception:
            pass
        finally:
            core.get_entrypoints = orig
    core.get_entrypoints = lambda group: list(entries)
    try:
        try:
            plugins = core.load_section_plugins("vh.group")
        except CircularDependencyError:
            return {"order": "cycle"}
        except Exception as e:
            return {"order": "error:%s" % type(e).__name__}
    finally:
        core.get_entrypoints = orig
    order = [p.section for p in plugins]
    # the plugins are loaded again later in the same process (a second configuration, a reload)
    core.get_entrypoints = lambda group: list(entries)
    try:
        try:
            again = [p.section for p in core.load_section_plugins("vh.group")]
        except Exception as e:
            again = "error:%s" % type(e).__name__
    finally:
        core.get_entrypoints = orig
    cfg = {k: ({"version": 1} if k == "logging" else content_of(case.get("content", {}).get(k), k)) for k in case["cfg"]}
    try:
        content = load_configuration(dict(cfg), plugins)
        outcome = {"kept": sorted(p.section for p in content)}
        vals_ok = all(v == ("kept", p.section) for p, v in content.items())
    except ConfigurationError as e:
        outcome = {"error": "ConfigurationError"}
        vals_ok = True
    except Exception as e:
        outcome = {"error": type(e).__name__}
        vals_ok = True
    return {"order": order, "order_again": again, "outcome": outcome, "log": [l[0] for l in log],
            "data_ok": all(l[1] is cfg[l[0]] for l in log) and vals_ok}


def line(case, o):
    order = o["order"] if isinstance(o["order"], list) else []
    # (section names that are not text are unknown sections to the model, whatever they are)
    cfg = [k if isinstance(k, str) else "\u0001not-text:%r" % (k,) for k in case["cfg"]]
    return {"plugins": case["plugins"], "order": order, "cfg": cfg, "returns": case["returns"]}


def order_matches_layers(order, layers):
    i = 0
    for l in layers:
        if sorted(order[i:i + len(l)]) != sorted(l):
            return False
        i += len(l)
    return i == len(order)


def expect(case, o, m):
    if "driver_error" in m:
        return o, m
    if m["layers"] is None:
        return o["order"], "cycle"
    if not isinstance(o["order"], list):
        return o["order"], "layers:%s" % m["layers"]
    if not order_matches_layers(o["order"], m["layers"]):
        return {"order": o["order"]}, {"layers": m["layers"]}
    if not (isinstance(o.get("order_again"), list) and order_matches_layers(o["order_again"], m["layers"])):
        return {"order_of_second_load": o.get("order_again")}, {"layers": m["layers"]}
    mo = m["outcome"]
    if "error" in mo:
        mo = {"error": "ConfigurationError"}
    else:
        mo = {"kept": sorted(mo["kept"])}
    return {"outcome": o["outcome"], "log": o["log"]}, {"outcome": mo, "log": m["log"]}


def has_cycle(case):
    names = {p["name"] for p in case["plugins"]}
    deps = {p["name"]: {a for a in p["after"] if a in names and a != p["name"]} for p in case["plugins"]}
    for p in case["plugins"]:
        for b in p["before"]:
            if b in names and b != p["name"]:
                deps[b].add(p["name"])
    done = set()
    while True:
        ready = {k for k, d in deps.items() if k not in done and d <= done}
        if not ready:
            break
        done |= ready
    return len(done) != len(deps)


def oracle(case, o):
    out = []
    names = [p["name"] for p in case["plugins"]]
    byname = {p["name"]: p for p in case["plugins"]}
    if has_cycle(case):
        return out  # outside "acyclic constraint graphs"
    if not isinstance(o["order"], list):
        return [("order-error:%s" % o["order"], "ordering the plugins failed (%s) although the constraints between installed plugins are acyclic" % o["order"])]
    order = o["order"]
    if sorted(order) != sorted(names):
        out.append(("order-not-permutation", "plugin order %r is not a permutation of %r" % (order, names)))
        return out
    for which, od in (("", order), (" (second load of the same plugins)", o.get("order_again", order))):
        if not isinstance(od, list) or sorted(od) != sorted(names):
            out.append(("order-not-permutation", "plugin order%s %r is not a permutation of %r" % (which, od, names)))
            return out
        idx = {s: i for i, s in enumerate(od)}
        for p in case["plugins"]:
            for a in p["after"]:
                if a in idx and a != p["name"] and not idx[a] < idx[p["name"]]:
                    out.append(("after-violated", "%s must run after %s; order%s %r" % (p["name"], a, which, od)))
            for b in p["before"]:
                if b in idx and b != p["name"] and not idx[p["name"]] < idx[b]:
                    out.append(("before-violated", "%s must run before %s; order%s %r" % (p["name"], b, which, od)))
        if out:
            return out
    cfg = [k for k in case["cfg"] if k != "logging"]
    unknown = [k for k in cfg if k not in names]
    missing = [s for s in names if byname[s]["required"] and s not in cfg]
    if unknown:
        if o["outcome"] != {"error": "ConfigurationError"} or o["log"]:
            out.append(("unknown-section", "unknown sections %r: outcome %r, plugins already called: %r" % (unknown, o["outcome"], o["log"])))
    elif missing:
        if o["outcome"] != {"error": "ConfigurationError"}:
            out.append(("missing-required", "required sections %r missing but loading gave %r" % (missing, o["outcome"])))
    else:
        exp_log = [s for s in order if s in cfg]
        if o["log"] != exp_log:
            out.append(("digest-log", "digests called %r, expected each present section once in order: %r" % (o["log"], exp_log)))
        exp_kept = sorted(s for s in exp_log if s in case["returns"])
        if o["outcome"] != {"kept": exp_kept}:
            out.append(("kept-results", "kept %r, expected %r" % (o["outcome"], exp_kept)))
        if not o.get("data_ok"):
            out.append(("digest-data", "a digest did not receive exactly its section's content / a kept value is wrong"))
    return out


def nontrivial(case, o):
    names = {p["name"] for p in case["plugins"]}
    edges = sum(1 for p in case["plugins"] for x in p["before"] + p["after"] if x in names and x != p["name"])
    return isinstance(o.get("log"), list) and len(o["log"]) >= 2 and edges >= 1


def shrinks(case):
    ps = case["plugins"]
    for i in range(len(ps)):
        yield {**case, "plugins": ps[:i] + ps[i + 1:], "cfg": [c for c in case["cfg"] if c != ps[i]["name"]]}
    for i, p in enumerate(ps):
        for key in ("before", "after"):
            for j in range(len(p[key])):
                q = {**p, key: p[key][:j] + p[key][j + 1:]}
                yield {**case, "plugins": ps[:i] + [q] + ps[i + 1:]}
    for j in range(len(case["cfg"])):
        yield {**case, "cfg": case["cfg"][:j] + case["cfg"][j + 1:]}


# ---- stream "direct": load_configuration called with a hand-made list of plugins (several of them may digest the
# same section: "any set of section plugins"); judged by the oracle only

def gen_direct(rng):
    n = rng.randint(0, 6)
    secs = ["a", "b", "c", "pipeline"]
    plugins = [{"section": rng.choice(secs), "required": rng.random() < 0.15, "returns": rng.random() < 0.6} for _ in range(n)]
    cfg = [x for x in secs if rng.random() < 0.7]
    return {"kind": "direct", "plugins": plugins, "cfg": cfg, "logging": rng.random() < 0.3}


def impl_direct(case):
    from cobald.daemon.config.mapping import load_configuration, ConfigurationError, SectionPlugin
    from cobald.daemon.plugins import PluginRequirements
    log, objs = [], []
    for i, p in enumerate(case["plugins"]):
        def digest(data, i=i, p=p):
            log.append([i, data])
            return ("kept", i) if p["returns"] else None
        objs.append(SectionPlugin(section=p["section"], digest=digest, requirements=PluginRequirements(required=p["required"])))
    cfg = {k: {"content-of": k} for k in case["cfg"]}
    if case.get("logging"):
        cfg["logging"] = {"version": 1}
    try:
        content = load_configuration(dict(cfg), tuple(objs))
    except ConfigurationError:
        return {"outcome": "ConfigurationError", "log": [l[0] for l in log]}
    kept = []
    for i, o in enumerate(objs):
        hits = [v for k, v in content.items() if k is o]
        if hits:
            kept.append([i, hits[0] == ("kept", i)])
    return {"outcome": "loaded", "log": [l[0] for l in log], "kept": kept, "entries": len(content),
            "data_ok": all(l[1] is cfg[case["plugins"][l[0]]["section"]] for l in log)}


def oracle_direct(case, o):
    ps = case["plugins"]
    unknown = [k for k in case["cfg"] if all(p["section"] != k for p in ps)]
    if unknown:
        if o["outcome"] != "ConfigurationError" or o["log"]:
            return [("unknown-section", "unknown sections %r: outcome %r, plugins already called: %r" % (unknown, o["outcome"], o["log"]))]
        return []
    missing = [i for i, p in enumerate(ps) if p["required"] and p["section"] not in case["cfg"]]
    if missing:
        return [] if o["outcome"] == "ConfigurationError" else [("required-missing", "a required plugin's section is missing but loading gave %r" % o["outcome"])]
    if o["outcome"] != "loaded":
        return [("load-error", "loading a valid configuration raised %s" % o["outcome"])]
    want = [i for i, p in enumerate(ps) if p["section"] in case["cfg"]]
    out = []
    if o["log"] != want:
        out.append(("calls", "plugins called %r, expected each plugin whose section is present exactly once, in the given order: %r" % (o["log"], want)))
    keep = [[i, True] for i in want if ps[i]["returns"]]
    if o["kept"] != keep or o["entries"] != len(keep):
        out.append(("results-not-kept", "results kept for %r (%d entries), expected every non-None result under its own plugin: %r" % (o["kept"], o["entries"], keep)))
    if not o["data_ok"]:
        out.append(("section-content", "a plugin was not called with exactly its section's content"))
    return out


def run(ctx):
    rng = ctx.rng("plugins")
    cases = [gen_case(rng) for _ in range(ctx.n(3000, 40000))]
    corr.run_stream(ctx, "plugins", cases, impl, line, oracle, nontrivial, shrinks, expect)
    for c in cases:
        ctx.tally("n=%d" % len(c["plugins"]))
    rng = ctx.rng("direct")
    direct = [gen_direct(rng) for _ in range(ctx.n(1500, 15000))]
    corr.run_stream(ctx, "direct", direct, impl_direct, lambda c, o: None, oracle_direct,
                    lambda c, o: len(c["plugins"]) >= 2 and o.get("outcome") == "loaded")


def replay(payload):
    case = payload.get("case") or payload["disagreements"][0]["case"]
    if case.get("kind") == "direct":
        o = impl_direct(case)
        v = oracle_direct(case, o)
        print(json.dumps({"impl": o, "oracle": v}, indent=1))
        return 1 if v else 0
    o = impl(case)
    v = oracle(case, o)
    print(json.dumps({"impl": o, "oracle": v}, indent=1))
    return 1 if v else 0

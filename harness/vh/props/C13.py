"""C13 — The daemon runs its configured pipeline until stopped; failures set exit status."""
import json
import os
import shutil
import signal
import subprocess
import sys
import tempfile
import time
from concurrent.futures import ThreadPoolExecutor

from .. import lean
from ..rt import engine

STREAMS = ["daemon-processes"]
REGENERATE_SRC = True
RULE = ("real child processes `python -m cobald.daemon <config>` with generated YAML (!Tag and __type__ elements, "
        "optional logging section) and Python configurations (pipelines built with >>), pipeline lengths 1..6, services "
        "of all three flavours, instrumented classes that append to an event file (constructed-with-running-loop, run "
        "started, heartbeat, cancelled); one SIGINT sent directly to the python pid at a random time after start; every "
        "kind of configuration error (syntax, unknown section, unknown tag, constructor error, missing pipeline, unknown "
        "extension, missing file, empty / comment-only / null / {} / [] documents, a shipped !Tag element whose arguments only fail when it is bound to its target, a pipeline of tags that forgets its pool); Python configurations that define a dataclass with postponed annotations, pickle an object of a class they define, or look themselves up in sys.modules; a service failing at a random time "
        "with one of 15 failure kinds (Exception subclasses incl. the OSError family without errno, SystemExit, other "
        "BaseExceptions, a returned value); services and pools that are falsy objects (container-like, __len__ == 0); the child's events are replayed on the runtime "
        "LTS (same acceptor as C01..C12); non-trivial = every case; distinct = distinct configuration text + scenario")
ASSUMPTIONS = ["interpreter start-up and shutdown, signal delivery and garbage collection are outside the model",
               "the child is given 8 s to exit by itself on an error ('never stays up idle')"]
TRUSTED = ["the instrumented module written into a temporary directory on the child's PYTHONPATH"]

MODULE = r'''
import asyncio, gc, os, threading, time
import trio
from cobald.interfaces import Pool, Controller, PoolDecorator
from cobald.daemon import service

_LOCK = threading.Lock()
def ev(*parts):
    with _LOCK:
        with open(os.environ["VH_EVENT_FILE"], "a") as f:
            f.write(" ".join(str(p) for p in parts) + "\n")

def _loop_running():
    try:
        asyncio.get_running_loop()
        return True
    except RuntimeError:
        return False

def _gc():
    while True:
        gc.collect()
        time.sleep(0.02)
threading.Thread(target=_gc, daemon=True).start()

class VhBase(BaseException):
    pass

def _fail(name, kind):
    """how a service fails: (nearly) any exception class, or a value returned from run"""
    ev("failing", name, kind)
    if kind == "value":
        return 0
    if kind == "SystemExit3":
        raise SystemExit(3)
    if kind == "SystemExitMsg":
        raise SystemExit("fatal: backend lost")
    if kind == "VhBase":
        raise VhBase("service %s fails" % name)
    if kind == "TimeoutError":
        raise TimeoutError()
    if kind == "ConnectionError":
        raise ConnectionError("peer lost")
    if kind == "OSErrorMsg":
        raise OSError("no errno here")
    if kind == "OSErrorErrno0":
        raise OSError(0, "Success")
    import builtins
    raise getattr(builtins, kind)("service %s fails" % name)

class BasePool(Pool):
    supply = demand = utilisation = allocation = 0
    def __init__(self, name="pool", **kw):
        self.name = name
        ev("constructed", name, _loop_running())

def _falsy(cls):
    """the same class, but an instance is falsy (a container-like pool without children)"""
    class F(cls):
        def __len__(self):
            return 0
    F.__name__ = F.__qualname__ = cls.__name__ + "Falsy"
    return F

def _mk(base, flavour, fname):
    if flavour is None:
        class C(base):
            supply = demand = utilisation = allocation = 0
            def __init__(self, target, name="x", fail_after=None, **kw):
                base.__init__(self, target)
                self.name = name
                ev("constructed", name, _loop_running())
        return C
    if fname == "thr":
        @service(flavour=flavour)
        class C(base):
            supply = demand = utilisation = allocation = 0
            def __init__(self, target, name="x", fail_after=None, fail_kind="ValueError", **kw):
                base.__init__(self, target)
                self.name, self.fail_after, self.fail_kind = name, fail_after, fail_kind
                ev("constructed", name, _loop_running())
            def run(self):
                ev("run-started", self.name, threading.get_ident())
                t0 = time.monotonic()
                while True:
                    ev("beat", self.name)
                    if self.fail_after is not None and time.monotonic() - t0 >= self.fail_after:
                        return _fail(self.name, self.fail_kind)
                    time.sleep(0.02)
        return C
    sleep = asyncio.sleep if fname == "aio" else trio.sleep
    cancelled = asyncio.CancelledError if fname == "aio" else trio.Cancelled
    @service(flavour=flavour)
    class C(base):
        supply = demand = utilisation = allocation = 0
        def __init__(self, target, name="x", fail_after=None, fail_kind="ValueError", **kw):
            base.__init__(self, target)
            self.name, self.fail_after, self.fail_kind = name, fail_after, fail_kind
            ev("constructed", name, _loop_running())
        async def run(self):
            ev("run-started", self.name, threading.get_ident())
            t0 = time.monotonic()
            try:
                while True:
                    ev("beat", self.name)
                    if self.fail_after is not None and time.monotonic() - t0 >= self.fail_after:
                        return _fail(self.name, self.fail_kind)
                    await sleep(0.02)
            except cancelled:
                ev("cancelled", self.name)
                raise
    return C

CtlAio = _mk(Controller, asyncio, "aio")
CtlTrio = _mk(Controller, trio, "trio")
CtlThr = _mk(Controller, threading, "thr")
DecoAio = _mk(PoolDecorator, asyncio, "aio")
DecoTrio = _mk(PoolDecorator, trio, "trio")
DecoThr = _mk(PoolDecorator, threading, "thr")
DecoPlain = _mk(PoolDecorator, None, None)
for _n in ("CtlAio", "CtlTrio", "CtlThr", "DecoAio", "DecoTrio", "DecoThr", "DecoPlain"):
    globals()[_n + "Falsy"] = _falsy(globals()[_n])
BasePoolFalsy = _falsy(BasePool)
def boom(*a, **k):
    raise RuntimeError("constructor fails")
'''

FLV = ["Aio", "Trio", "Thr"]
FAIL_KINDS = ["ValueError", "ValueError", "KeyError", "LookupError", "RuntimeError", "AssertionError", "TimeoutError",
              "ConnectionError", "OSErrorMsg", "OSErrorErrno0", "SystemExit3", "SystemExitMsg", "VhBase", "GeneratorExit", "value"]
BASE_KINDS = ("SystemExit3", "SystemExitMsg", "VhBase", "GeneratorExit")
EMPTY_DOCS = {"empty-file": "", "only-comments": "# nothing here\n# at all\n", "empty-document": "---\n...\n",
              "null-document": "null\n", "empty-mapping": "{}\n", "empty-list": "[]\n", "scalar-document": "42\n"}


def gen_case(rng, i):
    kind = rng.choice(["valid", "valid", "valid", "failing-service", "bad-config", "bad-config", "bad-ext"])
    n = rng.randint(1, 6)
    elems = []
    for j in range(n - 1):
        cls = ("Ctl" if j == 0 else "Deco") + rng.choice(FLV + (["Plain"] if j > 0 else []))
        elems.append({"cls": cls, "name": "e%d" % j, "svc": not cls.endswith("Plain"), "falsy": rng.random() < 0.15})
    fmt = rng.choice(["yaml", "yaml", "py"])
    if kind == "valid" and rng.random() < 0.25:
        # a long pipeline of plain decorators (more than one 4096 / 8192 character buffer of text)
        k = rng.choice([60, 130, 260])
        elems[1:1] = [{"cls": "DecoPlain", "name": "x%d" % j, "svc": False, "falsy": False} for j in range(k)] if elems else []
    case = {"kind": kind, "fmt": fmt, "elems": elems, "padding": rng.choice([0, 0, 0, 5000, 9000]), "logging": rng.random() < 0.3, "delay": rng.choice([0.0, 0.05, 0.15, 0.3]),
            "falsy_pool": rng.random() < 0.15}
    if kind == "failing-service":
        svcs = [e for e in elems if e["svc"]]
        if not svcs:
            elems.insert(0, {"cls": "CtlTrio", "name": "e0x", "svc": True})
            svcs = [elems[0]]
        f = rng.choice(svcs)
        f["fail_after"] = rng.choice([0.0, 0.05, 0.2])
        f["fail_kind"] = rng.choice(FAIL_KINDS)
    if kind == "bad-config":
        case["error"] = rng.choice(["syntax", "unknown-section", "unknown-tag", "ctor-error", "no-pipeline", "missing-file", "python-tag",
                                    "tag-bad-value", "tag-bad-value", "tag-no-pool", "tag-no-pool", "tag-bad-kwarg"] + sorted(EMPTY_DOCS))
        if fmt == "py":
            case["error"] = rng.choice(["syntax", "ctor-error", "missing-file", "name-error"])
        if case["error"].startswith("tag-") and rng.random() < 0.6:
            # nothing but tag elements and the pool: no element that would fail for want of a target
            del elems[:]
        if case["error"] == "tag-bad-value":
            case["badtag"] = rng.choice(BAD_TAGS)
        if case["error"] == "tag-no-pool":
            case["badtag"] = rng.choice(TAGS)
    if fmt == "yaml" and kind != "bad-ext" and rng.random() < 0.4:
        # elements given by the shipped YAML tags (!Standardiser ...) in between: they reach the pipeline as
        # unbound objects and are bound to their target there
        case["tags"] = sorted(rng.sample(range(1, len(elems) + 1), rng.randint(1, min(2, len(elems))))) if elems else [0]
        case["tagkinds"] = [rng.choice(TAGS) for _ in case["tags"]]
    if fmt == "py" and rng.random() < 0.5:
        case["pyextra"] = rng.choice(["dataclass", "pickle", "selfmod"])
    if kind == "bad-ext":
        case["ext"] = rng.choice([".txt", ".json", "", "", ".", ".y", ".ya", ".yam", ".ym", ".p", ".yamll", ".pyc.bak", ".YAML", ".Py", ".yaml.bak"])
    return case


TAGS = ["!Standardiser {minimum: 0}", "!Limiter {maximum: 1000}", "!Standardiser {granularity: 1}", "!Logger {name: vh}"]
# invalid in a way that only shows when the element is bound to its target (argument names are fine)
BAD_TAGS = ['!Standardiser {minimum: "0", maximum: 5}', '!Limiter {maximum: "7", minimum: 1}', '!Standardiser {granularity: "2"}',
            '!LinearController {low_utilisation: 0.5, high_allocation: 0.9, rate: "2"}',
            '!RelativeSupplyController {low_utilisation: 0.5, high_allocation: 0.9, low_scale: "0.5"}']


def cls_of(e):
    return e["cls"] + ("Falsy" if e.get("falsy") else "")


def config_text(case):
    elems = case["elems"]
    err = case.get("error")
    if err in EMPTY_DOCS:
        return EMPTY_DOCS[err]
    if case["fmt"] == "py":
        lines = ["from vh_c13mod import *"]
        # ordinary Python in a configuration: settings kept in a dataclass (with postponed annotations the
        # dataclass machinery looks the configuration module up by name), a class that is pickled, a
        # module-level lookup of the configuration's own module
        extra = case.get("pyextra")
        if extra == "dataclass":
            lines = ["from __future__ import annotations", "import dataclasses, typing"] + lines + [
                "@dataclasses.dataclass", "class Settings:", "    rate: int = 2", "    names: typing.ClassVar[list] = []", "settings = Settings()"]
        elif extra == "pickle":
            lines += ["import pickle", "class Site:", "    def __init__(self, n): self.n = n",
                      "assert pickle.loads(pickle.dumps(Site(3))).n == 3"]
        elif extra == "selfmod":
            lines += ["import sys", "this = sys.modules[__name__]", "this.marker = 1", "assert marker == 1"]
        chain = " >> ".join(["%s.s(name=%r%s)" % (cls_of(e), e["name"], (", fail_after=%r, fail_kind=%r" % (e["fail_after"], e.get("fail_kind", "ValueError"))) if "fail_after" in e else "") for e in elems]
                            + ["BasePool%s(name='pool')" % ("Falsy" if case.get("falsy_pool") else "")])
        if err == "ctor-error":
            chain = "boom() >> " + chain
        if err == "name-error":
            chain = "Undefined.s() >> " + chain
        lines.append("pipeline = " + chain)
        if err == "syntax":
            lines.append("def broken(:")
        return "\n".join(lines) + "\n"
    lines = []
    if case.get("padding"):
        lines += ["# " + "x" * 78] * (case["padding"] // 80)
    if case["logging"]:
        lines += ["logging:", "  version: 1"]
    if err == "unknown-section":
        lines += ["no_such_section:", "  a: 1"]
    if err != "no-pipeline":
        lines.append("pipeline:")
        if err == "tag-bad-value" and case.get("badtag", "").startswith(("!Linear", "!Relative")):
            lines.append("  - " + case["badtag"])
        for j, e in enumerate(elems):
            for t, tk in zip(case.get("tags", []), case.get("tagkinds", [])):
                if t == j:
                    lines.append("  - " + tk)
            lines.append("  - __type__: vh_c13mod.%s" % cls_of(e))
            lines.append("    name: %s" % e["name"])
            if "fail_after" in e:
                lines.append("    fail_after: %r" % e["fail_after"])
                lines.append("    fail_kind: %s" % e.get("fail_kind", "ValueError"))
            if err == "bad-kwarg" and e is elems[0]:
                lines.append("    target: 5")
        if err == "unknown-tag":
            lines.append("  - !NoSuchTag {a: 1}")
        if err == "python-tag":
            lines.append("  - !!python/object/apply:os.getcwd []")
        if err == "ctor-error":
            lines.append("  - __type__: vh_c13mod.boom")
        for t, tk in zip(case.get("tags", []), case.get("tagkinds", [])):
            if t == len(elems):
                lines.append("  - " + tk)
        if err == "tag-bad-value" and not case.get("badtag", "").startswith(("!Linear", "!Relative")):
            lines.append("  - " + case["badtag"])
        if err == "tag-bad-kwarg":
            lines.append("  - !Standardiser {minimun: 0}")
        if err == "tag-no-pool":
            lines.append("  - " + case.get("badtag", TAGS[0]))     # the pipeline forgets its pool
        else:
            lines.append("  - __type__: vh_c13mod.BasePool%s" % ("Falsy" if case.get("falsy_pool") else ""))
    else:
        lines.append("__config_test: {}")
    if err == "syntax":
        lines.append("  - : : [unbalanced")
    return "\n".join(lines) + "\n"


def run_child(args):
    case, tmp, i = args
    ext = case.get("ext", ".yaml" if case["fmt"] == "yaml" else ".py")
    cfg = os.path.join(tmp, "cfg%d%s" % (i, ext))
    evf = os.path.join(tmp, "events%d.txt" % i)
    open(evf, "w").close()
    if case.get("error") != "missing-file":
        open(cfg, "w").write(config_text(case))
    env = dict(os.environ, VH_EVENT_FILE=evf, PYTHONPATH="%s:%s/src" % (tmp, os.environ.get("VERIF_REPO", "/repo")))
    p = subprocess.Popen([sys.executable, "-m", "cobald.daemon", cfg], env=env, stdout=subprocess.PIPE, stderr=subprocess.PIPE, text=True)
    nsvc = sum(1 for e in case["elems"] if e["svc"])
    expect_up = case["kind"] == "valid"
    t_end = time.monotonic() + 8
    sent = None
    try:
        if expect_up:
            # wait until every service reports that it runs, then a random delay, then one SIGINT
            while time.monotonic() < t_end:
                txt = open(evf).read()
                if txt.count("run-started") >= nsvc and "constructed pool" in txt:
                    break
                if p.poll() is not None:
                    break
                time.sleep(0.01)
            time.sleep(case["delay"])
            if p.poll() is None:
                sent = time.monotonic()
                with open(evf, "a") as f:
                    f.write("sigint\n")
                os.kill(p.pid, signal.SIGINT)
        try:
            out, err = p.communicate(timeout=max(0.5, t_end - time.monotonic()))
            status = p.returncode
        except subprocess.TimeoutExpired:
            p.kill()
            out, err = p.communicate()
            status = "timeout"
    finally:
        if p.poll() is None:
            p.kill()
    return {"status": status, "stderr": err[-3000:], "error_logged": any(w in err for w in ("Error", "error", "Traceback", "failed", "Exception", "aborted", "CRITICAL")), "events": open(evf).read().splitlines(), "sigint_sent": sent is not None}


def to_trace(case, res):
    """child events -> observable events of the runtime LTS"""
    names = {e["name"]: (i + 1, e) for i, e in enumerate(case["elems"])}
    fl = {"Aio": "aio", "Trio": "trio", "Thr": "thr"}
    events = [["adopt", 0, "aio"], ["acceptBegin", 0]]
    started_loader = False
    pids = [0]
    failing = failing_out = None
    thr_tids = {}
    for line in res["events"]:
        parts = line.split()
        if parts[0] == "constructed":
            if not started_loader:
                events.append(["start", 0, 0]); started_loader = True
            if parts[1] in names and names[parts[1]][1]["svc"]:
                pid, e = names[parts[1]]
                events.append(["newUnit", pid, fl[e["cls"][-3:] if not e["cls"].endswith("Trio") else "Trio"] if False else fl[[k for k in fl if e["cls"].endswith(k)][0]]])
                pids.append(pid)
                # the loader's frame (inside `with load(...)`) refers to everything it constructed
                events.append(["hold", pid, 0])
        elif parts[0] == "run-started" and parts[1] in names:
            pid, e = names[parts[1]]
            f = fl[[k for k in fl if e["cls"].endswith(k)][0]]
            tid = 0 if f == "aio" else (1 if f == "trio" else 10 + pid)
            events.append(["start", pid, tid])
        elif parts[0] == "failing" and parts[1] in names:
            pid, _ = names[parts[1]]
            kind = parts[2] if len(parts) > 2 else "ValueError"
            out = "value" if kind == "value" else ("sysExit" if kind.startswith("SystemExit") else ("baseExc" if kind in BASE_KINDS else "exc"))
            events.append(["bodyEnd", pid, out])
            if failing is None:
                failing, failing_out = pid, out
        elif parts[0] == "cancelled" and parts[1] in names:
            events.append(["unwound", names[parts[1]][0]])
        elif parts[0] == "sigint":
            events.append(["sigint"])
    if res["status"] == "timeout":
        return pids, events
    if not started_loader:
        events.append(["start", 0, 0])
    if res["status"] == 0:
        events += [["unwound", 0], ["endRun", "returned"]]
    else:
        if failing is None:
            events.append(["bodyEnd", 0, "exc"])
            failing = 0
        else:
            events.append(["unwound", 0])
        events.append(["endRun", "raisedBase" if failing_out in ("baseExc", "sysExit") else "raisedRT", failing])
    return pids, events


def oracle(case, res):
    out = []
    ev = res["events"]
    svc = [e for e in case["elems"] if e["svc"]]
    if case["kind"] == "valid":
        if res["status"] != 0:
            out.append(("sigint-nonzero", "valid %s configuration + SIGINT: exit status %r\n%s" % (case["fmt"], res["status"], res["stderr"][-400:])))
        for e in case["elems"] + [{"name": "pool"}]:
            c = [l for l in ev if l.startswith("constructed %s " % e["name"])]
            if len(c) != 1:
                out.append(("constructed-count", "%s was constructed %d times" % (e["name"], len(c))))
            elif not c[0].endswith("True"):
                out.append(("constructed-outside-loop", "%s was constructed without a running asyncio event loop" % e["name"]))
        if "sigint" in ev:
            k = ev.index("sigint")
            for e in svc:
                n = sum(1 for l in ev if l.startswith("run-started %s " % e["name"]))
                if n != 1:
                    out.append(("service-started-%d-times" % n, "service %s was started %d times" % (e["name"], n)))
                # alive at the moment of the SIGINT: a heartbeat shortly before it, or any sign of life after it
                # (with no delay the SIGINT may overtake the very first heartbeat)
                recent = [l for l in ev[max(0, k - 40 * max(1, len(svc))):] if l in ("beat %s" % e["name"], "cancelled %s" % e["name"]) or l.startswith("run-started %s " % e["name"])]
                if n == 1 and not recent:
                    out.append(("service-not-alive", "service %s was not running any more when the daemon was stopped" % e["name"]))
                if not e["cls"].endswith("Thr") and n == 1 and ("cancelled %s" % e["name"]) not in ev:
                    out.append(("service-not-cancelled", "service %s was not cancelled on SIGINT" % e["name"]))
        elif res["status"] == 0:
            out.append(("exited-by-itself", "the daemon exited although nobody stopped it"))
    else:
        if res["status"] == "timeout":
            out.append(("stays-up-idle:%s" % (case.get("error") or case["kind"]), "the daemon neither ran the pipeline nor exited (%s)" % (case.get("error") or case["kind"])))
        elif res["status"] == 0:
            out.append(("error-exit-zero:%s" % (case.get("error") or case["kind"]), "%s but exit status 0" % (case.get("error") or case["kind"])))
        elif not res["error_logged"]:
            out.append(("no-error-logged", "non-zero exit without an error on the log"))
    return out


def run(ctx):
    rng = ctx.rng("daemon")
    cases = [gen_case(rng, i) for i in range(ctx.n(96, 600))]
    tmp = tempfile.mkdtemp(prefix="vh-c13-")
    try:
        open(os.path.join(tmp, "vh_c13mod.py"), "w").write(MODULE)
        with ThreadPoolExecutor(max_workers=12) as ex:
            results = list(ex.map(run_child, [(c, tmp, i) for i, c in enumerate(cases)]))
    finally:
        shutil.rmtree(tmp, ignore_errors=True)
    traces = [to_trace(c, r) for c, r in zip(cases, results)]
    answers = engine.accept_traces(traces) if ctx.lean_status.get("driver_ok") else [{"accepted": True}] * len(cases)
    for c, r, tr, a in zip(cases, results, traces, answers):
        small = {"kind": c["kind"], "fmt": c["fmt"], "error": c.get("error"), "ext": c.get("ext"), "elems": [(cls_of(e), e.get("fail_after"), e.get("fail_kind")) for e in c["elems"]], "delay": c["delay"], "falsy_pool": c.get("falsy_pool")}
        ctx.count("daemon-processes", small, True)
        ctx.tally("kind:%s" % (c.get("error") or c["kind"]))
        ctx.tally("status:%s" % r["status"])
        for key, what in oracle(c, r):
            ctx.violation(key, what, {"case": c, "status": r["status"], "events": r["events"][-30:], "stderr": r["stderr"][-600:]})
        if not a.get("accepted"):
            i = a.get("rejected_at")
            ctx.disagree("daemon-processes", small, {"trace": tr[1], "rejected": tr[1][i] if i is not None and i < len(tr[1]) else None, "status": r["status"]}, a)
    ctx.notes["traces_validated_against_impl"] = len(cases)


def replay(payload):
    c = payload["case"]["case"] if "case" in payload.get("case", {}) else payload.get("case")
    tmp = tempfile.mkdtemp(prefix="vh-c13-")
    try:
        open(os.path.join(tmp, "vh_c13mod.py"), "w").write(MODULE)
        r = run_child((c, tmp, 0))
    finally:
        shutil.rmtree(tmp, ignore_errors=True)
    v = oracle(c, r)
    print(json.dumps({"status": r["status"], "events": r["events"][-40:], "oracle": v}, indent=1))
    return 1 if v else 0

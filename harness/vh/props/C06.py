"""C06 — Standardiser keeps the forwarded demand within its limits."""
import json
import math
from fractions import Fraction as F

from .. import corr
from ..num import wire, unwire, canon, exact, INF
from ..pools import RecPool

STREAMS = ["ops-exact", "grid-single-write", "infinite-supply"]
REGENERATE_SRC = True
RULE = ("parameters from a lattice that puts two or three limits in play (fractional, integral, "
        "infinite; window inside/overlapping/outside [min,max]); op programs of writes, reads, "
        "increments, supply changes and outside demand changes over int / Fraction / dyadic-float "
        "values; non-trivial = accepted constructor and at least one write on which some limit or "
        "the granularity changed the value; distinct = distinct canonical case JSON")
ASSUMPTIONS = [
    "IEEE-754 rounding is not modelled: floats in the exact streams are small dyadics on which every operation is exact",
    "NaN and infinite written demands are excluded (the property says finite demand)",
    "granularity is finite (an infinite granularity makes n // inf * inf NaN)",
]
TRUSTED = ["CPython int/Fraction/float arithmetic, //, abs, comparison"]


def num(tagged):
    tag, w = tagged
    v = unwire(w)
    if isinstance(v, float):
        return v
    if tag == "i":
        assert v.denominator == 1
        return int(v)
    if tag == "f":
        return float(v)
    return v


def tagfor(rng, kind, q):
    """choose a Python type for the exact value q under the case kind"""
    if isinstance(q, float):
        return ["f", wire(q)]
    q = F(q)
    if q.denominator == 1 and (kind == "i" or rng.random() < 0.6):
        return ["i", wire(q)]
    return [kind if kind != "i" else "q", wire(q)]


def gen_value(rng, kind, anchors, g):
    """a finite value near something interesting"""
    denom = rng.choice([1, 1, 2, 4]) if kind == "f" else rng.choice([1, 1, 2, 3, 7])
    if kind == "i":
        denom = 1
    r = rng.random()
    fin = [a for a in anchors if not isinstance(a, float)]
    if fin and r < 0.6:
        a = rng.choice(fin)
        d = rng.choice([0, 0, F(1, denom), -F(1, denom), g, -g, g * rng.randint(1, 3), 1, -1])
        v = a + d
    elif r < 0.8:
        v = g * rng.randint(-6, 12) + rng.choice([0, F(1, denom), -F(1, denom)])
    else:
        v = F(rng.randint(-40 * denom, 60 * denom), denom)
    v = F(v)
    if kind == "i":
        v = F(math.floor(v))
    if kind == "f":
        v = F(math.floor(v * 16), 16)
    return v


def gen_case(rng, nops):
    kind = rng.choice(["i", "q", "f"])
    pk = kind if kind != "i" else rng.choice(["i", "q", "f"])  # ints may meet fractional limits
    def lim(lo, hi, allow_inf, sign=0):
        r = rng.random()
        if allow_inf and r < 0.3:
            return INF if sign >= 0 else -INF
        d = 1 if pk == "i" else (rng.choice([1, 2, 4]) if pk == "f" else rng.choice([1, 2, 3, 5]))
        return F(rng.randint(lo * d, hi * d), d)
    supply = lim(0, 30, False)
    r = rng.random()
    if r < 0.25:
        mn, mx = -INF, INF
    elif r < 0.4:
        mn, mx = lim(-10, 40, False), INF
    elif r < 0.55:
        mn, mx = -INF, lim(-10, 40, False)
    else:
        a, b = lim(-10, 40, False), lim(-10, 40, False)
        mn, mx = min(a, b), max(a, b)
    if rng.random() < 0.04:
        mn, mx = mx, mn  # mostly rejected
    if rng.random() < 0.03:
        mn = mx = rng.choice([INF, -INF])
    g = rng.choice([1, 1, 2, 3, 5, F(3, 2), F(1, 2), F(5, 2), 10]) if pk != "i" else rng.choice([1, 1, 2, 3, 5, 10])
    if pk == "f" and F(g).denominator not in (1, 2, 4):
        g = F(3, 2)
    if rng.random() < 0.03:
        g = rng.choice([0, -1])
    surplus = lim(1, 12, True) if rng.random() < 0.9 else lim(-3, 0, False)
    backlog = lim(1, 12, True) if rng.random() < 0.9 else lim(-3, 0, False)
    if rng.random() < 0.25:
        surplus = backlog = INF
    p = {"min": tagfor(rng, pk, mn), "max": tagfor(rng, pk, mx), "g": tagfor(rng, pk, g),
         "backlog": tagfor(rng, pk, backlog), "surplus": tagfor(rng, pk, surplus)}
    gq = F(g) if g else F(1)
    anchors = [mn, mx, supply]
    for x in (surplus, backlog):
        if not isinstance(x, float):
            anchors += [supply + x, supply - x]
    pool = {"supply": tagfor(rng, kind, supply), "demand": tagfor(rng, kind, gen_value(rng, kind, anchors, gq)),
            "util": tagfor(rng, "q", F(rng.randint(0, 4), 4)), "alloc": tagfor(rng, "q", F(rng.randint(0, 4), 4))}
    prog = []
    for _ in range(nops):
        r = rng.random()
        if r < 0.40:
            prog.append(["w", tagfor(rng, kind, gen_value(rng, kind, anchors, gq))])
            if rng.random() < 0.5:
                prog.append(["r"])
        elif r < 0.55:
            prog.append(["r"])
        elif r < 0.70:
            prog.append(["inc", tagfor(rng, kind, F(rng.choice([1, 1, 1, -1, 2, 5])))])
        elif r < 0.82:
            s = lim(0, 30, False)
            anchors[2] = s
            prog.append(["s", tagfor(rng, kind, s)])
        elif r < 0.92:
            prog.append(["d", tagfor(rng, kind, gen_value(rng, kind, anchors, gq))])
        elif r < 0.96:
            prog.append(["u", tagfor(rng, "q", F(rng.randint(0, 8), 4))])
        else:
            prog.append(["a", tagfor(rng, "q", F(rng.randint(0, 8), 4))])
    return {"kind": kind, "p": p, "pool": pool, "prog": prog}


def impl(case):
    from cobald.decorator.standardiser import Standardiser
    pl = case["pool"]
    pool = RecPool(num(pl["supply"]), num(pl["demand"]), num(pl["util"]), num(pl["alloc"]))
    p = case["p"]
    try:
        st = Standardiser(pool, minimum=num(p["min"]), maximum=num(p["max"]), granularity=num(p["g"]),
                          backlog=num(p["backlog"]), surplus=num(p["surplus"]))
    except ValueError:
        return {"ctor": "ValueError", "trace": [], "obs": []}
    trace, obs = [], []

    def snap(r=None):
        obs.append([canon(pool.demand), canon(r), canon(st.supply), canon(st.utilisation), canon(st.allocation)])

    for op in case["prog"]:
        try:
            if op[0] == "w":
                v = num(op[1])
                trace.append(["w", wire(v)])
                st.demand = v
                snap()
            elif op[0] == "r":
                trace.append(["r"])
                snap(st.demand)
            elif op[0] == "inc":
                trace.append(["r"])
                r = st.demand
                snap(r)
                if isinstance(r, float) and math.isinf(r):
                    continue
                v = r + num(op[1])
                trace.append(["w", wire(v)])
                st.demand = v
                snap()
            elif op[0] == "s":
                pool.supply = num(op[1]); trace.append(["s", wire(pool.supply)]); snap()
            elif op[0] == "d":
                pool._demand = num(op[1]); trace.append(["d", wire(pool._demand)]); snap()
            elif op[0] == "u":
                pool.utilisation = num(op[1]); trace.append(["u", wire(pool.utilisation)]); snap()
            elif op[0] == "a":
                pool.allocation = num(op[1]); trace.append(["a", wire(pool.allocation)]); snap()
        except Exception as e:  # the model has no error branch after construction
            obs.append({"error": type(e).__name__})
            break
    return {"ctor": "ok", "trace": trace, "obs": obs}


def line(case, o):
    p, pl = case["p"], case["pool"]
    return {"p": {k: v[1] for k, v in p.items()},
            "pool": {k: v[1] for k, v in pl.items()},
            "ops": o["trace"]}


def expect(case, o, m):
    return ({"ctor": o["ctor"], "obs": o["obs"]}, {"ctor": m.get("ctor"), "obs": m.get("obs", [])} if "driver_error" not in m else m)


def _le(a, b):
    return a <= b


def oracle(case, o):
    """the clauses of C06 evaluated on the implementation's observations (exact arithmetic)"""
    if o["ctor"] != "ok":
        return []
    p = {k: unwire(v[1]) for k, v in case["p"].items()}
    mn, mx, g = p["min"], p["max"], p["g"]
    out = []
    supply = unwire(case["pool"]["supply"][1])
    prev_write = None
    for t, ob in zip(o["trace"], o["obs"]):
        if isinstance(ob, dict):
            out.append(("error-after-construction:%s" % ob["error"], "operation %s raised %s" % (t, ob["error"])))
            break
        tgt = unwire(ob[0])
        if unwire(ob[2]) != supply and t[0] != "s":
            out.append(("passthrough-supply", "supply read through the decorator differs from the pool's"))
        if t[0] == "s":
            supply = unwire(t[1])
            if unwire(ob[2]) != supply:
                out.append(("passthrough-supply", "supply read through the decorator differs from the pool's"))
        if t[0] == "w":
            v = unwire(t[1])
            lo = supply - p["backlog"] if not (isinstance(p["backlog"], float)) else -INF
            hi = supply + p["surplus"] if not (isinstance(p["surplus"], float)) else INF
            if not (mn <= tgt <= mx):
                out.append(("fwd-outside-minmax", "write %s at supply %s forwarded %s outside [%s, %s]" % (v, supply, tgt, mn, mx)))
            elif not (lo <= tgt <= hi) and not ((tgt == mn and hi <= mn) or (tgt == mx and lo >= mx)):
                out.append(("fwd-outside-window", "write %s at supply %s forwarded %s outside [%s, %s] though min/max do not force it" % (v, supply, tgt, lo, hi)))
            fl = (v // g) * g if g != 1 else v
            if mn <= fl <= mx and lo <= fl <= hi and tgt != fl:
                out.append(("fwd-not-floored-value", "write %s (granularity %s) forwarded %s, expected %s (no limit interferes)" % (v, g, tgt, fl)))
            prev_write = (v, tgt, lo, hi)
        elif t[0] == "r" and prev_write is not None:
            v, tgt0, lo, hi = prev_write
            rb = unwire(ob[1])
            if not (mn <= rb <= mx):
                out.append(("readback-outside-minmax", "read back %s after writing %s outside [%s, %s]" % (rb, v, mn, mx)))
            elif not (lo <= rb <= hi) and not ((rb == mn and hi <= mn) or (rb == mx and lo >= mx)):
                out.append(("readback-outside-window", "read back %s after writing %s outside the supply window" % (rb, v)))
            if not (isinstance(rb, float) or isinstance(tgt0, float)) and not abs(rb - tgt0) < g:
                out.append(("readback-far-from-target", "read back %s is %s away from target demand %s (granularity %s)" % (rb, abs(rb - tgt0), tgt0, g)))
            prev_write = None
        if t[0] in ("s", "d"):
            prev_write = None
        if t[0] == "r" and not isinstance(unwire(ob[1]), float) and not isinstance(tgt, float):
            if not abs(unwire(ob[1]) - tgt) < g:
                out.append(("read-far-from-target", "a read returned %s, %s away from the target's demand %s" % (ob[1], abs(unwire(ob[1]) - tgt), tgt)))
    return out


def nontrivial(case, o):
    if o["ctor"] != "ok":
        return False
    for t, ob in zip(o["trace"], o["obs"]):
        if t[0] == "w" and not isinstance(ob, dict) and ob[0] != t[1]:
            return True
    return False


def shrinks(case):
    prog = case["prog"]
    for i in range(len(prog)):
        yield {**case, "prog": prog[:i] + prog[i + 1:]}
    for k in ("backlog", "surplus"):
        if case["p"][k][1] != "inf":
            yield {**case, "p": {**case["p"], k: ["f", "inf"]}}
    if case["p"]["g"][1] != "1/1":
        yield {**case, "p": {**case["p"], "g": ["i", "1/1"]}}
    if case["p"]["min"][1] != "-inf":
        yield {**case, "p": {**case["p"], "min": ["f", "-inf"]}}
    if case["p"]["max"][1] != "inf":
        yield {**case, "p": {**case["p"], "max": ["f", "inf"]}}


def increments_oracle(ctx, rng, n_cases):
    """'n increments of 1 have the same effect as one increment of n' on the read-back value"""
    from cobald.decorator.standardiser import Standardiser
    for _ in range(n_cases):
        case = gen_case(rng, 0)
        p = case["p"]
        try:
            args = dict(minimum=num(p["min"]), maximum=num(p["max"]), granularity=num(p["g"]),
                        backlog=num(p["backlog"]), surplus=num(p["surplus"]))
            pl = case["pool"]
            a = Standardiser(RecPool(num(pl["supply"]), num(pl["demand"])), **args)
            b = Standardiser(RecPool(num(pl["supply"]), num(pl["demand"])), **args)
        except ValueError:
            continue
        n = rng.randint(1, 25)
        r0 = a.demand
        if isinstance(r0, float) and math.isinf(r0):
            continue
        # start both from a demand that has been written (so that it obeys the limits)
        try:
            a.demand = r0; b.demand = r0
            if isinstance(a.demand, float) and math.isinf(a.demand):
                continue
            for _i in range(n):
                a.demand += 1
            b.demand += n
            ra, rb = a.demand, b.demand
        except Exception as e:
            ctx.violation("increments-error:%s" % type(e).__name__, "increments raised %s" % type(e).__name__, case)
            continue
        ctx.count("increments", {"case": case, "n": n}, True)
        if exact(ra) != exact(rb):
            ctx.violation("increments-differ", "%d increments of 1 read back %s, one increment of %d reads back %s" % (n, ra, n, rb), {"case": case, "n": n})


def grid_cases():
    vals = [F(k, d) for k in range(-2, 3) for d in (1, 2)]
    vals = sorted(set(vals))
    lims = vals + [INF, -INF]
    out = []
    for mn in lims:
        for mx in lims:
            for g in (F(1), F(1, 2), F(2), F(3, 2)):
                for sp in (F(1), INF):
                    for bl in (F(1, 2), INF):
                        for v in vals:
                            def tg(x):
                                return ["f", wire(x)] if isinstance(x, float) else (["i", wire(x)] if x.denominator == 1 else ["q", wire(x)])
                            out.append({"kind": "q", "p": {"min": tg(mn), "max": tg(mx), "g": tg(g), "backlog": tg(bl), "surplus": tg(sp)},
                                        "pool": {"supply": tg(F(1)), "demand": tg(F(0)), "util": tg(F(1)), "alloc": tg(F(1))},
                                        "prog": [["w", tg(v)], ["r"]]})
    return out


def gen_inf_case(rng):
    c = gen_case(rng, 1)
    v = rng.choice([F(rng.randint(-40, 80), rng.choice([1, 1, 2, 4])), rng.randint(-40, 80)])
    return {"mode": "inf", "p": c["p"], "pool": c["pool"], "esupply": rng.choice(["inf", "inf", "-inf"]), "v": wire(v),
            "vint": isinstance(v, int)}


def impl_inf(case):
    from cobald.decorator.standardiser import Standardiser
    pl = case["pool"]
    pool = RecPool(INF if case["esupply"] == "inf" else -INF, num(pl["demand"]), num(pl["util"]), num(pl["alloc"]))
    p = case["p"]
    try:
        st = Standardiser(pool, minimum=num(p["min"]), maximum=num(p["max"]), granularity=num(p["g"]),
                          backlog=num(p["backlog"]), surplus=num(p["surplus"]))
    except ValueError:
        return {"ctor": "ValueError"}
    v = unwire(case["v"])
    st.demand = int(v) if case["vint"] else v
    return {"ctor": "ok", "fwd": canon(pool.demand), "read": canon(st.demand)}


def oracle_inf(case, o):
    """[minimum, maximum] holds whatever the supply; nothing may turn into NaN"""
    if o.get("ctor") != "ok":
        return []
    out = []
    p = case["p"]
    for name in ("fwd", "read"):
        if o[name] in (None, "nan") or str(o[name]).startswith("?"):
            out.append(("infinite-supply-nan", "%s is %r at supply %s" % (name, o[name], case["esupply"])))
            return out
        x = unwire(o[name])
        if not (unwire(p["min"][1]) <= x <= unwire(p["max"][1])):
            out.append(("infinite-supply-minmax", "%s = %s outside [%s, %s] at supply %s" % (name, o[name], p["min"][1], p["max"][1], case["esupply"])))
    # when no limit interferes the written value is forwarded, rounded down to the granularity: at supply
    # +inf with an infinite backlog (or -inf with an infinite surplus) the window imposes nothing on that side
    mn, mx, g = unwire(p["min"][1]), unwire(p["max"][1]), unwire(p["g"][1])
    v = unwire(case["v"])
    fl = (v // g) * g if g != 1 else v
    lo_free = case["esupply"] == "inf" and unwire(p["backlog"][1]) == INF
    hi_free = case["esupply"] == "-inf" and unwire(p["surplus"][1]) == INF
    if (lo_free or hi_free) and mn <= fl <= mx and not out:
        # supply +inf: upper bound +inf; supply -inf: lower bound -inf - neither interferes
        if unwire(o["fwd"]) != fl:
            out.append(("infinite-supply-free", "no limit interferes at supply %s, yet %s was forwarded for a written %s (expected %s)" % (case["esupply"], o["fwd"], case["v"], fl)))
    return out


def run(ctx):
    rng = ctx.rng("inf")
    icases = [gen_inf_case(rng) for _ in range(ctx.n(800, 8000))]
    corr.run_stream(ctx, "infinite-supply", icases, impl_inf,
                    lambda c, o: {"p": {k: v[1] for k, v in c["p"].items()}, "pool": {k: v[1] for k, v in c["pool"].items()},
                                  "esupply": c["esupply"], "v": c["v"]},
                    oracle_inf, lambda c, o: o.get("ctor") == "ok", None, None)
    rng = ctx.rng("ops")
    n = ctx.n(2500, 40000)
    cases = [gen_case(rng, rng.randint(1, 30)) for _ in range(n)]
    corr.run_stream(ctx, "ops-exact", cases, impl, line, oracle, nontrivial, shrinks, expect)
    g = grid_cases()
    if ctx.quick:
        r2 = ctx.rng("grid")
        g = r2.sample(g, 1500)
    corr.run_stream(ctx, "grid-single-write", g, impl, line, oracle, nontrivial, shrinks, expect)
    increments_oracle(ctx, ctx.rng("inc"), ctx.n(1500, 20000))
    for c in cases:
        ctx.tally("kind:" + c["kind"])
        for op in c["prog"]:
            ctx.tally("op:" + op[0])


def replay(payload):
    case = payload.get("case")
    if case is None and payload.get("disagreements"):
        case = payload["disagreements"][0]["case"]
    if "case" in case and "n" in case:
        case = case["case"]
    o = impl(case)
    print(json.dumps({"impl": o, "oracle": oracle(case, o)}, indent=1))
    return 1 if oracle(case, o) else 0

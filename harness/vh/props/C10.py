"""C10 — execute hands the payload's outcome to the caller and leaves the runtime alone."""
import json

from ..rt import check

STREAMS = ["execute", "execute-blocking"]
REGENERATE_SRC = True
RULE = ("sequences of 1..8 execute calls: flavour x calling context (outside thread, thread payload, coroutine payload "
        "of another flavour) x outcome (None, falsy and truthy objects compared with `is`, Exception subclasses compared "
        "with `is`) x argument lists (payloads may be decorated callables whose wrapper takes other arguments than functools.wraps advertises), interleaved with adopted bystanders and a heartbeat payload; afterwards the "
        "runtime must still be running until the harness shuts it down; events replayed on the Lean LTS; non-trivial = "
        "at least two payloads; distinct = distinct scenario")
ASSUMPTIONS = ["same-flavour execute from inside a coroutine payload deadlocks or raises by construction of asyncio / trio: outside the statement",
               "opposite-direction executes in flight at once (asyncio payload -> trio while trio payload -> asyncio) deadlock by design: known finding, never generated here",
               "framework semantics enter the model as enabling conditions"]
TRUSTED = ["scenario engine (harness/vh/rt)"]


def oracle(sc, out):
    res = []
    log = out["log"]
    end = check.accept_end(out)
    specs = {p["pid"]: p for p in sc["payloads"] if p.get("role") == "executed"}
    main_thread = next((e["thread"] for e in log if e["kind"] == "accept-begin"), None)
    trio_threads = {e["thread"] for e in log if e["kind"] == "start" and e.get("fl") == "trio" and e["pid"] not in specs}
    calls = [e for e in log if e["kind"] == "exec-call"]
    for c in calls:
        p = specs[c["pid"]]
        st = [e for e in log if e["kind"] == "start" and e["pid"] == c["pid"]]
        ret = [e for e in log if e["kind"] == "exec-return" and e["pid"] == c["pid"]]
        if not ret:
            res.append(("execute-hangs", "execute(%s payload from %s) never returned" % (p["fl"], p["ctx"])))
            continue
        if len(st) != 1:
            res.append(("execute-runs-not-once", "executed payload %d ran %d times" % (c["pid"], len(st))))
            continue
        if not st[0].get("args_ok"):
            res.append(("execute-arguments", "executed payload %d did not receive exactly the supplied arguments" % c["pid"]))
        want_raise = p["out"]["kind"] == "exc"
        r = ret[0]
        if (r["how"] == "raise") != want_raise or not r.get("same"):
            res.append(("execute-outcome", "payload %d ended with %r; the caller saw %s (same object: %s)" % (c["pid"], p["out"], r["how"], r.get("same"))))
        if p["fl"] == "aio" and st[0]["thread"] != main_thread:
            res.append(("execute-wrong-runner", "asyncio payload executed outside the event-loop thread"))
        if p["fl"] == "trio" and trio_threads and st[0]["thread"] not in trio_threads:
            res.append(("execute-wrong-runner", "trio payload executed outside the trio thread"))
    sd = [e for e in log if e["kind"] == "shutdown-call"]
    if end is not None and (not sd or end["seq"] < sd[0]["seq"]):
        res.append(("runtime-stopped-by-execute", "accept() ended (%s) before the harness asked for shutdown: an execute outcome was treated as a background failure" % end["result"]))
    elif end is not None and end["result"] != "returned":
        res.append(("runtime-failed-after-execute", "accept() ended with %s after the shutdown" % end["result"]))
    if calls and sd:
        last = max((e["seq"] for e in log if e["kind"] == "exec-return"), default=0)
        beats = [e for e in log if e["kind"] == "step" and last < e["seq"] < sd[0]["seq"]]
        cancelled = [e for e in log if e["kind"] == "cancel-seen" and e["seq"] < sd[0]["seq"]]
        if cancelled:
            res.append(("bystander-cancelled", "payload %s was cancelled although only execute calls happened" % cancelled[0]["pid"]))
        elif not beats:
            res.append(("bystanders-dead", "no bystander heartbeat between the last execute and the shutdown"))
    return res


def known_deadlock_scenario():
    """an asyncio payload executes a trio payload at the very moment a trio payload executes an
    asyncio payload (forced with a barrier): each blocks its own loop thread waiting for the other"""
    payloads = [
        {"pid": 1, "fl": "trio", "script": [["end", {"kind": "none"}]], "role": "executed", "out": {"kind": "none"}, "ctx": "aio", "args": {"args": [], "kwargs": {}}},
        {"pid": 2, "fl": "aio", "script": [["end", {"kind": "none"}]], "role": "executed", "out": {"kind": "none"}, "ctx": "trio", "args": {"args": [], "kwargs": {}}},
        {"pid": 3, "fl": "aio", "role": "caller", "mode": "outside", "script": [["barrier", "x", 2], ["execute", 1], ["end", {"kind": "none"}]]},
        {"pid": 4, "fl": "trio", "role": "caller", "mode": "outside", "script": [["barrier", "x", 2], ["execute", 2], ["end", {"kind": "none"}]]},
    ]
    return {"family": "execute-opposite", "payloads": payloads, "before": [],
            "control": [["wait-running"], ["adopt", 3], ["adopt", 4], ["sleep", 1.0], ["shutdown"]], "watchdog": 4}


def exec_trace(sc, out):
    """calls, payload starts and returns of the execute calls of one run, for the blocking model:
    thread 0 = event loop (accept runs in the main thread), 1 = trio thread, others numbered from 2"""
    log = out["log"]
    specs = {p["pid"]: p for p in sc["payloads"] if p.get("role") == "executed"}
    main_thread = next((e["thread"] for e in log if e["kind"] == "accept-begin"), None)
    trio_thread = next((e["thread"] for e in log if e["kind"] == "start" and e.get("fl") == "trio" and "trio" in e), None)
    tids = {main_thread: 0}
    if trio_thread is not None:
        tids[trio_thread] = 1

    def tid(t):
        if t not in tids:
            tids[t] = 2 + len(tids)
        return tids[t]
    events = []
    begun = set()
    for e in log:
        pid = e.get("pid")
        if e["kind"] == "exec-call" and pid in specs:
            caller = tid(e["thread"])
            target = {"aio": 0, "trio": 1}.get(specs[pid]["fl"], caller)
            events.append(["call", pid, caller, target])
        elif e["kind"] == "start" and pid in specs and any(x[0] == "call" and x[1] == pid for x in events) and pid not in begun:
            events.append(["begin", pid])
            begun.add(pid)
        elif e["kind"] == "exec-return" and pid in begun:
            events.append(["finish", pid])
    return events


def blocking_stream(ctx, scs, outs):
    """the execute calls of every scenario replayed on Model/Runtime/Exec.lean (who waits for whom)"""
    from .. import lean
    traces = [exec_trace(sc, o) for sc, o in zip(scs, outs)]
    reqs = ["EX " + json.dumps({"events": t}) for t in traces]
    answers = lean.drive(reqs, jobs=4) if ctx.lean_status.get("driver_ok") else [{"accepted": True, "in_flight": 0}] * len(reqs)
    for sc, o, t, a in zip(scs, outs, traces, answers):
        if o.get("crashed"):
            continue
        ctx.count("execute-blocking", {"family": sc.get("family"), "calls": sum(1 for x in t if x[0] == "call")}, len(t) >= 3)
        hung = [e for e in o["log"] if e["kind"] == "exec-call"] and o.get("hung")
        if "driver_error" in a or not a.get("accepted"):
            ctx.disagree("execute-blocking", {"scenario": sc}, {"trace": t}, a)
        elif a.get("in_flight") and not hung and not a.get("can_progress"):
            # the model says these calls can never return, yet the run went on
            ctx.disagree("execute-blocking", {"scenario": sc}, {"trace": t, "note": "all execute calls returned"}, a)


def run(ctx):
    scs, outs = check.run_family(ctx, "execute", ctx.n(96, 1500), oracle)
    blocking_stream(ctx, scs, outs)
    # the recorded finding: opposite-direction executes in flight at once
    from ..rt import engine
    sc = known_deadlock_scenario()
    out = engine.run_scenarios([sc])[0]
    ctx.count("execute", {"family": "execute-opposite"}, True)
    hung = [e for e in out["log"] if e["kind"] == "exec-call"] and not [e for e in out["log"] if e["kind"] == "exec-return"]
    ctx.notes["opposite_execute_deadlocks"] = bool(hung)
    # the blocking model explains the hang: the two calls are in flight, opposite, and nothing can progress
    from .. import lean
    if ctx.lean_status.get("driver_ok"):
        ans = lean.drive(["EX " + json.dumps({"events": exec_trace(sc, out)})])[0]
        ctx.notes["opposite_execute_model"] = ans
        ctx.count("execute-blocking", {"family": "execute-opposite"}, True)
        if bool(hung) != bool(ans.get("accepted") and ans.get("opposite") and not ans.get("can_progress")):
            ctx.disagree("execute-blocking", {"scenario": sc}, {"hung": bool(hung), "trace": exec_trace(sc, out)}, ans)
    if hung:
        ctx.violation("execute-opposite-deadlock", "an asyncio payload executing a trio payload while a trio payload executes an asyncio payload: both calls hang", {"scenario": sc})


def replay(payload):
    return check.replay(payload, oracle)

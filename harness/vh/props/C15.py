"""C15 — FactoryPool spawns and releases just enough children."""
import gc
import json
from fractions import Fraction as F

import trio
import trio.testing

from .. import corr, vclock
from ..num import wire, unwire, canon
from ..pools import RecPool

STREAMS = ["histories", "exhaustive-small"]
REGENERATE_SRC = True
RULE = ("histories of 1..60 operations (demand writes, child supply / utilisation / allocation / demand changes, children "
        "setting their own demand to 0, released children garbage-collected, adjustment cycles driven through run() "
        "under trio's MockClock) over 0..6 initial children and factories of varying child demand, with ties in the "
        "shrink key; in a quarter of the cases the children are of a pool class that declares __slots__; the hatchery's iteration order is read from the live set just before each adjustment and passed "
        "to the model; thorough adds all histories up to depth 5 over a small alphabet; non-trivial = at least one "
        "adjustment that spawned or released a child; distinct = distinct canonical case JSON")
ASSUMPTIONS = ["the hatchery is a set: its iteration order is an input of the model (taken from the implementation before each adjustment)",
               "factory children have positive initial demand (otherwise the real code's assertion fails; compared as an error)",
               "exact arithmetic (Fractions); requests that differ from a release threshold by 1e-10 .. 1e-15 relative are part of the histories"]
TRUSTED = ["CPython sorted() stability, set/WeakSet semantics, gc.collect() for dropping released children", "trio MockClock"]

FIELDS = ["supply", "utilisation", "allocation", "demand"]


def q(rng, lo, hi, dens=(1, 1, 2, 4)):
    d = rng.choice(dens)
    return F(rng.randint(lo * d, hi * d), d)


def gen_child(rng, cid):
    return {"id": cid, "supply": wire(q(rng, 0, 6)), "util": wire(q(rng, 0, 1, (2, 4))),
            "alloc": wire(q(rng, 0, 1, (2, 4))), "demand": wire(q(rng, 0, 6))}


def gen_case(rng, nops):
    n0 = rng.randint(0, 6)
    children = [gen_child(rng, i) for i in range(n0)]
    factory = []
    for _ in range(rng.randint(1, 3)):
        c = gen_child(rng, 0)
        c["demand"] = wire(q(rng, 1, 5)) if rng.random() > 0.03 else "0/1"
        factory.append(c)
    ops = []
    live = list(range(n0))
    spawned = 0
    for _ in range(nops):
        r = rng.random()
        if r < 0.06:
            # a request that misses "exactly one child too many" by a hair, in either direction
            ops.append(["Dnear", rng.randint(0, 7), rng.choice([1, 1, -1]), rng.choice([10 ** 10, 10 ** 12, 10 ** 15])])
        elif r < 0.3:
            ops.append(["D", wire(q(rng, 0, 30))])
        elif r < 0.6:
            ops.append(["adj"])
        elif r < 0.95 or not live:
            # address existing ids, including ids that may have been spawned (1000+k)
            pool_ids = live + [1000 + k for k in range(8)]
            i = rng.choice(pool_ids)
            f = rng.randrange(4)
            x = F(0) if (f == 3 and rng.random() < 0.5) else q(rng, 0, 6)
            ops.append(["c", i, f, wire(x)])
        else:
            ops.append(["gc", rng.choice(live + [1000 + k for k in range(4)])])
    ops.append(["adj"])
    return {"children": children, "factory": factory, "ops": ops, "slotted": rng.random() < 0.25}


_SLOT = []


def slot_pool():
    """a pool class that declares its attributes in __slots__ (as memory-conscious pool implementations with
    thousands of instances do); everything else about it is ordinary"""
    if not _SLOT:
        from cobald.interfaces import Pool

        class SlotPool(Pool):
            __slots__ = ("_supply", "_demand", "_utilisation", "_allocation", "cid")

            def __init__(self, supply, demand, utilisation, allocation):
                self._supply, self._demand, self._utilisation, self._allocation = supply, demand, utilisation, allocation

            supply = property(lambda self: self._supply)
            utilisation = property(lambda self: self._utilisation)
            allocation = property(lambda self: self._allocation)

            @property
            def demand(self):
                return self._demand

            @demand.setter
            def demand(self, v):
                self._demand = v
        _SLOT.append(SlotPool)
    return _SLOT[0]


def mkpool(c, slotted=False):
    p = (slot_pool() if slotted else RecPool)(unwire(c["supply"]), unwire(c["demand"]), unwire(c["util"]), unwire(c["alloc"]))
    p.cid = c["id"]
    return p


def snap(fp, objs):
    def ids(s):
        return sorted(c.cid for c in s)
    return {"hatchery": ids(fp._hatchery), "mortuary": ids(list(fp._mortuary)),
            "demands": [[c.cid, canon(c.demand)] for c in sorted(fp.children, key=lambda c: c.cid)],
            "spawned": fp._vh_spawned[0], "demand": canon(fp.demand), "supply": canon(fp.supply),
            "util": canon(fp.utilisation), "alloc": canon(fp.allocation)}


def impl(case):
    from cobald.composite.factory import FactoryPool
    slotted = bool(case.get("slotted"))
    objs = {c["id"]: mkpool(c, slotted) for c in case["children"]}
    spawned = [0]
    tmpls = case["factory"]

    def factory():
        t = dict(tmpls[spawned[0] % len(tmpls)])
        t["id"] = 1000 + spawned[0]
        spawned[0] += 1
        p = mkpool(t, slotted)
        objs[p.cid] = p
        return p

    fp = FactoryPool(*[objs[c["id"]] for c in case["children"]], factory=factory, interval=1)
    fp._vh_spawned = spawned
    obs = [snap(fp, objs)]
    trace = []
    err = []

    async def runner():
        try:
            await fp.run()
        except trio.Cancelled:
            raise
        except BaseException as e:
            err.append(type(e).__name__)

    async def main():
        async with trio.open_nursery() as nursery:
            nursery.start_soon(runner)
            await trio.sleep(0.5)
            for op in case["ops"]:
                if op[0] == "adj":
                    order = [c.cid for c in fp._hatchery]
                    trace.append(["adj", order])
                    await trio.sleep(1)
                    if err:
                        obs.append("error")
                        break
                elif op[0] == "Dnear":
                    act = sorted((c for c in fp._hatchery if c.demand > 0), key=lambda c: c.cid)
                    if not act:
                        continue
                    dc = F(act[op[1] % len(act)].demand)
                    del act        # (no stray references: released children must stay collectable)
                    val = sum((F(x.demand) for x in fp._hatchery), F(0)) - dc + op[2] * dc / op[3]
                    if val < 0:
                        continue
                    fp.demand = val
                    trace.append(["D", wire(val)])
                elif op[0] == "D":
                    fp.demand = unwire(op[1])
                    trace.append(op)
                elif op[0] == "c":
                    o = objs.get(op[1])
                    alive = o is not None and (o in fp._hatchery or o in fp._mortuary)
                    if not alive:
                        continue
                    setattr(o, "_" + FIELDS[op[2]], unwire(op[3]))
                    trace.append(op)
                elif op[0] == "gc":
                    o = objs.get(op[1])
                    if o is None or o in fp._hatchery or o not in fp._mortuary:
                        continue
                    del objs[op[1]]
                    del o
                    gc.collect()
                    trace.append(op)
                obs.append(snap(fp, objs))
            nursery.cancel_scope.cancel()

    vclock.run(main)
    return {"obs": obs, "trace": trace}


def line(case, o):
    return {"children": case["children"], "factory": case["factory"], "ops": o["trace"]}


def expect(case, o, m):
    if "driver_error" in m:
        return o, m
    return o["obs"], m["obs"]


def oracle(case, o):
    """reference checks of the C15 clauses on the implementation's own observations"""
    out = []
    obs = o["obs"]
    ti = 0
    prev = obs[0]
    ever_released = set(prev["mortuary"]) if isinstance(prev, dict) else set()
    initial = {c["id"] for c in case["children"]}
    for t, cur in zip(o["trace"], obs[1:]):
        if cur == "error":
            fac = case["factory"]
            if all(unwire(c["demand"]) > 0 for c in fac):
                out.append(("adjust-raised", "an adjustment raised although the factory produces children with demand"))
            break
        dem = {i: unwire(d) for i, d in cur["demands"]}
        pdem = {i: unwire(d) for i, d in prev["demands"]}
        if set(cur["hatchery"]) & set(cur["mortuary"]):
            out.append(("both-active-and-released", "children %r are both active and released" % sorted(set(cur["hatchery"]) & set(cur["mortuary"]))))
        back = set(cur["hatchery"]) & ever_released
        if back:
            out.append(("released-active-again", "released children %r are active again" % sorted(back)))
        ever_released |= set(cur["mortuary"])
        created = (set(cur["hatchery"]) | set(cur["mortuary"])) - initial
        if any(i < 1000 for i in created) or len([i for i in created]) > cur["spawned"]:
            out.append(("foreign-children", "children %r were not created by the factory" % sorted(created)))
        if t[0] == "adj":
            target = unwire(prev["demand"])
            grew = not (unwire(prev["supply"]) > target)
            newly_released = set(cur["mortuary"]) - set(prev["mortuary"])
            for i in newly_released:
                if dem.get(i) != 0:
                    out.append(("released-with-demand", "released child %d has demand %s" % (i, dem.get(i))))
            for i in cur["hatchery"]:
                if dem[i] <= 0:
                    out.append(("no-demand-kept", "child %d with demand %s is still active" % (i, dem[i])))
            if grew:
                new = [i for i in cur["hatchery"] + cur["mortuary"] if i not in pdem]
                before_sum = sum(pdem.values())
                # demands at spawn time: from the factory templates
                tm = case["factory"]
                spawn_dem = {i: unwire(tm[(i - 1000) % len(tm)]["demand"]) for i in new}
                total = before_sum + sum(spawn_dem.values())
                if new:
                    if total < target:
                        out.append(("grow-not-covering", "after growing, demands sum to %s < requested %s" % (total, target)))
                    last = max(new)
                    if total - spawn_dem[last] >= target:
                        out.append(("grow-too-much", "the child spawned last was not needed: %s without it, requested %s" % (total - spawn_dem[last], target)))
                elif before_sum < target:
                    out.append(("grow-missing", "demands sum to %s < requested %s but nothing was spawned" % (before_sum, target)))
            else:
                # shrink: releases (beyond reaping children without demand) must leave the request covered
                rel_pass = [i for i in newly_released if pdem.get(i, 0) > 0]
                remaining = sum(pdem[i] for i in prev["hatchery"] if i not in rel_pass)
                if rel_pass and remaining < target:
                    out.append(("shrink-unsafe", "after releasing %r the active demand %s no longer covers %s" % (sorted(rel_pass), remaining, target)))
                excess = remaining - target
                keepable = [i for i in prev["hatchery"] if i not in rel_pass and 0 < pdem[i] <= excess]
                if keepable:
                    out.append(("shrink-not-maximal", "children %r (demand <= remaining excess %s) could still be released" % (sorted(keepable), excess)))
        # aggregates
        # (recomputed from the children's values as the harness knows them is done by the model diff)
        prev = cur
    return out


def nontrivial(case, o):
    obs = [x for x in o["obs"] if isinstance(x, dict)]
    return any(a["hatchery"] != b["hatchery"] for a, b in zip(obs, obs[1:]))


def shrinks(case):
    ops = case["ops"]
    for i in range(len(ops) - 1):
        yield {**case, "ops": ops[:i] + ops[i + 1:]}
    cs = case["children"]
    for i in range(len(cs)):
        yield {**case, "children": cs[:i] + cs[i + 1:]}


def exhaustive(depth):
    """all histories up to `depth` over a small alphabet"""
    alphabet = [["D", "0/1"], ["D", "3/1"], ["D", "7/1"], ["adj"], ["c", 0, 3, "0/1"], ["c", 1, 0, "5/1"], ["c", 1000, 3, "0/1"]]
    base = {"children": [{"id": 0, "supply": "2/1", "util": "1/2", "alloc": "1/2", "demand": "2/1"},
                         {"id": 1, "supply": "1/1", "util": "1/1", "alloc": "1/1", "demand": "2/1"}],
            "factory": [{"id": 0, "supply": "1/1", "util": "1/1", "alloc": "1/1", "demand": "2/1"}]}
    def rec(prefix, d):
        if d == 0:
            yield prefix
            return
        for a in alphabet:
            yield from rec(prefix + [a], d - 1)
    for d in range(1, depth + 1):
        for ops in rec([], d):
            yield {**base, "ops": ops + [["adj"]]}


def run(ctx):
    rng = ctx.rng("hist")
    cases = [gen_case(rng, rng.randint(1, 60)) for _ in range(ctx.n(700, 8000))]
    corr.run_stream(ctx, "histories", cases, impl, line, oracle, nontrivial, shrinks, expect)
    ex = list(exhaustive(ctx.n(3, 4)))
    corr.run_stream(ctx, "exhaustive-small", ex, impl, line, oracle, nontrivial, shrinks, expect)
    ctx.notes["exhaustive_depth"] = ctx.n(3, 4)


def replay(payload):
    case = payload.get("case") or payload["disagreements"][0]["case"]
    o = impl(case)
    v = oracle(case, o)
    print(json.dumps({"impl": o, "oracle": v}, indent=1, default=str))
    return 1 if v else 0

"""C12 — Runtime lifecycle: exclusive accept, shutdown always completes, restart possible."""
from ..rt import check

STREAMS = ["lifecycle"]
REGENERATE_SRC = True
RULE = ("histories over 2..4 ServiceRunner instances: accept, a concurrent accept from another thread, then shutdown() "
        "from an outside thread, from two or three threads at once, or from a thread payload / SIGINT / a failing payload (Exception, SystemExit, another BaseException, a KeyboardInterrupt raised by the payload), shutdown() in the very instant the runner reports running (the worker holds the reporting thread up right after it set the flag), then accept on the next runner; a "
        "concurrent accept on the active instance itself right after shutdown() was called (polling period 0.2 s); shutdown() "
        "again, from one or two threads, on a runner whose run has ended; "
        "payload populations at that moment: none, sleeping coroutines, blocked threads; the moment is swept across the "
        "polling loop's period; outcome and duration of every call recorded; non-trivial = at least two payloads; "
        "distinct = distinct scenario")
ASSUMPTIONS = ["the wall-clock bound is the worker's watchdog (not modelled)",
               "shutdown() called from the asyncio or trio thread blocks that thread by construction: outside 'from any thread' as the quantifier lists it",
               "framework semantics enter the model as enabling conditions"]
TRUSTED = ["scenario engine (harness/vh/rt)"]


def oracle(sc, out):
    res = []
    log = out["log"]
    for run in sc["runs"]:
        rid = run["rid"]
        begin = next((e for e in log if e["kind"] == "accept-begin" and e.get("rid") == rid and not e.get("concurrent")), None)
        end = check.accept_end(out, rid)
        if begin is None:
            res.append(("no-restart", "runner %d never got to accept (an earlier run did not end)" % rid))
            break
        if end is None:
            res.append(("never-ends:%s" % run["end"], "runner %d: accept() did not end after %s" % (rid, run["end"])))
            break
        if run["end"] in ("shutdown", "shutdown-twice", "shutdown-thread-payload", "shutdown-adopters", "sigint") and end["result"] != "returned":
            res.append(("graceful-stop-raised:%s" % run["end"], "runner %d: after %s accept() ended with %s" % (rid, run["end"], end["result"])))
        # (failure-base: SystemExit / another BaseException / KeyboardInterrupt from a payload - the run ends,
        # how is C01's and C13's business; what matters here is that the next runner can accept)
        if run["end"] == "failure" and end["result"] != "RuntimeError":
            res.append(("failure-not-raised", "runner %d: a failing payload ended accept() with %s" % (rid, end["result"])))
        if run["end"] in ("shutdown", "shutdown-twice", "shutdown-thread-payload", "shutdown-adopters"):
            if not any(e["kind"] == "shutdown-return" and e.get("rid") == rid for e in log):
                res.append(("shutdown-hangs", "runner %d: shutdown() did not return" % rid))
        # every shutdown() call made while the runner was running returns - also when several threads call it at once
        calls_run = [e for e in log if e["kind"] == "shutdown-call" and e.get("rid") == rid and begin["seq"] < e["seq"] < end["seq"]]
        errs_run = [e for e in log if e["kind"] == "controller-error" and e.get("step") == "shutdown" and begin["seq"] < e["seq"] and (
            not [x for x in log if x["kind"] == "after-begin" and x.get("rid") == rid] or e["seq"] < [x for x in log if x["kind"] == "after-begin" and x.get("rid") == rid][0]["seq"])]
        nxt = next((e for e in log if e["kind"] == "accept-begin" and not e.get("concurrent") and e["seq"] > end["seq"]), None)
        errs_run = [e for e in errs_run if nxt is None or e["seq"] < nxt["seq"]]
        if calls_run and errs_run:
            res.append(("shutdown-raises:%s" % errs_run[0].get("etype"), "runner %d: one of %d shutdown() calls raised %s: %s" % (rid, len(calls_run), errs_run[0].get("etype"), errs_run[0].get("msg"))))
        # shutdown() on a runner that has ended returns as well (nothing is left to stop)
        late = [e for e in log if e["kind"] == "after-begin" and e.get("rid") == rid]
        if late:
            calls = [e for e in log if e["kind"] == "shutdown-call" and e.get("rid") == rid and e["seq"] > late[0]["seq"]]
            rets = [e for e in log if e["kind"] == "shutdown-return" and e.get("rid") == rid and e["seq"] > late[0]["seq"]]
            errs = [e for e in log if e["kind"] == "controller-error" and e.get("step") == "shutdown" and e["seq"] > late[0]["seq"]]
            if errs:
                res.append(("late-shutdown-raises", "shutdown() on runner %d after its run had ended raised %s: %s" % (rid, errs[0].get("etype"), errs[0].get("msg"))))
            elif len(rets) < len(calls):
                res.append(("late-shutdown-hangs", "shutdown() on runner %d after its run had ended did not return" % rid))
        # a concurrent accept must be rejected and leave the active runner undisturbed
        for a in log:
            # (a concurrent accept that arrives when the active run has just ended is let in rightly)
            if a["kind"] == "accept-admitted":
                cb = next((e for e in log if e["kind"] == "accept-begin" and e.get("concurrent") and e["thread"] == a["thread"]), None)
                cb = [e for e in log if e["kind"] == "accept-begin" and e.get("concurrent") and e.get("rid") == a.get("rid") and e["seq"] < a["seq"]]
                if cb and begin["seq"] < cb[-1]["seq"] and cb[-1]["t"] < end["t"] - 0.08:
                    res.append(("concurrent-accept-admitted", "a concurrent accept on runner %s was admitted while runner %d was accepting" % (a.get("rid"), rid)))
        conc = [e for e in log if e["kind"] == "accept-end" and e.get("concurrent") and begin["seq"] < e["seq"] < end["seq"]]
        for c in conc:
            if c["result"] != "RuntimeError" or c.get("has_cause"):
                res.append(("concurrent-accept-not-rejected", "a concurrent accept ended with %s instead of a plain RuntimeError" % c["result"]))
        asked = any(e["kind"] in ("shutdown-call", "sigint") and begin["seq"] < e["seq"] < end["seq"] for e in log)
        if conc and not asked and run["end"] not in ("failure", "failure-base"):
            res.append(("active-runner-disturbed", "the active runner ended before it was asked to, after a rejected concurrent accept"))
    return res


def run(ctx):
    check.run_family(ctx, "lifecycle", ctx.n(64, 800), oracle)


def replay(payload):
    return check.replay(payload, oracle)

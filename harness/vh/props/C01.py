"""C01 — Background failures always stop the daemon (fail-stop, never silent)."""
from ..rt import check

STREAMS = ["failure"]
REGENERATE_SRC = True
RULE = ("gated scenarios against the real ServiceRunner in worker processes (accept() in the main thread): bystanders "
        "(0..3 per flavour: sleeping, spinning, blocked) + one to three failing payloads (flavour x failure kind incl. "
        "every falsy return value x registration: queued, adopted from outside, adopted from inside a payload of each "
        "flavour, service created before / after start; failures of the call itself, plain callables, ~40 exception classes "
        "incl. those asyncio re-creates between futures, exception objects as return values), released together by a gate "
        "once everything has started; one scenario in eight is about a single payload returning a falsy value; in one scenario out of seven the runtime object has already been through a blocking run that ended by a failure; asyncio bystanders that suppress one to three cancellations; the "
        "logged events are replayed on the Lean LTS (subset-construction acceptor) and the outcome is judged by the "
        "oracle; non-trivial = at least two payloads; distinct = distinct scenario")
ASSUMPTIONS = ["asyncio / trio / threading semantics enter the model as enabling conditions of its events (DESIGN §7.1): assumptions",
               "real thread interleavings inside the frameworks are sampled, not enumerated; 'a generous bound' = watchdog of the worker",
               "a failure landing after closing has begun may be dropped (latch closed): outside the statement"]
TRUSTED = ["scenario engine (harness/vh/rt): gates, event log, mapping of log entries to model events"]


def oracle(sc, out):
    res = []
    fails = [p for p in sc["payloads"] if p.get("role") == "failing"]
    hard = [p for p in fails if p["out"]["kind"] in ("exc", "value", "baseExc")]
    end = check.accept_end(out)
    ended_bodies = {e["pid"] for e in check.by_kind(out, "body-end")}
    if end is None:
        res.append(("never-ends", "a payload failed but the run neither returned nor raised within the bound (failing: %r)" % [(p["pid"], p["fl"], p["out"]) for p in fails]))
        return res
    hard_done = [p for p in hard if p["pid"] in ended_bodies]
    # a KeyboardInterrupt at (nearly) the same time may win: then the run may end without an error
    interrupted = any(p["out"]["kind"] == "kbd" and p["pid"] in ended_bodies for p in fails) or bool(check.by_kind(out, "sigint"))
    if hard_done:
        if end["result"] == "returned" and interrupted:
            return res
        if end["result"] == "returned":
            res.append(("returned-normally", "payload(s) %r failed but the run returned normally" % [(p["pid"], p["fl"], p["out"], p.get("mode")) for p in hard_done]))
            return res
        causes = end.get("causes", [])
        pids = {c.get("pid", c.get("orphan_pid")) for c in causes} - {None}
        if not pids & {p["pid"] for p in fails}:
            res.append(("cause-lost", "the run raised %s but no failing payload is among its causes %r" % (end["result"], causes)))
        elif any(c.get("is_original") is False for c in causes):
            res.append(("cause-not-original", "the cause is not the original exception object"))
        only_soft = all(p["out"]["kind"] in ("exc", "value") for p in fails)
        if only_soft and end["result"] != "RuntimeError":
            res.append(("wrong-error-type", "Exception / value failures must surface as RuntimeError, got %s" % end["result"]))
    return res


def run(ctx):
    check.run_family(ctx, "failure", ctx.n(96, 1500), oracle)


def replay(payload):
    return check.replay(payload, oracle)

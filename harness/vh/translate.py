"""A small Python -> Lean translator for the decision functions of /repo (second kind of tie: the
model text is regenerated from the source on every run and theorems that equate it with the
hand-written model are re-checked by the kernel).

Supported subset: a function whose body is an if / elif / else chain of `return <expr>` or of one
assignment to the controlled attribute (`x.demand = e`, `x.demand += e`, `x.demand -= e`; no branch
= unchanged), with expressions built from names, attribute chains, numbers, + - * //, and the
comparisons < > <= >=; and chains of `s.replace(a, b)` calls with one-character `a`.
Anything else makes the translator emit `untranslatable` markers, which break the equivalence
theorems (a broken proof obligation, handled by the protocol of DESIGN §5.1).
"""
import ast
import inspect
import os
import textwrap

from . import lean

REL = os.path.join("CobaldVerif", "Generated", "Src.lean")


class Untranslatable(Exception):
    pass


def _name(node):
    """self.target.utilisation -> target_utilisation ; value -> value"""
    parts = []
    while isinstance(node, ast.Attribute):
        parts.append(node.attr)
        node = node.value
    if not isinstance(node, ast.Name):
        raise Untranslatable(ast.dump(node))
    if node.id != "self":
        parts.append(node.id)
    return "_".join(reversed(parts))


def expr(node, ren):
    if isinstance(node, (ast.Name, ast.Attribute)):
        n = _name(node)
        if n not in ren:
            raise Untranslatable("unknown name %s" % n)
        return ren[n]
    if isinstance(node, ast.Constant) and isinstance(node.value, int) and not isinstance(node.value, bool):
        return "(%d : Rat)" % node.value
    if isinstance(node, ast.BinOp) and isinstance(node.op, ast.FloorDiv):
        return "(((%s / %s).floor : Int) : Rat)" % (expr(node.left, ren), expr(node.right, ren))
    if isinstance(node, ast.BinOp):
        op = {ast.Add: "+", ast.Sub: "-", ast.Mult: "*"}.get(type(node.op))
        if op is None:
            raise Untranslatable(ast.dump(node.op))
        return "(%s %s %s)" % (expr(node.left, ren), op, expr(node.right, ren))
    if isinstance(node, ast.Compare) and len(node.ops) == 1:
        a, b = expr(node.left, ren), expr(node.comparators[0], ren)
        op = type(node.ops[0])
        # the models are written with < and ≤ only
        if op is ast.Lt:
            return "%s < %s" % (a, b)
        if op is ast.Gt:
            return "%s < %s" % (b, a)
        if op is ast.LtE:
            return "%s ≤ %s" % (a, b)
        if op is ast.GtE:
            return "%s ≤ %s" % (b, a)
    raise Untranslatable(ast.dump(node))


def body(stmts, ren, controlled):
    """translate a statement list to a Lean expression for the returned value / the new value of
    the controlled attribute; `None` result of the walk = fall through (value unchanged)"""
    stmts = [s for s in stmts if not (isinstance(s, ast.Expr) and isinstance(s.value, ast.Constant))]  # docstrings
    if not stmts:
        if controlled is None:
            raise Untranslatable("falls off the end")
        return ren[controlled]
    s = stmts[0]
    if isinstance(s, ast.Return) and controlled is None:
        return expr(s.value, ren)
    if isinstance(s, ast.If):
        cond = expr(s.test, ren)
        then = body(s.body, ren, controlled)
        rest = body(s.orelse if s.orelse else stmts[1:], ren, controlled)
        if s.orelse and len(stmts) > 1:
            raise Untranslatable("statements after a complete if/else")
        return "if %s then %s else %s" % (cond, then, rest)
    if controlled is not None and len(stmts) == 1:
        if isinstance(s, ast.Assign) and len(s.targets) == 1 and _name(s.targets[0]) == controlled:
            return expr(s.value, ren)
        if isinstance(s, ast.AugAssign) and _name(s.target) == controlled:
            op = {ast.Add: "+", ast.Sub: "-"}.get(type(s.op))
            if op:
                return "(%s %s %s)" % (ren[controlled], op, expr(s.value, ren))
    raise Untranslatable(ast.dump(s)[:200])


def function(fn, ren, controlled=None):
    src = textwrap.dedent(inspect.getsource(fn))
    tree = ast.parse(src).body[0]
    return body(tree.body, ren, controlled)


def replace_chain(node):
    """x.replace(a, b).replace(c, d) ... -> [(a, b), (c, d)] in application order"""
    pairs = []
    while isinstance(node, ast.Call) and isinstance(node.func, ast.Attribute) and node.func.attr == "replace":
        a, b = node.args
        if not (isinstance(a, ast.Constant) and isinstance(b, ast.Constant) and isinstance(a.value, str) and len(a.value) == 1
                and isinstance(b.value, str)):
            raise Untranslatable("replace arguments")
        pairs.append((a.value, b.value))
        node = node.func.value
    if not isinstance(node, ast.Name):
        raise Untranslatable("replace chain does not start at a name")
    return list(reversed(pairs))


def find_replace_chains(fn):
    """all maximal `.replace` chains in a function, in source order"""
    tree = ast.parse(textwrap.dedent(inspect.getsource(fn)))
    found, inner = [], set()
    for node in ast.walk(tree):
        if isinstance(node, ast.Call) and isinstance(node.func, ast.Attribute) and node.func.attr == "replace":
            if isinstance(node.func.value, ast.Call):
                inner.add(id(node.func.value))
    for node in ast.walk(tree):
        if isinstance(node, ast.Call) and isinstance(node.func, ast.Attribute) and node.func.attr == "replace" and id(node) not in inner:
            found.append((node.lineno, node.col_offset, replace_chain(node)))
    return [c for _, _, c in sorted(found)]


def dispatch_table(fn):
    """`load(config_path)`: which file extensions select which loader.  The first if-chain of the
    function must test `os.path.splitext(config_path)[1]` with `in (<constants>)` or `== <constant>`;
    a branch is classified by the loader function it calls; the final else must raise."""
    fn = getattr(fn, "__wrapped__", fn)
    tree = ast.parse(textwrap.dedent(inspect.getsource(fn))).body[0]
    chain = next((st for st in tree.body if isinstance(st, ast.If)), None)
    if chain is None:
        raise Untranslatable("no if-chain")
    table = {"yaml": [], "python": []}

    def is_ext(node):
        return (isinstance(node, ast.Subscript) and isinstance(node.value, ast.Call)
                and ast.unparse(node.value.func) == "os.path.splitext" and ast.unparse(node.slice) == "1")
    node = chain
    while True:
        t = node.test
        if not (isinstance(t, ast.Compare) and len(t.ops) == 1 and is_ext(t.left)):
            raise Untranslatable("condition %s" % ast.unparse(t))
        comp = t.comparators[0]
        if isinstance(t.ops[0], ast.In) and isinstance(comp, (ast.Tuple, ast.List, ast.Set)) and all(
                isinstance(e, ast.Constant) and isinstance(e.value, str) for e in comp.elts):
            exts = [e.value for e in comp.elts]
        elif isinstance(t.ops[0], ast.Eq) and isinstance(comp, ast.Constant) and isinstance(comp.value, str):
            exts = [comp.value]
        else:
            raise Untranslatable("condition %s" % ast.unparse(t))
        names = {n.id for st in node.body for n in ast.walk(st) if isinstance(n, ast.Name)}
        kinds = [k for k, f in (("yaml", "load_yaml_configuration"), ("python", "load_python_configuration")) if f in names]
        if len(kinds) != 1:
            raise Untranslatable("branch calls %s" % kinds)
        table[kinds[0]] += exts
        if len(node.orelse) == 1 and isinstance(node.orelse[0], ast.If):
            node = node.orelse[0]
            continue
        if not (len(node.orelse) == 1 and isinstance(node.orelse[0], ast.Raise)):
            raise Untranslatable("the final else does not raise")
        return table


def factory_run(fn):
    """`FactoryPool.run`: sleep first, then `supply, demand = self.supply, self.demand` and one if / else that
    shrinks or grows towards `demand`; returns the Lean condition under which it shrinks"""
    tree = ast.parse(textwrap.dedent(inspect.getsource(fn))).body[0]
    loop = next((st for st in tree.body if isinstance(st, ast.While)), None)
    if loop is None or not (isinstance(loop.test, ast.Constant) and loop.test.value is True):
        raise Untranslatable("no `while True` loop")
    stmts = loop.body
    if not (len(stmts) == 3 and isinstance(stmts[0], ast.Expr) and isinstance(stmts[0].value, ast.Await)
            and ast.unparse(stmts[0].value.value) == "trio.sleep(self.interval)"):
        raise Untranslatable("the loop does not start with `await trio.sleep(self.interval)`")
    if ast.unparse(stmts[1]) != "(supply, demand) = (self.supply, self.demand)" and ast.unparse(stmts[1]) != "supply, demand = (self.supply, self.demand)":
        raise Untranslatable("freeze: %s" % ast.unparse(stmts[1]))
    branch = stmts[2]
    if not (isinstance(branch, ast.If) and len(branch.body) == 1 and len(branch.orelse) == 1):
        raise Untranslatable("decision: %s" % ast.unparse(branch)[:80])
    if ast.unparse(branch.body[0]) != "self._shrink(target=demand)" or ast.unparse(branch.orelse[0]) != "self._grow(target=demand)":
        raise Untranslatable("branches: %s / %s" % (ast.unparse(branch.body[0]), ast.unparse(branch.orelse[0])))
    return "decide (%s)" % expr(branch.test, {"supply": "supply", "demand": "demand"})


def sleeps_first(fn):
    """a periodic `run`: one `while True` loop whose body contains exactly one `await trio.sleep(<period>)`,
    as its first statement (sleep, then act) or as its last one (act, then sleep)"""
    tree = ast.parse(textwrap.dedent(inspect.getsource(fn))).body[0]
    loops = [st for st in tree.body if isinstance(st, ast.While)]
    if len(loops) != 1 or not (isinstance(loops[0].test, ast.Constant) and loops[0].test.value is True) or loops[0].orelse:
        raise Untranslatable("not a single `while True` loop")
    if any(isinstance(n, (ast.Break, ast.Return)) for n in ast.walk(loops[0])):
        raise Untranslatable("the loop can be left")
    body_ = loops[0].body

    def is_sleep(st):
        return (isinstance(st, ast.Expr) and isinstance(st.value, ast.Await) and isinstance(st.value.value, ast.Call)
                and ast.unparse(st.value.value.func) == "trio.sleep" and len(st.value.value.args) == 1
                and ast.unparse(st.value.value.args[0]) in ("self.interval", "interval", "self.window"))
    idx = [i for i, st in enumerate(body_) if is_sleep(st)]
    awaits = [n for n in ast.walk(loops[0]) if isinstance(n, ast.Await)]
    if len(idx) != 1 or len(awaits) != 1:
        raise Untranslatable("not exactly one sleep of one period per iteration")
    if idx[0] == 0 and len(body_) > 1:
        return "true"
    if idx[0] == len(body_) - 1 and len(body_) > 1:
        return "false"
    raise Untranslatable("the sleep is neither first nor last")


def guard_shape():
    """`exclusive()` of runners/guard.py: the wrapped call is made iff a *non-blocking* acquire of the
    guard succeeds, the guard is released in the `finally` of exactly that call (and nowhere else), and
    the other branch only raises RuntimeError"""
    from cobald.daemon.runners import guard
    tree = ast.parse(textwrap.dedent(inspect.getsource(guard.exclusive)))
    fn = next((n for n in ast.walk(tree) if isinstance(n, ast.FunctionDef) and n.name == "exclusive_call"), None)
    if fn is None:
        raise Untranslatable("no exclusive_call")
    stmts = [st for st in fn.body if not (isinstance(st, ast.Expr) and isinstance(st.value, ast.Constant))]
    if len(stmts) != 1 or not isinstance(stmts[0], ast.If):
        raise Untranslatable("body is not one if/else")
    top = stmts[0]
    if ast.unparse(top.test) != "fnc_guard.acquire(blocking=False)":
        raise Untranslatable("condition %s" % ast.unparse(top.test))
    if not (len(top.body) == 1 and isinstance(top.body[0], ast.Try) and not top.body[0].handlers and not top.body[0].orelse):
        raise Untranslatable("the admitted branch is not try/finally")
    tr = top.body[0]
    if [ast.unparse(x) for x in tr.body] != ["return fnc(*args, **kwargs)"] or [ast.unparse(x) for x in tr.finalbody] != ["fnc_guard.release()"]:
        raise Untranslatable("try/finally: %s / %s" % ([ast.unparse(x) for x in tr.body], [ast.unparse(x) for x in tr.finalbody]))
    if not (len(top.orelse) == 1 and isinstance(top.orelse[0], ast.Raise) and ast.unparse(top.orelse[0].exc).startswith("RuntimeError(")):
        raise Untranslatable("the rejecting branch: %s" % [ast.unparse(x) for x in top.orelse])
    if sum(1 for n in ast.walk(fn) if isinstance(n, ast.Attribute) and n.attr in ("release", "acquire")) != 2:
        raise Untranslatable("the guard is touched elsewhere")
    return "true"


def monitor_shape(fn, call, passthrough=()):
    """a runner's `_monitor_payload`: `try: result = <call>` with the given pass-through handlers (re-raise)
    followed by `except BaseException as e: failure = e`, `else: if result is None: return` and
    `failure = OrphanedReturn(payload, result)`: every outcome but a returned None is a failure"""
    tree = ast.parse(textwrap.dedent(inspect.getsource(fn))).body[0]
    tr = next((st for st in tree.body if isinstance(st, ast.Try)), None)
    if tr is None or tree.body.index(tr) != 0 or tr.finalbody:
        raise Untranslatable("does not start with try/except/else")
    if [ast.unparse(x) for x in tr.body] != ["result = " + call]:
        raise Untranslatable("try body %s" % [ast.unparse(x) for x in tr.body])
    hs = list(tr.handlers)
    if passthrough:
        h0 = hs.pop(0) if hs else None
        if h0 is None or ast.unparse(h0.type) != passthrough[0] or [ast.unparse(x) for x in h0.body] != ["raise"]:
            raise Untranslatable("pass-through handler")
    if len(hs) != 1 or ast.unparse(hs[0].type) != "BaseException" or [ast.unparse(x) for x in hs[0].body] != ["failure = %s" % hs[0].name]:
        raise Untranslatable("failure handler: %s" % [ast.unparse(h.type) for h in hs])
    if [ast.unparse(x) for x in tr.orelse] != ["if result is None:\n    return", "failure = OrphanedReturn(payload, result)"]:
        raise Untranslatable("else branch: %s" % [ast.unparse(x) for x in tr.orelse])
    return "true"


def strs_lean(l):
    return "[" + ", ".join('"%s"' % x.replace("\\", "\\\\").replace('"', '\\"') for x in l) + "]"


def chars(s):
    def esc(c):
        return {"'": "'\\''", "\\": "'\\\\'", "\n": "'\\n'"}.get(c, "'%s'" % c)
    return "[" + ", ".join(esc(c) for c in s) + "]"


def pairs_lean(pairs):
    return "[" + ", ".join("(%s, %s)" % (chars(a)[1:-1], chars(b)) for a, b in pairs) + "]"


def safe(name, thunk, typ):
    try:
        return "def %s : %s :=\n  %s" % (name, typ.split("|")[0], thunk()) if "|" not in typ else None
    except Untranslatable as e:
        return "-- untranslatable: %s\ndef %s_untranslatable : String := %s" % (str(e)[:120].replace("\n", " "), name, '"source outside the translated subset"')


def render():
    from cobald.decorator import standardiser
    from cobald.controller.linear import LinearController
    from cobald.controller.relative_supply import RelativeSupplyController
    from cobald.monitor import format_line
    out = ["/- GENERATED by harness/vh/translate.py from the source text of /repo — do not edit.",
           "   Regenerated on every run of the checks that depend on it (C01 C06 C08 C09 C12 C13 C15 C17); the theorems `gen_*` in",
           "   their Props files equate these definitions with the hand-written models and are thereby",
           "   re-checked against what the code says now. -/",
           "import CobaldVerif.Model.Num", "", "namespace Cobald.Gen", "open Cobald Cobald.ERat", ""]

    def emit(name, sig, typ, thunk):
        try:
            out.append("def %s %s : %s :=\n  %s\n" % (name, sig, typ, thunk()))
        except Untranslatable as e:
            out.append("-- untranslatable (%s)\ndef %sUntranslatable : String := \"source outside the translated subset\"\n"
                       % (str(e)[:100].replace("\n", " "), name))

    emit("clamp", "(low value high : ERat)", "ERat",
         lambda: function(standardiser._clamp, {"low": "low", "value": "value", "high": "high"}))
    emit("floor", "(n base : Rat)", "Rat", lambda: function(standardiser._floor, {"n": "n", "base": "base"}))
    emit("linearRegulate", "(util alloc demand low high rate interval : Rat)", "Rat",
         lambda: function(LinearController.regulate,
                          {"target_utilisation": "util", "target_allocation": "alloc", "target_demand": "demand", "low_utilisation": "low",
                           "high_allocation": "high", "rate": "rate", "interval": "interval"}, controlled="target_demand"))
    emit("relSupplyRegulate", "(util alloc supply demand low high lowScale highScale : Rat)", "Rat",
         lambda: function(RelativeSupplyController.regulate,
                          {"target_utilisation": "util", "target_allocation": "alloc", "target_supply": "supply", "target_demand": "demand",
                           "low_utilisation": "low", "high_allocation": "high", "low_scale": "lowScale", "high_scale": "highScale"},
                          controlled="target_demand"))

    def chain_of(fn, i, n):
        cs = find_replace_chains(fn)
        if len(cs) != n:
            raise Untranslatable("%d replace chains in %s, expected %d" % (len(cs), fn.__name__, n))
        return pairs_lean(cs[i])
    emit("escapeKeyPairs", "", "List (Char × List Char)", lambda: chain_of(format_line.escape_key, 0, 1))
    emit("escapeFieldPairs", "", "List (Char × List Char)", lambda: chain_of(format_line.escape_field, 0, 1))
    emit("escapeNamePairs", "", "List (Char × List Char)", lambda: chain_of(format_line.line_protocol, 0, 1))
    emit("guardShape", "", "Bool", guard_shape)
    from cobald.daemon.runners.asyncio_runner import AsyncioRunner
    from cobald.daemon.runners.thread_runner import ThreadRunner
    emit("monitorShapeAsyncio", "", "Bool", lambda: monitor_shape(AsyncioRunner._monitor_payload, "await payload()",
                                                                  passthrough=("(asyncio.CancelledError, KeyboardInterrupt)",)))
    emit("monitorShapeThread", "", "Bool", lambda: monitor_shape(ThreadRunner._monitor_payload, "payload()"))
    from cobald.composite.factory import FactoryPool
    from cobald.controller.switch import DemandSwitch
    from cobald.controller.stepwise import Stepwise
    from cobald.decorator.buffer import Buffer
    for nm, cls in (("Linear", LinearController), ("Rel", RelativeSupplyController), ("Switch", DemandSwitch),
                    ("Stepwise", Stepwise), ("Buffer", Buffer), ("Factory", FactoryPool)):
        emit("sleepsFirst" + nm, "", "Bool", lambda cls=cls: sleeps_first(cls.run))
    emit("factoryShrinks", "(supply demand : Rat)", "Bool", lambda: factory_run(FactoryPool.run))
    import cobald.daemon.core.config as core_config
    emit("dispatchYaml", "", "List String", lambda: strs_lean(dispatch_table(core_config.load)["yaml"]))
    emit("dispatchPython", "", "List String", lambda: strs_lean(dispatch_table(core_config.load)["python"]))
    out += ["end Cobald.Gen", ""]
    return "\n".join(out)


def regenerate():
    """returns True if the generated text changed"""
    return lean.write_generated(REL, render())

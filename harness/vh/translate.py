"""A small Python -> Lean translator for the decision functions of /repo (second kind of tie: the
model text is regenerated from the source on every run and theorems that equate it with the
hand-written model are re-checked by the kernel).

Supported subset: a function whose body is an if / elif / else chain of `return <expr>` or of one
assignment to the controlled attribute (`x.demand = e`, `x.demand += e`, `x.demand -= e`; no branch
= unchanged), with expressions built from names, attribute chains, numbers, + - * //, and the
comparisons < > <= >=; and chains of `s.replace(a, b)` calls with one-character `a`.
Anything else makes the translator emit `untranslatable` markers, which break the equivalence
theorems (a broken proof obligation, handled by the protocol of DESIGN §5.1).

Further down: translators for whole classes - the composite pools (C07), DemandSwitch / RangeSelector /
Stepwise (C08), Standardiser (C06) - each with its own generated file.
"""
import ast
import inspect
import os
import textwrap

from . import lean

REL = os.path.join("CobaldVerif", "Generated", "Src.lean")


class Untranslatable(Exception):
    pass


def _name(node):
    """self.target.utilisation -> target_utilisation ; value -> value"""
    parts = []
    while isinstance(node, ast.Attribute):
        parts.append(node.attr)
        node = node.value
    if not isinstance(node, ast.Name):
        raise Untranslatable(ast.dump(node))
    if node.id != "self":
        parts.append(node.id)
    return "_".join(reversed(parts))


def expr(node, ren):
    if isinstance(node, (ast.Name, ast.Attribute)):
        n = _name(node)
        if n not in ren:
            raise Untranslatable("unknown name %s" % n)
        return ren[n]
    if isinstance(node, ast.Constant) and isinstance(node.value, int) and not isinstance(node.value, bool):
        return "(%d : Rat)" % node.value
    if isinstance(node, ast.BinOp) and isinstance(node.op, ast.FloorDiv):
        return "(((%s / %s).floor : Int) : Rat)" % (expr(node.left, ren), expr(node.right, ren))
    if isinstance(node, ast.BinOp):
        op = {ast.Add: "+", ast.Sub: "-", ast.Mult: "*"}.get(type(node.op))
        if op is None:
            raise Untranslatable(ast.dump(node.op))
        return "(%s %s %s)" % (expr(node.left, ren), op, expr(node.right, ren))
    if isinstance(node, ast.Compare) and len(node.ops) == 1:
        a, b = expr(node.left, ren), expr(node.comparators[0], ren)
        op = type(node.ops[0])
        # the models are written with < and ≤ only
        if op is ast.Lt:
            return "%s < %s" % (a, b)
        if op is ast.Gt:
            return "%s < %s" % (b, a)
        if op is ast.LtE:
            return "%s ≤ %s" % (a, b)
        if op is ast.GtE:
            return "%s ≤ %s" % (b, a)
    raise Untranslatable(ast.dump(node))


def body(stmts, ren, controlled):
    """translate a statement list to a Lean expression for the returned value / the new value of
    the controlled attribute; `None` result of the walk = fall through (value unchanged)"""
    stmts = [s for s in stmts if not (isinstance(s, ast.Expr) and isinstance(s.value, ast.Constant))]  # docstrings
    if not stmts:
        if controlled is None:
            raise Untranslatable("falls off the end")
        return ren[controlled]
    s = stmts[0]
    if isinstance(s, ast.Return) and controlled is None:
        return expr(s.value, ren)
    if isinstance(s, ast.If):
        cond = expr(s.test, ren)
        then = body(s.body, ren, controlled)
        rest = body(s.orelse if s.orelse else stmts[1:], ren, controlled)
        if s.orelse and len(stmts) > 1:
            raise Untranslatable("statements after a complete if/else")
        return "if %s then %s else %s" % (cond, then, rest)
    if controlled is not None and len(stmts) == 1:
        if isinstance(s, ast.Assign) and len(s.targets) == 1 and _name(s.targets[0]) == controlled:
            return expr(s.value, ren)
        if isinstance(s, ast.AugAssign) and _name(s.target) == controlled:
            op = {ast.Add: "+", ast.Sub: "-"}.get(type(s.op))
            if op:
                return "(%s %s %s)" % (ren[controlled], op, expr(s.value, ren))
    raise Untranslatable(ast.dump(s)[:200])


def function(fn, ren, controlled=None):
    src = textwrap.dedent(inspect.getsource(fn))
    tree = ast.parse(src).body[0]
    return body(tree.body, ren, controlled)


def replace_chain(node):
    """x.replace(a, b).replace(c, d) ... -> [(a, b), (c, d)] in application order"""
    pairs = []
    while isinstance(node, ast.Call) and isinstance(node.func, ast.Attribute) and node.func.attr == "replace":
        a, b = node.args
        if not (isinstance(a, ast.Constant) and isinstance(b, ast.Constant) and isinstance(a.value, str) and len(a.value) == 1
                and isinstance(b.value, str)):
            raise Untranslatable("replace arguments")
        pairs.append((a.value, b.value))
        node = node.func.value
    if not isinstance(node, ast.Name):
        raise Untranslatable("replace chain does not start at a name")
    return list(reversed(pairs))


def find_replace_chains(fn):
    """all maximal `.replace` chains in a function, in source order"""
    tree = ast.parse(textwrap.dedent(inspect.getsource(fn)))
    found, inner = [], set()
    for node in ast.walk(tree):
        if isinstance(node, ast.Call) and isinstance(node.func, ast.Attribute) and node.func.attr == "replace":
            if isinstance(node.func.value, ast.Call):
                inner.add(id(node.func.value))
    for node in ast.walk(tree):
        if isinstance(node, ast.Call) and isinstance(node.func, ast.Attribute) and node.func.attr == "replace" and id(node) not in inner:
            found.append((node.lineno, node.col_offset, replace_chain(node)))
    return [c for _, _, c in sorted(found)]


def dispatch_table(fn):
    """`load(config_path)`: which file extensions select which loader.  The first if-chain of the
    function must test `os.path.splitext(config_path)[1]` with `in (<constants>)` or `== <constant>`;
    a branch is classified by the loader function it calls; the final else must raise."""
    fn = getattr(fn, "__wrapped__", fn)
    tree = ast.parse(textwrap.dedent(inspect.getsource(fn))).body[0]
    chain = next((st for st in tree.body if isinstance(st, ast.If)), None)
    if chain is None:
        raise Untranslatable("no if-chain")
    table = {"yaml": [], "python": []}

    def is_ext(node):
        return (isinstance(node, ast.Subscript) and isinstance(node.value, ast.Call)
                and ast.unparse(node.value.func) == "os.path.splitext" and ast.unparse(node.slice) == "1")
    node = chain
    while True:
        t = node.test
        if not (isinstance(t, ast.Compare) and len(t.ops) == 1 and is_ext(t.left)):
            raise Untranslatable("condition %s" % ast.unparse(t))
        comp = t.comparators[0]
        if isinstance(t.ops[0], ast.In) and isinstance(comp, (ast.Tuple, ast.List, ast.Set)) and all(
                isinstance(e, ast.Constant) and isinstance(e.value, str) for e in comp.elts):
            exts = [e.value for e in comp.elts]
        elif isinstance(t.ops[0], ast.Eq) and isinstance(comp, ast.Constant) and isinstance(comp.value, str):
            exts = [comp.value]
        else:
            raise Untranslatable("condition %s" % ast.unparse(t))
        names = {n.id for st in node.body for n in ast.walk(st) if isinstance(n, ast.Name)}
        kinds = [k for k, f in (("yaml", "load_yaml_configuration"), ("python", "load_python_configuration")) if f in names]
        if len(kinds) != 1:
            raise Untranslatable("branch calls %s" % kinds)
        table[kinds[0]] += exts
        if len(node.orelse) == 1 and isinstance(node.orelse[0], ast.If):
            node = node.orelse[0]
            continue
        if not (len(node.orelse) == 1 and isinstance(node.orelse[0], ast.Raise)):
            raise Untranslatable("the final else does not raise")
        return table


def factory_run(fn):
    """`FactoryPool.run`: sleep first, then `supply, demand = self.supply, self.demand` and one if / else that
    shrinks or grows towards `demand`; returns the Lean condition under which it shrinks"""
    tree = ast.parse(textwrap.dedent(inspect.getsource(fn))).body[0]
    loop = next((st for st in tree.body if isinstance(st, ast.While)), None)
    if loop is None or not (isinstance(loop.test, ast.Constant) and loop.test.value is True):
        raise Untranslatable("no `while True` loop")
    stmts = loop.body
    if not (len(stmts) == 3 and isinstance(stmts[0], ast.Expr) and isinstance(stmts[0].value, ast.Await)
            and ast.unparse(stmts[0].value.value) == "trio.sleep(self.interval)"):
        raise Untranslatable("the loop does not start with `await trio.sleep(self.interval)`")
    if ast.unparse(stmts[1]) != "(supply, demand) = (self.supply, self.demand)" and ast.unparse(stmts[1]) != "supply, demand = (self.supply, self.demand)":
        raise Untranslatable("freeze: %s" % ast.unparse(stmts[1]))
    branch = stmts[2]
    if not (isinstance(branch, ast.If) and len(branch.body) == 1 and len(branch.orelse) == 1):
        raise Untranslatable("decision: %s" % ast.unparse(branch)[:80])
    if ast.unparse(branch.body[0]) != "self._shrink(target=demand)" or ast.unparse(branch.orelse[0]) != "self._grow(target=demand)":
        raise Untranslatable("branches: %s / %s" % (ast.unparse(branch.body[0]), ast.unparse(branch.orelse[0])))
    return "decide (%s)" % expr(branch.test, {"supply": "supply", "demand": "demand"})


def sleeps_first(fn):
    """a periodic `run`: one `while True` loop whose body contains exactly one `await trio.sleep(<period>)`,
    as its first statement (sleep, then act) or as its last one (act, then sleep)"""
    tree = ast.parse(textwrap.dedent(inspect.getsource(fn))).body[0]
    loops = [st for st in tree.body if isinstance(st, ast.While)]
    if len(loops) != 1 or not (isinstance(loops[0].test, ast.Constant) and loops[0].test.value is True) or loops[0].orelse:
        raise Untranslatable("not a single `while True` loop")
    if any(isinstance(n, (ast.Break, ast.Return)) for n in ast.walk(loops[0])):
        raise Untranslatable("the loop can be left")
    body_ = loops[0].body

    def is_sleep(st):
        return (isinstance(st, ast.Expr) and isinstance(st.value, ast.Await) and isinstance(st.value.value, ast.Call)
                and ast.unparse(st.value.value.func) == "trio.sleep" and len(st.value.value.args) == 1
                and ast.unparse(st.value.value.args[0]) in ("self.interval", "interval", "self.window"))
    idx = [i for i, st in enumerate(body_) if is_sleep(st)]
    awaits = [n for n in ast.walk(loops[0]) if isinstance(n, ast.Await)]
    if len(idx) != 1 or len(awaits) != 1:
        raise Untranslatable("not exactly one sleep of one period per iteration")
    if idx[0] == 0 and len(body_) > 1:
        return "true"
    if idx[0] == len(body_) - 1 and len(body_) > 1:
        return "false"
    raise Untranslatable("the sleep is neither first nor last")


def guard_shape():
    """`exclusive()` of runners/guard.py: the wrapped call is made iff a *non-blocking* acquire of the
    guard succeeds, the guard is released in the `finally` of exactly that call (and nowhere else), and
    the other branch only raises RuntimeError"""
    from cobald.daemon.runners import guard
    tree = ast.parse(textwrap.dedent(inspect.getsource(guard.exclusive)))
    fn = next((n for n in ast.walk(tree) if isinstance(n, ast.FunctionDef) and n.name == "exclusive_call"), None)
    if fn is None:
        raise Untranslatable("no exclusive_call")
    stmts = [st for st in fn.body if not (isinstance(st, ast.Expr) and isinstance(st.value, ast.Constant))]
    if len(stmts) != 1 or not isinstance(stmts[0], ast.If):
        raise Untranslatable("body is not one if/else")
    top = stmts[0]
    if ast.unparse(top.test) != "fnc_guard.acquire(blocking=False)":
        raise Untranslatable("condition %s" % ast.unparse(top.test))
    if not (len(top.body) == 1 and isinstance(top.body[0], ast.Try) and not top.body[0].handlers and not top.body[0].orelse):
        raise Untranslatable("the admitted branch is not try/finally")
    tr = top.body[0]
    if [ast.unparse(x) for x in tr.body] != ["return fnc(*args, **kwargs)"] or [ast.unparse(x) for x in tr.finalbody] != ["fnc_guard.release()"]:
        raise Untranslatable("try/finally: %s / %s" % ([ast.unparse(x) for x in tr.body], [ast.unparse(x) for x in tr.finalbody]))
    if not (len(top.orelse) == 1 and isinstance(top.orelse[0], ast.Raise) and ast.unparse(top.orelse[0].exc).startswith("RuntimeError(")):
        raise Untranslatable("the rejecting branch: %s" % [ast.unparse(x) for x in top.orelse])
    if sum(1 for n in ast.walk(fn) if isinstance(n, ast.Attribute) and n.attr in ("release", "acquire")) != 2:
        raise Untranslatable("the guard is touched elsewhere")
    return "true"


def monitor_shape(fn, call, passthrough=()):
    """a runner's `_monitor_payload`: `try: result = <call>` with the given pass-through handlers (re-raise)
    followed by `except BaseException as e: failure = e`, `else: if result is None: return` and
    `failure = OrphanedReturn(payload, result)`: every outcome but a returned None is a failure"""
    tree = ast.parse(textwrap.dedent(inspect.getsource(fn))).body[0]
    tr = next((st for st in tree.body if isinstance(st, ast.Try)), None)
    if tr is None or tree.body.index(tr) != 0 or tr.finalbody:
        raise Untranslatable("does not start with try/except/else")
    if [ast.unparse(x) for x in tr.body] != ["result = " + call]:
        raise Untranslatable("try body %s" % [ast.unparse(x) for x in tr.body])
    hs = list(tr.handlers)
    if passthrough:
        h0 = hs.pop(0) if hs else None
        if h0 is None or ast.unparse(h0.type) != passthrough[0] or [ast.unparse(x) for x in h0.body] != ["raise"]:
            raise Untranslatable("pass-through handler")
    if len(hs) != 1 or ast.unparse(hs[0].type) != "BaseException" or [ast.unparse(x) for x in hs[0].body] != ["failure = %s" % hs[0].name]:
        raise Untranslatable("failure handler: %s" % [ast.unparse(h.type) for h in hs])
    if [ast.unparse(x) for x in tr.orelse] != ["if result is None:\n    return", "failure = OrphanedReturn(payload, result)"]:
        raise Untranslatable("else branch: %s" % [ast.unparse(x) for x in tr.orelse])
    return "true"


def daemon_start():
    """core/main.py: `run` ends with `runtime.adopt(_load_services, configuration, flavour=asyncio)` followed by a bare
    `runtime.accept()` (no handler around it: what accept raises leaves the process), and `_load_services` keeps the
    loaded configuration alive inside `with load(path):` for as long as it is not cancelled"""
    import cobald.daemon.core.main as m
    st = _fn_body(m.run)
    tail = [ast.unparse(x) for x in st[-2:]]
    if tail != ["runtime.adopt(_load_services, configuration, flavour=asyncio)", "runtime.accept()"]:
        raise Untranslatable("run ends with %s" % tail)
    if any(isinstance(n, (ast.Try, ast.With)) for x in st for n in ast.walk(x)) or sum("runtime." in ast.unparse(x) for x in st) != 2:
        raise Untranslatable("run wraps or repeats the runtime calls")
    ls = _fn_body(m._load_services)
    if len(ls) != 1 or not isinstance(ls[0], ast.With) or [ast.unparse(i.context_expr) for i in ls[0].items] != ["load(path)"] \
            or [ast.unparse(x) for x in ls[0].body] != ["await asyncio.sleep(float('inf'))"]:
        raise Untranslatable("_load_services: %s" % [ast.unparse(x)[:60] for x in ls])
    cr = [ast.unparse(x) for x in _fn_body(m.cli_run)]
    if len(cr) != 2 or cr[0] != "options = CLI.parse_args()" or not cr[1].startswith("run(configuration=options.CONFIGURATION,"):
        raise Untranslatable("cli_run: %s" % cr)
    return '["adopt:_load_services:asyncio", "accept"]'


def pipeline_walk():
    """core/config.py PipelineTranslator.translate_hierarchy: only the lookup `structure["pipeline"]` sits inside the
    try (KeyError / TypeError there mean "not a pipeline section" and fall back to the plain translator); the walk goes
    last to first; the last element is translated without target and constructed if it is still a template; every
    other element is bound with `>>` if it has one, else translated with `target=<previous object>`; the result is in
    configuration order"""
    from cobald.daemon.core.config import PipelineTranslator
    st = _fn_body(PipelineTranslator.translate_hierarchy)
    if len(st) != 1 or not isinstance(st[0], ast.Try):
        raise Untranslatable("translate_hierarchy is not one try statement")
    tr = st[0]
    if [ast.unparse(x) for x in tr.body] != ["pipeline = structure['pipeline']"] or tr.finalbody or len(tr.handlers) != 1 \
            or _nz(ast.unparse(tr.handlers[0].type)) != "KeyError, TypeError" \
            or [ast.unparse(x) for x in tr.handlers[0].body] != ["return super().translate_hierarchy(structure, where=where, **construct_kwargs)"]:
        raise Untranslatable("the guarded part: %s / %s" % ([ast.unparse(x)[:50] for x in tr.body], [ast.unparse(x)[:50] for x in tr.handlers[0].body] if tr.handlers else None))
    e = tr.orelse
    if len(e) != 3 or _nz(ast.unparse(e[0])) != "prev_item, items = None, []" or ast.unparse(e[2]) != "return list(reversed(items))" or not isinstance(e[1], ast.For):
        raise Untranslatable("walk frame: %s" % [ast.unparse(x)[:40] for x in e])
    lp = e[1]
    if _nz(ast.unparse(lp.target)) != "index, item" or ast.unparse(lp.iter) != "reversed(list(enumerate(pipeline)))" or lp.orelse or len(lp.body) != 3:
        raise Untranslatable("walk loop: %s" % ast.unparse(lp)[:80])
    br, asr, app = lp.body
    if ast.unparse(asr) != "assert not isinstance(prev_item, Partial)" or ast.unparse(app) != "items.append(prev_item)":
        raise Untranslatable("loop tail: %s" % [ast.unparse(asr)[:50], ast.unparse(app)[:50]])
    want_some = ["if hasattr(item, '__rshift__'):\n    prev_item = item >> prev_item\nelse:\n    prev_item = self.translate_hierarchy(item, where='%s[%s]' % (where, index), target=prev_item)"]
    want_none = ["prev_item = self.translate_hierarchy(item, where='%s[%s]' % (where, index))",
                 "if isinstance(prev_item, Partial):\n    prev_item = prev_item.__construct__()"]
    if not (isinstance(br, ast.If) and ast.unparse(br.test) == "prev_item is not None"
            and [ast.unparse(x) for x in br.body] == want_some and [ast.unparse(x) for x in br.orelse] == want_none):
        raise Untranslatable("construction step: %s" % ast.unparse(br)[:120])
    return "true"


TRANSLATOR_TEXT = ("try:\n    if isinstancestructure, dict:\n        structure = {key: self.translate_hierarchyvalue, where='%s.%s' % where, key for key, value in structure.items}\n"
                   "        if TYPEKEY in structure:\n            return self.constructstructure, **construct_kwargs\n        return structure\n"
                   "    elif isinstancestructure, list:\n        return listreversed[self.translate_hierarchyitem, where='%s[%s]' % where, index for index, item in reversedlistenumeratestructure]\n"
                   "    else:\n        return structure\nexcept ConfigurationError as err:\n    if err.where is None:\n        raise ConfigurationErrorwhat=err.what, where=where from err\n    raise\n"
                   "except Exception as err:\n    raise ConfigurationErrorwhere=where, what=err from err")
CONSTRUCT_TEXT = ["assert TYPEKEY not in kwargs and ARGSKEY not in kwargs", "mapping = {**mapping, **kwargs}", "factory_fqdn = mapping.popTYPEKEY",
                  "factory = self.load_namefactory_fqdn", "args = mapping.popARGSKEY, []", "return factory*args, **mapping"]


def translator_keys():
    """config/mapping.py Translator: `translate_hierarchy` and `construct` are, up to layout, the text the model was
    transcribed from (mapping values in insertion order, then the node itself if it has the type key; list items last
    to first, result in list order; scalars unchanged; errors get the location of the innermost frame that saw them;
    construct pops the type key, resolves it, pops the positional-arguments key with default [], calls the factory).
    Returns the two reserved keys."""
    from cobald.daemon.config.mapping import Translator
    th = [_nz(ast.unparse(x)) for x in _fn_body(Translator.translate_hierarchy)]
    cs = [_nz(ast.unparse(x)) for x in _fn_body(Translator.construct)]
    import re
    m = re.match(r"factory_fqdn = mapping\.pop('[^']*')$", cs[2]) if len(cs) == 6 else None
    a = re.match(r"args = mapping\.pop('[^']*'), \[\]$", cs[4]) if len(cs) == 6 else None
    if not m or not a:
        raise Untranslatable("construct: %s" % cs)
    tk, ak = m.group(1), a.group(1)
    if cs != [x.replace("TYPEKEY", tk).replace("ARGSKEY", ak) for x in CONSTRUCT_TEXT]:
        raise Untranslatable("construct differs from the transcribed text: %s" % cs)
    if th != [TRANSLATOR_TEXT.replace("TYPEKEY", tk)]:
        raise Untranslatable("translate_hierarchy differs from the transcribed text")
    return "[%s, %s]" % (tk.replace("'", '"'), ak.replace("'", '"'))


# --------------------------------------------------------------------------- runtime glue (C02 C03 C10 C11): pinned text
PINS_FILE = os.path.join(os.path.dirname(os.path.abspath(__file__)), "pins.json")
PIN_MODULES = ["service", "meta_runner", "base_runner", "asyncio_runner", "trio_runner", "thread_runner"]
# further transcribed code without a translation of its own: the `>>` algebra (C04), the formatters (C17), the YAML
# constructors (C05 C18), the Python configuration loader (C13), the constraints decorator (C14)
PIN_MODULES_OTHER = {"partial": "cobald.interfaces._partial", "format_line": "cobald.monitor.format_line", "format_json": "cobald.monitor.format_json",
                     "yaml": "cobald.daemon.config.yaml", "python": "cobald.daemon.config.python", "plugins": "cobald.daemon.plugins"}


def _is_log(st):
    return isinstance(st, ast.Expr) and isinstance(st.value, ast.Call) and ast.unparse(st.value.func).startswith(("self._logger.", "logging.", "logger."))


class _Strip(ast.NodeTransformer):
    """drop docstrings, pure logging statements and annotations: they say nothing about behaviour"""

    def visit_FunctionDef(self, node):
        self.generic_visit(node)
        body = [st for st in node.body if not (isinstance(st, ast.Expr) and isinstance(st.value, ast.Constant)) and not _is_log(st)]
        node.body = body or [ast.Pass()]
        node.returns = None
        for a in node.args.args + node.args.kwonlyargs + node.args.posonlyargs + [x for x in (node.args.vararg, node.args.kwarg) if x]:
            a.annotation = None
        return node
    visit_AsyncFunctionDef = visit_FunctionDef

    def _block(self, node):
        self.generic_visit(node)
        for f in ("body", "orelse", "finalbody"):
            if hasattr(node, f) and isinstance(getattr(node, f), list):
                kept = [st for st in getattr(node, f) if not _is_log(st)]
                if f == "body" and not kept:
                    kept = [ast.Pass()]
                setattr(node, f, kept)
        return node
    visit_If = visit_For = visit_While = visit_With = visit_AsyncWith = visit_Try = visit_ExceptHandler = _block

    def visit_AnnAssign(self, node):
        if node.value is None:
            return None
        return ast.copy_location(ast.Assign(targets=[node.target], value=node.value), node)


def runtime_texts():
    """qualified name -> normalised text of every function of the runner modules"""
    import importlib
    out = {}
    mods = [(mod, "cobald.daemon.runners." + mod) for mod in PIN_MODULES] + sorted(PIN_MODULES_OTHER.items())
    for mod, full in mods:
        m = importlib.import_module(full)
        tree = _Strip().visit(ast.parse(inspect.getsource(m)))
        ast.fix_missing_locations(tree)

        def walk(node, prefix):
            for ch in ast.iter_child_nodes(node):
                if isinstance(ch, ast.ClassDef):
                    walk(ch, prefix + ch.name + ".")
                elif isinstance(ch, (ast.FunctionDef, ast.AsyncFunctionDef)):
                    if ch.name not in ("__repr__", "__str__"):
                        out[mod + ":" + prefix + ch.name] = _nz(ast.unparse(ch))
                    walk(ch, prefix + ch.name + ".")
        walk(tree, "")
    return out


def runtime_pins():
    """which functions still read as they did when the runtime model (LTS events and their guards, the blocking model
    of execute) was last transcribed from them (harness/vh/pins.json, written by tools/mkpins.py)"""
    import json as _json
    want = _json.load(open(PINS_FILE))
    have = runtime_texts()
    names = sorted(set(want) | set(have))
    return "[" + ", ".join('("%s", %s)' % (n, "true" if want.get(n) == have.get(n) else "false") for n in names) + "]"


def run_outcome():
    """MetaRunner.run: `asyncio.run(self._manage_runners())` inside one try statement; a KeyboardInterrupt ends the
    run by a normal return, any other Exception becomes `RuntimeError(...) from err`, everything else (BaseExceptions)
    leaves as it is; the finally clause only logs"""
    from cobald.daemon.runners.meta_runner import MetaRunner
    st = [x for x in _fn_body(MetaRunner.run) if not _is_log(x)]
    if len(st) != 1 or not isinstance(st[0], ast.Try):
        raise Untranslatable("run is not one try statement")
    tr = st[0]
    if [ast.unparse(x) for x in tr.body if not _is_log(x)] != ["asyncio.run(self._manage_runners())"] or tr.orelse:
        raise Untranslatable("guarded call: %s" % [ast.unparse(x)[:50] for x in tr.body])
    if any(not _is_log(x) for x in tr.finalbody):
        raise Untranslatable("the finally clause does more than log")
    pairs = []
    for h in tr.handlers:
        body_ = [x for x in h.body if not _is_log(x)]
        if not body_:
            act = "return"
        elif len(body_) == 1 and isinstance(body_[0], ast.Raise) and body_[0].exc is not None and ast.unparse(body_[0].exc).startswith("RuntimeError(") \
                and body_[0].cause is not None and ast.unparse(body_[0].cause) == h.name:
            act = "raise RuntimeError from it"
        else:
            raise Untranslatable("handler %s: %s" % (ast.unparse(h.type), [ast.unparse(x)[:50] for x in body_]))
        pairs.append((ast.unparse(h.type), act))
    return "[" + ", ".join('("%s", "%s")' % kv for kv in pairs) + "]"


def strs_lean(l):
    return "[" + ", ".join('"%s"' % x.replace("\\", "\\\\").replace('"', '\\"') for x in l) + "]"


def chars(s):
    def esc(c):
        return {"'": "'\\''", "\\": "'\\\\'", "\n": "'\\n'"}.get(c, "'%s'" % c)
    return "[" + ", ".join(esc(c) for c in s) + "]"


def pairs_lean(pairs):
    return "[" + ", ".join("(%s, %s)" % (chars(a)[1:-1], chars(b)) for a, b in pairs) + "]"


def safe(name, thunk, typ):
    try:
        return "def %s : %s :=\n  %s" % (name, typ.split("|")[0], thunk()) if "|" not in typ else None
    except Untranslatable as e:
        return "-- untranslatable: %s\ndef %s_untranslatable : String := %s" % (str(e)[:120].replace("\n", " "), name, '"source outside the translated subset"')


def render():
    from cobald.decorator import standardiser
    from cobald.controller.linear import LinearController
    from cobald.controller.relative_supply import RelativeSupplyController
    from cobald.monitor import format_line
    out = ["/- GENERATED by harness/vh/translate.py from the source text of /repo — do not edit.",
           "   Regenerated on every run of the checks that depend on it (C01 C06 C08 C09 C12 C13 C15 C17); the theorems `gen_*` in",
           "   their Props files equate these definitions with the hand-written models and are thereby",
           "   re-checked against what the code says now. -/",
           "import CobaldVerif.Model.Num", "", "namespace Cobald.Gen", "open Cobald Cobald.ERat", ""]

    def emit(name, sig, typ, thunk):
        try:
            out.append("def %s %s : %s :=\n  %s\n" % (name, sig, typ, thunk()))
        except Untranslatable as e:
            out.append("-- untranslatable (%s)\ndef %sUntranslatable : String := \"source outside the translated subset\"\n"
                       % (str(e)[:100].replace("\n", " "), name))

    emit("clamp", "(low value high : ERat)", "ERat",
         lambda: function(standardiser._clamp, {"low": "low", "value": "value", "high": "high"}))
    emit("floor", "(n base : Rat)", "Rat", lambda: function(standardiser._floor, {"n": "n", "base": "base"}))
    emit("linearRegulate", "(util alloc demand low high rate interval : Rat)", "Rat",
         lambda: function(LinearController.regulate,
                          {"target_utilisation": "util", "target_allocation": "alloc", "target_demand": "demand", "low_utilisation": "low",
                           "high_allocation": "high", "rate": "rate", "interval": "interval"}, controlled="target_demand"))
    emit("relSupplyRegulate", "(util alloc supply demand low high lowScale highScale : Rat)", "Rat",
         lambda: function(RelativeSupplyController.regulate,
                          {"target_utilisation": "util", "target_allocation": "alloc", "target_supply": "supply", "target_demand": "demand",
                           "low_utilisation": "low", "high_allocation": "high", "low_scale": "lowScale", "high_scale": "highScale"},
                          controlled="target_demand"))

    def chain_of(fn, i, n):
        cs = find_replace_chains(fn)
        if len(cs) != n:
            raise Untranslatable("%d replace chains in %s, expected %d" % (len(cs), fn.__name__, n))
        return pairs_lean(cs[i])
    emit("escapeKeyPairs", "", "List (Char × List Char)", lambda: chain_of(format_line.escape_key, 0, 1))
    emit("escapeFieldPairs", "", "List (Char × List Char)", lambda: chain_of(format_line.escape_field, 0, 1))
    emit("escapeNamePairs", "", "List (Char × List Char)", lambda: chain_of(format_line.line_protocol, 0, 1))
    emit("guardShape", "", "Bool", guard_shape)
    from cobald.daemon.runners.asyncio_runner import AsyncioRunner
    from cobald.daemon.runners.thread_runner import ThreadRunner
    emit("monitorShapeAsyncio", "", "Bool", lambda: monitor_shape(AsyncioRunner._monitor_payload, "await payload()",
                                                                  passthrough=("(asyncio.CancelledError, KeyboardInterrupt)",)))
    emit("monitorShapeThread", "", "Bool", lambda: monitor_shape(ThreadRunner._monitor_payload, "payload()"))
    from cobald.composite.factory import FactoryPool
    from cobald.controller.switch import DemandSwitch
    from cobald.controller.stepwise import Stepwise
    from cobald.decorator.buffer import Buffer
    for nm, cls in (("Linear", LinearController), ("Rel", RelativeSupplyController), ("Switch", DemandSwitch),
                    ("Stepwise", Stepwise), ("Buffer", Buffer), ("Factory", FactoryPool)):
        emit("sleepsFirst" + nm, "", "Bool", lambda cls=cls: sleeps_first(cls.run))
    emit("factoryShrinks", "(supply demand : Rat)", "Bool", lambda: factory_run(FactoryPool.run))
    import cobald.daemon.core.config as core_config
    emit("dispatchYaml", "", "List String", lambda: strs_lean(dispatch_table(core_config.load)["yaml"]))
    emit("dispatchPython", "", "List String", lambda: strs_lean(dispatch_table(core_config.load)["python"]))
    emit("daemonStart", "", "List String", daemon_start)
    emit("pipelineWalkShape", "", "Bool", pipeline_walk)
    emit("translatorKeys", "", "List String", translator_keys)
    emit("runOutcome", "", "List (String × String)", run_outcome)
    emit("runtimePins", "", "List (String × Bool)", runtime_pins)
    out.append("/-- the function still reads as it did when the runtime model was transcribed from it -/\n"
               "def pinned (n : String) : Bool := (runtimePins.lookup n) == some true\n")
    out += ["end Cobald.Gen", ""]
    return "\n".join(out)


# --------------------------------------------------------------------------- composites (C07)
REL_COMPOSITE = os.path.join("CobaldVerif", "Generated", "SrcComposite.lean")
CHILD_FIELDS = {"supply": "supply", "utilisation": "util", "allocation": "alloc", "demand": "demand"}


class CompositeTr:
    """Expressions of the composite pools -> Lean terms over `cs : List Child`, `a : Attr` (the weighting
    attribute) and `D : Rat` (the written value).  `sum(E for x in self.children)` becomes `sumOf (fun x => E) cs`,
    `getattr(x, self._weight)` becomes `x.get a`, `len(self.children)` becomes the length, properties of `self`
    (`_total_weight`, `supply`, `_undefined_fitness()`) are translated in place from their own source.
    `try: <X> except ZeroDivisionError: <Y>` becomes `if d = 0 then Y else X` for the divisor `d` of X (exactly
    one division may occur in X): Python's exact numbers raise ZeroDivisionError iff the divisor is zero."""

    def __init__(self, cls):
        self.cls = cls
        self.divisors = []

    def prop(self, name):
        member = inspect.getattr_static(self.cls, name)
        fn = member.fget if isinstance(member, property) else member
        tree = ast.parse(textwrap.dedent(inspect.getsource(fn))).body[0]
        stmts = [st for st in tree.body if not (isinstance(st, ast.Expr) and isinstance(st.value, ast.Constant))]
        return stmts

    def value_of(self, name, env):
        """a property / helper of self whose body is `return E` or try-return / except ZeroDivisionError-return"""
        return self.returning(self.prop(name), env)

    def returning(self, stmts, env):
        if len(stmts) == 1 and isinstance(stmts[0], ast.Return):
            return self.expr(stmts[0].value, env)
        if len(stmts) == 1 and isinstance(stmts[0], ast.Try):
            return self.guarded(stmts[0], env, lambda body: self.returning(body, env))
        raise Untranslatable("body: %s" % ast.unparse(stmts[0])[:80] if stmts else "empty body")

    def guarded(self, tr, env, walk):
        if tr.finalbody or tr.orelse or len(tr.handlers) != 1 or ast.unparse(tr.handlers[0].type) != "ZeroDivisionError" or tr.handlers[0].name:
            raise Untranslatable("try statement other than try / except ZeroDivisionError")
        saved, self.divisors = self.divisors, []
        x = walk(tr.body)
        ds, self.divisors = self.divisors, saved
        if len(ds) != 1:
            raise Untranslatable("%d divisions inside the guarded expression" % len(ds))
        y = walk(tr.handlers[0].body)
        return "(if %s = 0 then %s else %s)" % (ds[0], y, x)

    def expr(self, node, env):
        if isinstance(node, ast.Name):
            if node.id in env:
                return env[node.id]
            raise Untranslatable("unknown name %s" % node.id)
        if isinstance(node, ast.Constant) and isinstance(node.value, (int, float)) and not isinstance(node.value, bool) and node.value == int(node.value):
            return "(%d : Rat)" % int(node.value)
        if isinstance(node, ast.Attribute) and isinstance(node.value, ast.Name):
            if node.value.id == "self":
                if node.attr in ("_total_weight", "supply"):
                    return self.value_of(node.attr, env)
                raise Untranslatable("self.%s" % node.attr)
            if node.value.id in env and node.attr in CHILD_FIELDS and env.get("$child:" + node.value.id):
                return "%s.%s" % (env[node.value.id], CHILD_FIELDS[node.attr])
            raise Untranslatable(ast.unparse(node))
        if isinstance(node, ast.Call):
            f = ast.unparse(node.func)
            if f == "getattr" and len(node.args) == 2 and ast.unparse(node.args[1]) == "self._weight" and isinstance(node.args[0], ast.Name) \
                    and env.get("$child:" + node.args[0].id):
                return "%s.get a" % env[node.args[0].id]
            if f == "len" and len(node.args) == 1 and ast.unparse(node.args[0]) in ("self.children", env.get("$children", "self.children")):
                return "(cs.length : Rat)"
            if f == "self._undefined_fitness" and not node.args:
                return self.value_of("_undefined_fitness", env)
            if f == "sum" and len(node.args) == 1 and isinstance(node.args[0], ast.GeneratorExp):
                g = node.args[0]
                if len(g.generators) != 1 or g.generators[0].ifs or not isinstance(g.generators[0].target, ast.Name) \
                        or ast.unparse(g.generators[0].iter) not in ("self.children", env.get("$children", "self.children")):
                    raise Untranslatable(ast.unparse(g))
                v = g.generators[0].target.id
                inner = dict(env, **{v: v, "$child:" + v: True})
                return "(sumOf (fun %s => %s) cs)" % (v, self.expr(g.elt, inner))
            raise Untranslatable(ast.unparse(node)[:80])
        if isinstance(node, ast.BinOp):
            op = {ast.Add: "+", ast.Sub: "-", ast.Mult: "*", ast.Div: "/"}.get(type(node.op))
            if op is None:
                raise Untranslatable(ast.dump(node.op))
            l, r = self.expr(node.left, env), self.expr(node.right, env)
            if op == "/":
                self.divisors.append(r)
            return "(%s %s %s)" % (l, op, r)
        if isinstance(node, ast.IfExp) and isinstance(node.test, ast.Compare) and len(node.test.ops) == 1:
            a, b = self.expr(node.test.left, env), self.expr(node.test.comparators[0], env)
            c = {ast.Lt: "%s < %s" % (a, b), ast.Gt: "%s < %s" % (b, a), ast.LtE: "%s ≤ %s" % (a, b), ast.GtE: "%s ≤ %s" % (b, a)}.get(type(node.test.ops[0]))
            if c is None:
                raise Untranslatable(ast.unparse(node.test))
            return "(if %s then %s else %s)" % (c, self.expr(node.body, env), self.expr(node.orelse, env))
        raise Untranslatable(ast.unparse(node)[:80])

    def shares(self):
        """the demand setter: store the value, then give every child its share"""
        stmts = self.prop("demand")  # fget
        member = inspect.getattr_static(self.cls, "demand")
        tree = ast.parse(textwrap.dedent(inspect.getsource(member.fset))).body[0]
        stmts = [st for st in tree.body if not (isinstance(st, ast.Expr) and isinstance(st.value, ast.Constant))]
        src = [ast.unparse(st) for st in stmts]
        if len(stmts) != 3 or src[0] != "self._demand = value" or src[1] != "child_count = len(self.children)" or not isinstance(stmts[2], ast.For):
            raise Untranslatable("setter statements: %s" % src[:3])
        loop = stmts[2]
        if loop.orelse or not isinstance(loop.target, ast.Name) or ast.unparse(loop.iter) != "self.children" or len(loop.body) != 1:
            raise Untranslatable("loop: %s" % ast.unparse(loop)[:80])
        v = loop.target.id
        env = {"value": "D", "child_count": "(cs.length : Rat)", v: v, "$child:" + v: True}

        def assign(body):
            if len(body) != 1 or not isinstance(body[0], ast.Assign) or ast.unparse(body[0].targets[0]) != "%s.demand" % v:
                raise Untranslatable("loop body: %s" % ast.unparse(body[0])[:80])
            return self.expr(body[0].value, env)
        st = loop.body[0]
        share = self.guarded(st, env, assign) if isinstance(st, ast.Try) else assign([st])
        return "cs.map (fun %s => %s)" % (v, share)

    def stored_demand_read(self):
        """the demand getter returns the stored value"""
        stmts = self.prop("demand")
        if [ast.unparse(st) for st in stmts] != ["return self._demand"]:
            raise Untranslatable("demand getter")
        return "true"

    def init_demand(self):
        tree = ast.parse(textwrap.dedent(inspect.getsource(self.cls.__init__))).body[0]
        stmts = [ast.unparse(st) for st in tree.body if not isinstance(st, (ast.Assert, ast.Expr))]
        want = ["self._demand = sum((child.demand for child in children))", "self.children = list(children)"]
        rest = [x for x in stmts if x != "self._weight = weight"]
        if rest != want:
            raise Untranslatable("__init__: %s" % rest)
        return "(sumOf (fun child => child.demand) cs)"


def render_composite():
    from cobald.composite.uniform import UniformComposite
    from cobald.composite.weighted import WeightedComposite
    out = ["/- GENERATED by harness/vh/translate.py from the source text of /repo (cobald/composite/uniform.py, weighted.py)",
           "   — do not edit.  Regenerated on every run of the C07 check; the theorems `gen_*` of Props/C07.lean equate these",
           "   definitions with the hand-written model. -/",
           "import CobaldVerif.Model.Composite", "", "namespace Cobald.Gen.Composite", "open Cobald Cobald.Composite", ""]

    def emit(name, sig, typ, thunk):
        try:
            out.append("def %s %s : %s :=\n  %s\n" % (name, sig, typ, thunk()))
        except Untranslatable as e:
            out.append("-- untranslatable (%s)\ndef %sUntranslatable : String := \"source outside the translated subset\"\n"
                       % (str(e)[:100].replace("\n", " "), name))
    for nm, cls, sig in (("uniform", UniformComposite, "(cs : List Child)"), ("weighted", WeightedComposite, "(a : Attr) (cs : List Child)")):
        emit(nm + "Shares", sig + " (D : Rat)", "List Rat", lambda cls=cls: CompositeTr(cls).shares())
        emit(nm + "ReadsStored", "", "Bool", lambda cls=cls: CompositeTr(cls).stored_demand_read())
        emit(nm + "InitDemand", "(cs : List Child)", "Rat", lambda cls=cls: CompositeTr(cls).init_demand())
        emit(nm + "Supply", "(cs : List Child)", "Rat", lambda cls=cls: CompositeTr(cls).value_of("supply", {}))
        emit(nm + "Utilisation", sig, "Rat", lambda cls=cls: CompositeTr(cls).value_of("utilisation", {}))
        emit(nm + "Allocation", sig, "Rat", lambda cls=cls: CompositeTr(cls).value_of("allocation", {}))
    out += ["end Cobald.Gen.Composite", ""]
    return "\n".join(out)


# --------------------------------------------------------------------------- DemandSwitch / Stepwise (C08)
REL_CONTROLLERS = os.path.join("CobaldVerif", "Generated", "SrcControllers.lean")


def _nz(x):
    """unparsed text without parentheses (their placement differs between Python versions)"""
    return x.replace("(", "").replace(")", "")


def _fn_body(fn):
    tree = ast.parse(textwrap.dedent(inspect.getsource(fn))).body[0]
    return [st for st in tree.body if not (isinstance(st, ast.Expr) and isinstance(st.value, ast.Constant))]


def cmp_chain(test, ren, optional=()):
    """`a <= b < c` -> conjunction; a comparison `x < h` against a name in `optional` (an upper bound that may be
    +inf, `none` in the model) becomes `belowHigh x h = true`"""
    if not isinstance(test, ast.Compare):
        raise Untranslatable(ast.unparse(test))
    terms = [test.left] + list(test.comparators)
    parts = []
    for l, op, r in zip(terms, test.ops, terms[1:]):
        if isinstance(r, ast.Name) and r.id in optional:
            if not isinstance(op, ast.Lt):
                raise Untranslatable("comparison with the open upper bound: %s" % ast.unparse(test))
            parts.append("belowHigh %s %s = true" % (expr(l, ren), ren[r.id]))
            continue
        parts.append(expr(ast.Compare(left=l, ops=[op], comparators=[r]), ren))
    return " ∧ ".join(parts)


def switch_select():
    """DemandSwitch.regulate: start from the default, walk the (sorted) slaves, take every one whose
    threshold satisfies the condition, regulate with the last one taken"""
    from cobald.controller.switch import DemandSwitch
    st = _fn_body(DemandSwitch.regulate)
    if len(st) != 3 or ast.unparse(st[0]) != "chosen = self._default" or not isinstance(st[1], ast.For) \
            or ast.unparse(st[2]) != "chosen.regulate(interval)":
        raise Untranslatable("regulate: %s" % [ast.unparse(x)[:40] for x in st])
    loop = st[1]
    if _nz(ast.unparse(loop.target)) != "demand, slave" or ast.unparse(loop.iter) != "self._slaves" or loop.orelse or len(loop.body) != 1:
        raise Untranslatable("loop header %s" % ast.unparse(loop)[:60])
    br = loop.body[0]
    if not (isinstance(br, ast.If) and not br.orelse and [ast.unparse(x) for x in br.body] == ["chosen = slave"]):
        raise Untranslatable("loop body %s" % ast.unparse(br)[:60])
    cond = cmp_chain(br.test, {"demand": "ts.1", "target_demand": "demand"})
    return "sorted.foldl (fun chosen ts => if %s then ts.2 else chosen) dflt" % cond


def switch_ctor():
    """DemandSwitch.__init__: the slaves are kept sorted by threshold, and the default and every slave are
    bound to the switch's own target, unconditionally"""
    from cobald.controller.switch import DemandSwitch
    src = [_nz(ast.unparse(x)) for x in _fn_body(DemandSwitch.__init__)]
    for need in ("self._slaves = tuple(sorted(pairwise(slaves)))", "default.target = target",
                 "for (_, slave) in self._slaves:\n    slave.target = target", "self._default = default"):
        if _nz(need) not in src:
            raise Untranslatable("constructor lacks `%s`" % need.replace("\n", " "))
    if sum(1 for x in src if "_slaves =" in x) != 1 or sum(1 for x in src if ".target = " in x) != 2:
        raise Untranslatable("constructor assigns slaves / targets elsewhere too")
    return "true"


def get_rule():
    """RangeSelector.get_rule: the first range of the lookup table that contains the supply"""
    from cobald.controller.stepwise import RangeSelector
    st = _fn_body(RangeSelector.get_rule)
    if len(st) != 1 or not isinstance(st[0], ast.For):
        raise Untranslatable("get_rule is not one loop")
    loop = st[0]
    if _nz(ast.unparse(loop.target)) != "low, high, rule" or not (isinstance(loop.target, ast.Tuple) and isinstance(loop.target.elts[0], ast.Tuple)) or ast.unparse(loop.iter) != "self._lookup.items()" or loop.orelse or len(loop.body) != 1:
        raise Untranslatable("loop header %s" % ast.unparse(loop)[:60])
    br = loop.body[0]
    if not (isinstance(br, ast.If) and not br.orelse and [ast.unparse(x) for x in br.body] == ["return rule"]):
        raise Untranslatable("loop body %s" % ast.unparse(br)[:60])
    cond = cmp_chain(br.test, {"low": "low", "high": "high", "supply": "supply"}, optional=("high",))
    return cond


def compile_lookup():
    """RangeSelector._compile_lookup: rules sorted by threshold; consecutive bounds 0, t1, t2, ..., +inf paired with
    base, r1, r2, ...; equal consecutive bounds are rejected.  Returns the first lower bound."""
    from cobald.controller.stepwise import RangeSelector
    st = _fn_body(RangeSelector._compile_lookup)
    src = [ast.unparse(x) for x in st]
    want_tail = ["lookup = {}", "(thresholds, _rules) = zip(*sorted(rules))", None, "return lookup"]
    if len(st) != 5 or not isinstance(st[0], ast.If) or [_nz(x) for x in src[1:3]] != [_nz(x) for x in want_tail[:2]] or src[4] != "return lookup" or not isinstance(st[3], ast.For):
        raise Untranslatable("_compile_lookup: %s" % [x[:30] for x in src])
    m = ast.unparse(st[0])
    if not m.startswith("if not rules:\n    return {(") or "float('inf')): base}" not in m:
        raise Untranslatable("no-rules case: %s" % m[:80])
    first_low_empty = st[0].body[0].value.keys[0].elts[0]
    loop = st[3]
    it = loop.iter
    if _nz(ast.unparse(loop.target)) != "low, high, rule" or not (isinstance(it, ast.Call) and ast.unparse(it.func) == "zip" and len(it.args) == 3):
        raise Untranslatable("loop header")
    a0, a1, a2 = it.args
    if not (ast.unparse(a1) == "chain(thresholds, [float('inf')])" and ast.unparse(a2) == "chain([base], _rules)"
            and isinstance(a0, ast.Call) and ast.unparse(a0.func) == "chain" and len(a0.args) == 2 and ast.unparse(a0.args[1]) == "thresholds"
            and isinstance(a0.args[0], ast.List) and len(a0.args[0].elts) == 1):
        raise Untranslatable("zip arguments: %s" % ast.unparse(it)[:100])
    first_low = a0.args[0].elts[0]
    body_ = [ast.unparse(x) for x in loop.body]
    if len(body_) != 2 or not body_[0].startswith("if low == high:\n    raise ValueError(") or body_[1] != "lookup[low, high] = rule":
        raise Untranslatable("loop body %s" % body_)
    if ast.unparse(first_low) != ast.unparse(first_low_empty):
        raise Untranslatable("the two first lower bounds differ")
    return expr(first_low, {})


def stepwise_run():
    """Stepwise.run: look the rule up by the target's supply, call it with (target, interval), write the result
    to the target's demand unless it is None"""
    from cobald.controller.stepwise import Stepwise
    st = _fn_body(Stepwise.run)
    loops = [x for x in st if isinstance(x, ast.While)]
    if len(loops) != 1 or [_nz(ast.unparse(x)) for x in st if not isinstance(x, ast.While)] != ["target, interval = self.target, self.interval"]:
        raise Untranslatable("run prologue")
    body_ = [ast.unparse(x) for x in loops[0].body]
    want = ["current_rule = self._selector.get_rule(target.supply)", "demand = current_rule(target, interval)",
            "if demand is not None:\n    self.target.demand = demand", "await trio.sleep(interval)"]
    if body_ != want:
        raise Untranslatable("run loop: %s" % body_)
    return "true"


def render_controllers():
    out = ["/- GENERATED by harness/vh/translate.py from the source text of /repo (cobald/controller/switch.py, stepwise.py)",
           "   — do not edit.  Regenerated on every run of the C08 / C09 checks; the theorems `gen_*` of Props/C08.lean equate",
           "   these definitions with the hand-written model. -/",
           "import CobaldVerif.Model.Controllers", "", "namespace Cobald.Gen.Controllers", "open Cobald Cobald.Controllers", ""]

    def emit(name, sig, typ, thunk, fmt="def %s %s : %s :=\n  %s\n"):
        try:
            out.append(fmt % (name, sig, typ, thunk()))
        except Untranslatable as e:
            out.append("-- untranslatable (%s)\ndef %sUntranslatable : String := \"source outside the translated subset\"\n"
                       % (str(e)[:100].replace("\n", " "), name))
    emit("switchSelect", "(dflt : CtlId) (sorted : List (Rat × CtlId)) (demand : Rat)", "CtlId", switch_select)
    emit("switchCtorShape", "", "Bool", switch_ctor)
    emit("getRule", "", "Lookup → Rat → Option RuleId", get_rule,
         fmt="def %s %s : %s\n  | [], _ => none\n  | (low, high, rule) :: rest, supply => if %s then some rule else getRule rest supply\n")
    emit("compileFirstLow", "", "Rat", compile_lookup)
    emit("stepwiseRunShape", "", "Bool", stepwise_run)
    out += ["end Cobald.Gen.Controllers", ""]
    return "\n".join(out)


# --------------------------------------------------------------------------- Standardiser (C06)
REL_STANDARDISER = os.path.join("CobaldVerif", "Generated", "SrcStandardiser.lean")


class StandardiserTr:
    """`Standardiser._clamp_demand`, the demand setter / getter and the constructor's `enforce`s as Lean terms
    over `p : Params` (minimum, maximum, granularity, backlog, surplus - the three limits and the two margins are
    extended numbers), the target's supply `s : Rat`, the written value `v : Rat`.  Arithmetic of a finite
    number with an extended one is `subFrom` / `addFin`."""
    EXT = {"self.backlog": "p.backlog", "self.surplus": "p.surplus", "self.minimum": "p.min", "self.maximum": "p.max"}

    def __init__(self):
        from cobald.decorator.standardiser import Standardiser
        self.cls = Standardiser

    def ext(self, node, env):
        """an expression of extended type"""
        u = ast.unparse(node)
        if u in self.EXT:
            return self.EXT[u]
        if isinstance(node, ast.Name) and node.id in env:
            return env[node.id]
        if isinstance(node, ast.BinOp) and isinstance(node.left, ast.Name) and env.get(node.left.id) == "s" and ast.unparse(node.right) in self.EXT:
            f = {ast.Sub: "subFrom", ast.Add: "addFin"}.get(type(node.op))
            if f:
                return "(%s s %s)" % (f, self.EXT[ast.unparse(node.right)])
        if isinstance(node, ast.Call) and ast.unparse(node.func) == "_clamp" and len(node.args) == 3:
            return "(Gen.clamp %s %s %s)" % tuple(self.ext(a, env) for a in node.args)
        raise Untranslatable("extended expression %s" % u[:60])

    def clamp_demand(self):
        st = _fn_body(self.cls._clamp_demand)
        src = [ast.unparse(x) for x in st]
        if len(st) != 5 or src[0] != "supply = self.target.supply" or not all(isinstance(x, ast.Assign) for x in st[:3]):
            raise Untranslatable("_clamp_demand: %s" % [x[:30] for x in src])
        env = {"supply": "s", "value": "(ERat.fin v)"}
        for a in st[1:3]:
            if len(a.targets) != 1 or not isinstance(a.targets[0], ast.Name):
                raise Untranslatable(ast.unparse(a))
            env[a.targets[0].id] = self.ext(a.value, env)
        # the cast back to the type of `value`: whatever happens, the number returned is `by_limits`
        if src[3] != "try:\n    converted = type(value)(by_limits)\nexcept (OverflowError, ValueError):\n    return by_limits" \
                or src[4] != "return converted if converted == by_limits else by_limits":
            raise Untranslatable("type-preserving cast: %s / %s" % (src[3][:60], src[4][:60]))
        return env["by_limits"]

    def setter(self):
        fset = inspect.getattr_static(self.cls, "demand").fset
        st = _fn_body(fset)
        src = [ast.unparse(x) for x in st]
        if len(st) != 2 or src[0] != "self._demand = self._clamp_demand(value)" or not isinstance(st[1], ast.If):
            raise Untranslatable("setter: %s" % [x[:40] for x in src])
        br = st[1]
        if ast.unparse(br.test) != "self.granularity != 1" or len(br.body) != 1 or len(br.orelse) != 1:
            raise Untranslatable("setter branch %s" % ast.unparse(br.test))
        fw = {"self.target.demand = self._clamp_demand(_floor(value, self.granularity))": "clampDemand p s (Gen.floor v p.g)",
              "self.target.demand = self._demand": "clampDemand p s v",           # (= what was stored one line above)
              "self.target.demand = self._clamp_demand(value)": "clampDemand p s v"}
        a, b = ast.unparse(br.body[0]), ast.unparse(br.orelse[0])
        if a not in fw or b not in fw:
            raise Untranslatable("forwarded values: %s / %s" % (a[:50], b[:50]))
        return "if p.g ≠ 1 then %s else %s" % (fw[a], fw[b])

    def getter(self):
        fget = inspect.getattr_static(self.cls, "demand").fget
        src = [ast.unparse(x) for x in _fn_body(fget)]
        if src != ["if abs(self._demand - self.target.demand) >= self.granularity:\n    self._demand = self.target.demand", "return self._demand"]:
            raise Untranslatable("getter: %s" % [x[:50] for x in src])
        return "if farApart stored target p.g = true then (target, target) else (stored, stored)"

    def enforced(self):
        st = _fn_body(self.cls.__init__)
        conds = []
        table = {"minimum": "p.min", "maximum": "p.max", "surplus": "p.surplus", "backlog": "p.backlog"}
        for x in st:
            if isinstance(x, ast.Expr) and isinstance(x.value, ast.Call) and ast.unparse(x.value.func) == "enforce":
                t = x.value.args[0]
                if not (isinstance(t, ast.Compare) and len(t.ops) == 1):
                    raise Untranslatable(ast.unparse(t))
                l, r, op = t.left, t.comparators[0], type(t.ops[0])

                def term(n, ext):
                    if isinstance(n, ast.Name) and n.id in table:
                        return table[n.id]
                    if isinstance(n, ast.Name) and n.id == "granularity":
                        return "p.g"
                    if isinstance(n, ast.Constant) and n.value == 0:
                        return "(ERat.fin 0)" if ext else "(0 : Rat)"
                    raise Untranslatable(ast.unparse(n))
                ext = any(isinstance(n, ast.Name) and n.id in table for n in (l, r))
                a, b = term(l, ext), term(r, ext)
                conds.append({ast.LtE: "%s ≤ %s" % (a, b), ast.Lt: "%s < %s" % (a, b), ast.Gt: "%s < %s" % (b, a), ast.GtE: "%s ≤ %s" % (b, a)}[op])
        src = [ast.unparse(x) for x in st]
        if "self._demand = target.demand" not in src:
            raise Untranslatable("the stored demand does not start as the target's")
        for k in ("minimum", "maximum", "granularity", "surplus", "backlog"):
            if "self.%s = %s" % (k, k) not in src:
                raise Untranslatable("parameter %s is not stored as given" % k)
        if not conds:
            raise Untranslatable("no enforce")
        return " ∧ ".join(conds)


def render_standardiser():
    out = ["/- GENERATED by harness/vh/translate.py from the source text of /repo (cobald/decorator/standardiser.py)",
           "   — do not edit.  Regenerated on every run of the C06 / C16 checks; the theorems `gen_*` of Props/C06.lean equate",
           "   these definitions with the hand-written model. -/",
           "import CobaldVerif.Model.Standardiser", "import CobaldVerif.Generated.Src", "",
           "namespace Cobald.Gen.Standardiser", "open Cobald Cobald.ERat Cobald.Standardiser", ""]

    def emit(name, sig, typ, thunk):
        try:
            out.append("def %s %s : %s :=\n  %s\n" % (name, sig, typ, thunk()))
        except Untranslatable as e:
            out.append("-- untranslatable (%s)\ndef %sUntranslatable : String := \"source outside the translated subset\"\n"
                       % (str(e)[:100].replace("\n", " "), name))
    tr = StandardiserTr()
    emit("clampDemand", "(p : Params) (s v : Rat)", "ERat", tr.clamp_demand)
    emit("stored", "(p : Params) (s v : Rat)", "ERat", lambda: (tr.setter(), "clampDemand p s v")[1])
    emit("forwarded", "(p : Params) (s v : Rat)", "ERat", tr.setter)
    emit("read", "(p : Params) (stored target : ERat)", "ERat × ERat", tr.getter)
    emit("ok", "(p : Params)", "Prop", tr.enforced)
    out += ["end Cobald.Gen.Standardiser", ""]
    return "\n".join(out)


# --------------------------------------------------------------------------- decorators (C16)
REL_DECORATORS = os.path.join("CobaldVerif", "Generated", "SrcDecorators.lean")


def proxy_shape():
    """PoolDecorator: supply / demand / utilisation / allocation read the target's attribute of the same name,
    and a demand write is `self.target.demand = value`, nothing else"""
    from cobald.interfaces import PoolDecorator
    for name in ("supply", "demand", "utilisation", "allocation"):
        member = inspect.getattr_static(PoolDecorator, name)
        if not isinstance(member, property):
            raise Untranslatable("%s is not a property" % name)
        src = [ast.unparse(x) for x in _fn_body(member.fget)]
        if src != ["return self.target.%s" % name]:
            raise Untranslatable("%s getter: %s" % (name, src))
        if name != "demand" and member.fset is not None:
            raise Untranslatable("%s has a setter" % name)
    src = [ast.unparse(x) for x in _fn_body(inspect.getattr_static(PoolDecorator, "demand").fset)]
    if src != ["self.target.demand = value"]:
        raise Untranslatable("demand setter: %s" % src)
    return "true"


def logger_fields():
    """Logger's demand setter: one `self._logger.log(self.level, self.message, {<fields>})` call followed by
    `self.target.demand = value`; returns the fields of the record as (name, source expression) pairs"""
    from cobald.decorator.logger import Logger
    member = inspect.getattr_static(Logger, "demand")
    if [ast.unparse(x) for x in _fn_body(member.fget)] != ["return self.target.demand"]:
        raise Untranslatable("Logger demand getter")
    st = _fn_body(member.fset)
    if len(st) != 2 or ast.unparse(st[1]) != "self.target.demand = value":
        raise Untranslatable("Logger setter: %s" % [ast.unparse(x)[:40] for x in st])
    call = st[0].value if isinstance(st[0], ast.Expr) else None
    if not (isinstance(call, ast.Call) and ast.unparse(call.func) == "self._logger.log" and len(call.args) == 3 and not call.keywords
            and ast.unparse(call.args[0]) == "self.level" and ast.unparse(call.args[1]) == "self.message" and isinstance(call.args[2], ast.Dict)):
        raise Untranslatable("log call: %s" % ast.unparse(st[0])[:80])
    d = call.args[2]
    pairs = []
    for k, v in zip(d.keys, d.values):
        if not (isinstance(k, ast.Constant) and isinstance(k.value, str)):
            raise Untranslatable("field key %s" % ast.unparse(k))
        pairs.append((k.value, ast.unparse(v)))
    return "[" + ", ".join('("%s", "%s")' % kv for kv in pairs) + "]"


def buffer_shape():
    """Buffer: `demand` is a plain stored attribute (no property), set to the target's demand by the constructor;
    `run` compares it with the target's demand and writes it when they differ, once per window"""
    from cobald.decorator.buffer import Buffer
    if isinstance(inspect.getattr_static(Buffer, "demand"), property):
        raise Untranslatable("Buffer.demand is a property")
    init = [ast.unparse(x) for x in _fn_body(Buffer.__init__)]
    if init != ["super().__init__(target=target)", "self.window = window", "self.demand = target.demand"]:
        raise Untranslatable("Buffer.__init__: %s" % init)
    st = _fn_body(Buffer.run)
    if len(st) != 1 or not isinstance(st[0], ast.While) or ast.unparse(st[0].test) != "True":
        raise Untranslatable("Buffer.run is not one endless loop")
    body_ = [ast.unparse(x) for x in st[0].body]
    if body_ != ["if self.demand != self.target.demand:\n    self.target.demand = self.demand", "await trio.sleep(self.window)"]:
        raise Untranslatable("Buffer.run loop: %s" % body_)
    return "true"


def render_decorators():
    out = ["/- GENERATED by harness/vh/translate.py from the source text of /repo (interfaces/_proxy.py, decorator/logger.py,",
           "   decorator/buffer.py) — do not edit.  Regenerated on every run of the C16 check. -/", "",
           "namespace Cobald.Gen.Decorators", ""]

    def emit(name, typ, thunk):
        try:
            out.append("def %s : %s :=\n  %s\n" % (name, typ, thunk()))
        except Untranslatable as e:
            out.append("-- untranslatable (%s)\ndef %sUntranslatable : String := \"source outside the translated subset\"\n"
                       % (str(e)[:100].replace("\n", " "), name))
    emit("proxyShape", "Bool", proxy_shape)
    emit("loggerFields", "List (String × String)", logger_fields)
    emit("bufferShape", "Bool", buffer_shape)
    out += ["end Cobald.Gen.Decorators", ""]
    return "\n".join(out)


# --------------------------------------------------------------------------- configuration sections (C14)
REL_SECTIONS = os.path.join("CobaldVerif", "Generated", "SrcSections.lean")


def section_dependencies():
    """core.config.load_section_plugins: the dependency table.  `plugins` is the dict of installed plugins by
    section name (`names` in Lean); the table starts with every plugin's own `after` names that are installed and
    gets, for every installed name in some plugin's `before`, that plugin added to the named entry."""
    import cobald.daemon.core.config as core
    st = _fn_body(core.load_section_plugins)
    if len(st) != 4:
        raise Untranslatable("load_section_plugins has %d statements" % len(st))
    p0 = st[0].value if isinstance(st[0], (ast.AnnAssign, ast.Assign)) else None
    if not (isinstance(p0, ast.DictComp) and ast.unparse(p0.key) == "plugin.section" and ast.unparse(p0.value) == "plugin"
            and ast.unparse(p0.generators[0].iter) == "map(SectionPlugin.load, get_entrypoints(entry_point_group))" and not p0.generators[0].ifs):
        raise Untranslatable("plugins table: %s" % ast.unparse(st[0])[:80])
    d0 = st[1].value if isinstance(st[1], (ast.AnnAssign, ast.Assign)) else None
    if not (isinstance(d0, ast.DictComp) and ast.unparse(d0.key) == "plugin.section" and isinstance(d0.value, ast.SetComp)
            and ast.unparse(d0.generators[0].iter) == "plugins.values()" and ast.unparse(d0.generators[0].target) == "plugin" and not d0.generators[0].ifs):
        raise Untranslatable("dependencies table: %s" % ast.unparse(st[1])[:80])
    sc = d0.value
    g = sc.generators[0]
    if not (len(sc.generators) == 1 and isinstance(sc.elt, ast.Name) and isinstance(g.target, ast.Name) and sc.elt.id == g.target.id
            and ast.unparse(g.iter) in ("plugin.after", "plugin.before")):
        raise Untranslatable("own dependencies: %s" % ast.unparse(sc))
    v = g.target.id
    conds = []
    for c in g.ifs:
        if ast.unparse(c) == "%s in plugins" % v:
            conds.append("decide (%s ∈ names)" % v)
        else:
            raise Untranslatable("filter %s" % ast.unparse(c))
    own = "%s.filter (fun %s => %s)" % (ast.unparse(g.iter), v, " && ".join(conds) or "true")
    start = "ps.map (fun plugin => (plugin.name, %s))" % own
    outer = st[2]
    if not (isinstance(outer, ast.For) and ast.unparse(outer.target) == "plugin" and ast.unparse(outer.iter) == "plugins.values()"
            and len(outer.body) == 1 and isinstance(outer.body[0], ast.For) and not outer.orelse):
        raise Untranslatable("outer loop: %s" % ast.unparse(outer)[:60])
    inner = outer.body[0]
    if not (isinstance(inner.target, ast.Name) and ast.unparse(inner.iter) in ("plugin.before", "plugin.after") and len(inner.body) == 1 and not inner.orelse):
        raise Untranslatable("inner loop: %s" % ast.unparse(inner)[:60])
    w = inner.target.id
    stmt = inner.body[0]
    guard = "true"
    if isinstance(stmt, ast.If) and not stmt.orelse and len(stmt.body) == 1:
        if ast.unparse(stmt.test) != "%s in plugins" % w:
            raise Untranslatable("guard %s" % ast.unparse(stmt.test))
        guard = "decide (%s ∈ names)" % w
        stmt = stmt.body[0]
    if ast.unparse(stmt) != "dependencies[%s].add(plugin.section)" % w:
        raise Untranslatable("edge statement: %s" % ast.unparse(stmt)[:60])
    ret = st[3]
    if _nz(ast.unparse(ret)) != _nz("return tuple((plugins[plugin_name] for plugin_name in toposort_flatten(dependencies, sort=False) if plugin_name in plugins))"):
        raise Untranslatable("result: %s" % ast.unparse(ret)[:80])
    return ("let names := ps.map (·.name)\n  let start : Deps := %s\n  ps.foldl (fun d plugin => %s.foldl (fun d %s => if %s then addDep d %s plugin.name else d) d) start"
            % (start, ast.unparse(inner.iter), w, guard, w))


class LoadConfigurationTr:
    def __init__(self):
        from cobald.daemon.config import mapping
        self.st = _fn_body(mapping.load_configuration)
        if len(self.st) != 6:
            raise Untranslatable("load_configuration has %d statements" % len(self.st))

    def builtin(self):
        tr = self.st[0]
        if not (isinstance(tr, ast.Try) and len(tr.body) == 1 and isinstance(tr.body[0], ast.Assign) and isinstance(tr.body[0].value, ast.Call)
                and ast.unparse(tr.body[0].value.func) == "config_data.pop" and len(tr.body[0].value.args) == 1
                and isinstance(tr.body[0].value.args[0], ast.Constant) and isinstance(tr.body[0].value.args[0].value, str)
                and len(tr.handlers) == 1 and ast.unparse(tr.handlers[0].type) == "KeyError" and [ast.unparse(x) for x in tr.handlers[0].body] == ["pass"]
                and [ast.unparse(x) for x in tr.orelse] == ["configure_logging(logging_mapping)"] and not tr.finalbody):
            raise Untranslatable("the logging section: %s" % ast.unparse(tr)[:80])
        return '"%s"' % tr.body[0].value.args[0].value

    def unknown(self):
        a, b = self.st[1], self.st[2]
        if _nz(ast.unparse(a)) != _nz("unmatched = config_data.keys() - {plugin.section for plugin in plugins}"):
            raise Untranslatable("unmatched: %s" % ast.unparse(a)[:80])
        if not (isinstance(b, ast.If) and ast.unparse(b.test) == "unmatched" and not b.orelse and len(b.body) == 1 and isinstance(b.body[0], ast.Raise)
                and ast.unparse(b.body[0].exc).startswith("ConfigurationError(")):
            raise Untranslatable("unknown sections: %s" % ast.unparse(b)[:80])
        return "cfg.any (fun k => !(order.any (fun plugin => plugin.name == k)))"

    def loop(self):
        if ast.unparse(self.st[3]) != "content = {}" or ast.unparse(self.st[5]) != "return content":
            raise Untranslatable("content table")
        lp = self.st[4]
        if not (isinstance(lp, ast.For) and ast.unparse(lp.target) == "plugin" and ast.unparse(lp.iter) == "plugins" and len(lp.body) == 1
                and isinstance(lp.body[0], ast.Try) and not lp.orelse):
            raise Untranslatable("loop: %s" % ast.unparse(lp)[:60])
        tr = lp.body[0]
        if [ast.unparse(x) for x in tr.body] != ["section_data = config_data[plugin.section]"] or len(tr.handlers) != 1 \
                or ast.unparse(tr.handlers[0].type) != "KeyError" or tr.finalbody:
            raise Untranslatable("section lookup: %s" % ast.unparse(tr)[:80])
        h = tr.handlers[0].body
        if not (len(h) == 1 and isinstance(h[0], ast.If) and ast.unparse(h[0].test) == "plugin.required" and not h[0].orelse
                and len(h[0].body) == 1 and isinstance(h[0].body[0], ast.Raise) and ast.unparse(h[0].body[0].exc).startswith("ConfigurationError(")):
            raise Untranslatable("missing section: %s" % [ast.unparse(x)[:60] for x in h])
        missing = "if plugin.required then (.missingRequired plugin.name, log) else digestLoop cfg returns rest log kept"
        e = [ast.unparse(x) for x in tr.orelse]
        if e != ["plugin_content = plugin.digest(section_data)", "if plugin_content is not None:\n    content[plugin] = plugin_content"]:
            raise Untranslatable("digest: %s" % e)
        present = "digestLoop cfg returns rest (log ++ [plugin.name]) (if returns plugin.name then kept ++ [plugin.name] else kept)"
        return "if plugin.name ∈ cfg then %s\n    else %s" % (present, missing)


def render_sections():
    out = ["/- GENERATED by harness/vh/translate.py from the source text of /repo (daemon/core/config.py load_section_plugins,",
           "   daemon/config/mapping.py load_configuration) — do not edit.  Regenerated on every run of the C14 check. -/",
           "import CobaldVerif.Model.Sections", "", "namespace Cobald.Gen.Sections", "open Cobald Cobald.Sections", "",
           "/-- `dependencies[k].add(x)` -/",
           "def addDep (d : Deps) (k x : String) : Deps := d.map (fun kd => if kd.1 = k then (kd.1, kd.2 ++ [x]) else kd)", ""]

    def emit(name, sig, typ, thunk, fmt="def %s %s : %s :=\n  %s\n"):
        try:
            out.append(fmt % (name, sig, typ, thunk()))
        except Untranslatable as e:
            out.append("-- untranslatable (%s)\ndef %sUntranslatable : String := \"source outside the translated subset\"\n"
                       % (str(e)[:100].replace("\n", " "), name))
    emit("dependencies", "(ps : List Plugin)", "Deps", section_dependencies)
    emit("builtinSection", "", "String", lambda: LoadConfigurationTr().builtin())
    emit("unknownCheck", "(order : List Plugin) (cfg : List String)", "Bool", lambda: LoadConfigurationTr().unknown())
    emit("digestLoop", "(cfg : List String) (returns : String → Bool)", "List Plugin → List String → List String → Outcome × List String",
         lambda: LoadConfigurationTr().loop(),
         fmt="def %s %s : %s\n  | [], log, kept => (.loaded kept, log)\n  | plugin :: rest, log, kept =>\n    %s\n")
    out += ["end Cobald.Gen.Sections", ""]
    return "\n".join(out)


# --------------------------------------------------------------------------- FactoryPool (C15)
REL_FACTORY = os.path.join("CobaldVerif", "Generated", "SrcFactory.lean")
FCHILD = {"supply": "supply", "utilisation": "util", "allocation": "alloc", "demand": "demand"}


def fexpr(node, env):
    """arithmetic / comparisons over one child's attributes and local rationals"""
    if isinstance(node, ast.Name) and node.id in env:
        return env[node.id]
    if isinstance(node, ast.Attribute) and isinstance(node.value, ast.Name) and node.value.id in env and node.attr in FCHILD:
        return "%s.%s" % (env[node.value.id], FCHILD[node.attr])
    if isinstance(node, ast.Constant) and isinstance(node.value, (int, float)) and not isinstance(node.value, bool) and node.value == int(node.value):
        return "(%d : Rat)" % int(node.value)
    if isinstance(node, ast.BinOp):
        op = {ast.Add: "+", ast.Sub: "-", ast.Mult: "*"}.get(type(node.op))
        if op:
            return "(%s %s %s)" % (fexpr(node.left, env), op, fexpr(node.right, env))
    if isinstance(node, ast.Compare) and len(node.ops) == 1:
        a, b = fexpr(node.left, env), fexpr(node.comparators[0], env)
        c = {ast.Lt: "%s < %s" % (a, b), ast.Gt: "%s < %s" % (b, a), ast.LtE: "%s ≤ %s" % (a, b), ast.GtE: "%s ≤ %s" % (b, a)}.get(type(node.ops[0]))
        if c:
            return c
    raise Untranslatable(ast.unparse(node)[:80])


class FactoryTr:
    def __init__(self):
        from cobald.composite.factory import FactoryPool
        self.cls = FactoryPool

    def shrink_key(self):
        st = _fn_body(self.cls._shrink)
        a = st[0]
        if not (isinstance(a, ast.Assign) and ast.unparse(a.targets[0]) == "hit_list" and isinstance(a.value, ast.Call)
                and ast.unparse(a.value.func) == "sorted" and [ast.unparse(x) for x in a.value.args] == ["self._hatchery"]
                and len(a.value.keywords) == 1 and a.value.keywords[0].arg == "key" and isinstance(a.value.keywords[0].value, ast.Lambda)):
            raise Untranslatable("hit list: %s" % ast.unparse(a)[:80])
        lam = a.value.keywords[0].value
        v = lam.args.args[0].arg
        return fexpr(lam.body, {v: "c"})

    def shrink_excess(self):
        st = _fn_body(self.cls._shrink)
        if len(st) != 4 or _nz(ast.unparse(st[1])) != _nz("excess_demand = sum((child.demand for child in hit_list)) - target") \
                or ast.unparse(st[3]) != "self._reap_children()":
            raise Untranslatable("_shrink: %s" % [ast.unparse(x)[:40] for x in st])
        return "sumD hit - target"

    def shrink_pass(self):
        st = _fn_body(self.cls._shrink)
        lp = st[2]
        if not (isinstance(lp, ast.For) and ast.unparse(lp.target) == "child" and ast.unparse(lp.iter) == "hit_list" and not lp.orelse and len(lp.body) == 2):
            raise Untranslatable("release loop: %s" % ast.unparse(lp)[:60])
        brk, rel = lp.body
        if not (isinstance(brk, ast.If) and not brk.orelse and [ast.unparse(x) for x in brk.body] == ["break"]):
            raise Untranslatable("loop exit: %s" % ast.unparse(brk)[:60])
        env = {"excess_demand": "excess", "child": "child"}
        stop = fexpr(brk.test, env)
        if not (isinstance(rel, ast.If) and not rel.orelse and len(rel.body) == 2 and isinstance(rel.body[0], ast.AugAssign)
                and ast.unparse(rel.body[0].target) == "excess_demand" and isinstance(rel.body[0].op, ast.Sub)
                and ast.unparse(rel.body[1]) == "self._release_child(child)"):
            raise Untranslatable("release step: %s" % ast.unparse(rel)[:80])
        take = fexpr(rel.test, env)
        less = fexpr(rel.body[0].value, env)
        return ("if %s then st\n    else if %s then shrinkPass (release st child.id) (excess - %s) rest\n    else shrinkPass st excess rest" % (stop, take, less))

    def grow(self):
        st = _fn_body(self.cls._grow)
        if len(st) != 3 or _nz(ast.unparse(st[0])) != _nz("missing_demand = target - sum((child.demand for child in self.children))") \
                or ast.unparse(st[2]) != "self._reap_children()" or not isinstance(st[1], ast.While):
            raise Untranslatable("_grow: %s" % [ast.unparse(x)[:40] for x in st])
        lp = st[1]
        body_ = [ast.unparse(x) for x in lp.body]
        if len(body_) != 4 or body_[0] != "new_child = self.factory()" or body_[1] != "self._hatchery.add(new_child)" \
                or not body_[2].startswith("assert new_child.demand > 0") or body_[3] != "missing_demand -= new_child.demand":
            raise Untranslatable("spawn loop: %s" % body_)
        cond = fexpr(lp.test, {"missing_demand": "missing"})
        # the model's loop is written with the negated condition first
        return cond

    def reap_cond(self):
        st = _fn_body(self.cls._reap_children)
        if len(st) != 1 or not isinstance(st[0], ast.For) or ast.unparse(st[0].iter) != "list(self._hatchery)" or len(st[0].body) != 1:
            raise Untranslatable("_reap_children: %s" % [ast.unparse(x)[:60] for x in st])
        br = st[0].body[0]
        if not (isinstance(br, ast.If) and not br.orelse and [ast.unparse(x) for x in br.body] == ["self._release_child(%s)" % ast.unparse(st[0].target)]):
            raise Untranslatable("reap step: %s" % ast.unparse(br)[:60])
        return "decide (%s)" % fexpr(br.test, {ast.unparse(st[0].target): "c"})

    def release_shape(self):
        src = [ast.unparse(x) for x in _fn_body(self.cls._release_child)]
        if src != ["child.demand = 0", "self._hatchery.discard(child)", "self._mortuary.add(child)"]:
            raise Untranslatable("_release_child: %s" % src)
        ch = [ast.unparse(x) for x in _fn_body(inspect.getattr_static(self.cls, "children").fget)]
        if ch != ["return [*self._hatchery, *self._mortuary]"]:
            raise Untranslatable("children: %s" % ch)
        d = inspect.getattr_static(self.cls, "demand")
        if [ast.unparse(x) for x in _fn_body(d.fget)] != ["return self._demand"] or [ast.unparse(x) for x in _fn_body(d.fset)] != ["self._demand = value"]:
            raise Untranslatable("demand property")
        return "true"

    def fitness(self, name):
        st = _fn_body(inspect.getattr_static(self.cls, name).fget)
        if len(st) != 2 or _nz(ast.unparse(st[0])) != _nz("active_children = [child for child in self.children if child.supply > 0]") or not isinstance(st[1], ast.Try):
            raise Untranslatable("%s: %s" % (name, [ast.unparse(x)[:50] for x in st]))
        tr = st[1]
        want = "return sum((child.%s for child in active_children)) / len(active_children)" % name
        if [_nz(ast.unparse(x)) for x in tr.body] != [_nz(want)] or len(tr.handlers) != 1 or ast.unparse(tr.handlers[0].type) != "ZeroDivisionError":
            raise Untranslatable("%s mean: %s" % (name, [ast.unparse(x)[:70] for x in tr.body]))
        fb = tr.handlers[0].body
        if len(fb) != 1 or not isinstance(fb[0], ast.Return):
            raise Untranslatable("%s fallback" % name)
        return ("let active := st.all.filter (fun child => decide ((0 : Rat) < child.supply))\n  if (active.length : Rat) = 0 then %s else (active.map (fun child => child.%s)).sum / (active.length : Rat)"
                % (fexpr(fb[0].value, {}), FCHILD[name]))

    def supply(self):
        st = _fn_body(inspect.getattr_static(self.cls, "supply").fget)
        if [_nz(ast.unparse(x)) for x in st] != [_nz("return sum((child.supply for child in self.children))")]:
            raise Untranslatable("supply")
        return "(st.all.map (fun child => child.supply)).sum"


def render_factory():
    out = ["/- GENERATED by harness/vh/translate.py from the source text of /repo (cobald/composite/factory.py)",
           "   — do not edit.  Regenerated on every run of the C15 / C09 checks. -/",
           "import CobaldVerif.Model.Factory", "", "namespace Cobald.Gen.Factory", "open Cobald Cobald.Factory", ""]

    def emit(name, sig, typ, thunk, fmt="def %s %s : %s :=\n  %s\n"):
        try:
            out.append(fmt % (name, sig, typ, thunk()))
        except Untranslatable as e:
            out.append("-- untranslatable (%s)\ndef %sUntranslatable : String := \"source outside the translated subset\"\n"
                       % (str(e)[:100].replace("\n", " "), name))
    tr = FactoryTr()
    emit("shrinkKey", "(c : Child)", "Rat", tr.shrink_key)
    emit("shrinkExcess", "(hit : List Child) (target : Rat)", "Rat", tr.shrink_excess)
    emit("shrinkPass", "", "St → Rat → List Child → St", tr.shrink_pass,
         fmt="def %s %s : %s\n  | st, _, [] => st\n  | st, excess, child :: rest =>\n    %s\n")
    emit("growContinues", "(missing : Rat)", "Prop", tr.grow)
    emit("reapCond", "(c : Child)", "Bool", tr.reap_cond)
    emit("releaseShape", "", "Bool", tr.release_shape)
    emit("supply", "(st : St)", "Rat", tr.supply)
    emit("utilisation", "(st : St)", "Rat", lambda: tr.fitness("utilisation"))
    emit("allocation", "(st : St)", "Rat", lambda: tr.fitness("allocation"))
    out += ["end Cobald.Gen.Factory", ""]
    return "\n".join(out)


def regenerate():
    """returns True if the generated text changed"""
    a = lean.write_generated(REL, render())
    b = lean.write_generated(REL_COMPOSITE, render_composite())
    c = lean.write_generated(REL_CONTROLLERS, render_controllers())
    d = lean.write_generated(REL_STANDARDISER, render_standardiser())
    e = lean.write_generated(REL_DECORATORS, render_decorators())
    f = lean.write_generated(REL_SECTIONS, render_sections())
    g = lean.write_generated(REL_FACTORY, render_factory())
    return a or b or c or d or e or f or g

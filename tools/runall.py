#!/usr/bin/env python3
"""Run every registered check (quick by default) on the current tree, validate evidence."""
import json
import os
import subprocess
import sys
import time
from concurrent.futures import ThreadPoolExecutor

ROOT = os.path.dirname(os.path.dirname(os.path.abspath(__file__)))
tier = sys.argv[1] if len(sys.argv) > 1 else "quick"
only = sys.argv[2:]
man = json.load(open(os.path.join(ROOT, "MANIFEST.json")))


def one(c):
    pid = c["property_id"]
    cmd = c["quick_cmd"] if tier == "quick" else c["thorough_cmd"]
    t0 = time.time()
    p = subprocess.run(cmd, shell=True, cwd=ROOT, capture_output=True, text=True)
    ev = {}
    try:
        ev = json.load(open(os.path.join(ROOT, c["evidence_file"])))
    except Exception as e:
        ev = {"error": str(e)}
    cov = ev.get("coverage", {})
    ok = p.returncode == 0 and cov.get("obligations") == cov.get("discharged") and "VIOLATION" not in p.stdout
    return pid, ok, p.returncode, time.time() - t0, (p.stdout.strip().splitlines() or [""])[-1], cov.get("obligations"), cov.get("discharged")


checks = [c for c in man["checks"] if not only or c["property_id"] in only]
bad = 0
with ThreadPoolExecutor(max_workers=4) as ex:
    for pid, ok, rc, dt, last, ob, di in ex.map(one, checks):
        print("%s %s rc=%d %.1fs obligations=%s discharged=%s | %s" % (pid, "ok " if ok else "BAD", rc, dt, ob, di, last))
        bad += not ok
sys.exit(1 if bad else 0)

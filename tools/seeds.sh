#!/bin/sh
# run the given checks with several seeds; print a line per run
# usage: tools/seeds.sh "C01 C02" "1 2 3"
cd "$(dirname "$0")/.." || exit 2
for p in $1; do for s in $2; do
  out=$(VERIF_SEED=$s ./check $p 2>&1 | tail -3 | tr '\n' ' ')
  echo "$p seed=$s rc=$? :: $out"
done; done

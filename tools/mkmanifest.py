#!/usr/bin/env python3
"""Regenerate MANIFEST.json from the table below (run after adding a check)."""
import json
import os

ROOT = os.path.dirname(os.path.dirname(os.path.abspath(__file__)))

# pid -> (design_ref, technique, level text, level note)
CHECKS = {
    "C06": ("§6 C06",
            "Lean 4 theorems over a hand-written model of Standardiser (exact extended rationals) + differential correspondence with the Python class + independent property oracle",
            "Every clause of C06 is a Lean theorem about Model/Standardiser.lean (whose `clamp` is proved equal to the Lean translation of the source's `_clamp`, regenerated on every run), for all accepted parameters, supplies (the [minimum, maximum] clause also for infinite supplies, where inf - inf is a bound that never applies), finite demands and op histories; the model is tied to standardiser.py on every run by executing generated and grid op programs on both and comparing every observation exactly.",
            "Trusted: Lean kernel + {propext, Classical.choice, Quot.sound}; the model (tied by sampling correspondence only); CPython arithmetic on int/Fraction/dyadic floats; IEEE rounding not modelled."),
    "C07": ("§6 C07",
            "Lean 4 theorems over a hand-written model of Uniform/WeightedComposite (exact rationals, arbitrary child lists) + differential correspondence + independent oracle (exact and float-tolerance streams)",
            "Conservation, proportionality, share bounds, read-back, supply sum, fitness range and the documented fallbacks are Lean theorems for child lists of any length; the model is tied to uniform.py/weighted.py on every run by executing generated op histories on both.",
            "Trusted: Lean kernel + standard axioms; the model (sampling correspondence); CPython Fraction arithmetic; float rounding only judged by the oracle up to 1e-9."),
    "C08": ("§6 C08",
            "Lean 4 theorems stating the decision logic of the four controllers outright (threshold selection proved for any declaration order via a verified insertion sort) + differential correspondence (Stepwise through run() under trio MockClock) + independent oracle",
            "Bound, direction, exactness and no-change clauses of LinearController, the three cases of RelativeSupplyController, greatest-threshold selection of Stepwise and DemandSwitch (any table size, any order) and the exactly-one-delegate clause are Lean theorems; the models are tied to linear.py, relative_supply.py, stepwise.py, switch.py by running generated step sequences on both.",
            "Trusted: Lean kernel + standard axioms; the models (sampling correspondence); CPython sorted(); trio MockClock to drive Stepwise.run; exact arithmetic only."),
    "C17": ("§6 C17",
            "Lean 4 round-trip theorem decodeLine (encodeLine r) = some r against an independent reference decoder, for all strings; differential correspondence (exact output string + two decoders) + independent oracle",
            "The whole-line round trip (name, tags, fields with string/non-string class, timestamp), the single-line clause, the tags/fields split, the timestamp floor and the JSON merge order are Lean theorems over all strings (every special character) and all record shapes; the encoder model is tied to format_line.py / format_json.py by exact comparison of the produced text on generated records and by decoding it with two independent decoders.",
            "Trusted: Lean kernel + standard axioms; model (sampling correspondence); CPython %s/%d rendering of numbers and booleans (assumed separator-free, checked on generated values); json module; integer record times."),
    "C19": ("§6 C19",
            "Lean 4 structural (mutual) induction over configuration trees for an arbitrary environment (resolve/apply are parameters) + differential correspondence on a synthetic importable package + independent recursive evaluator as oracle",
            "Plain data unchanged, each __type__ node called exactly once in the documented bottom-up order with __args__/remaining items, and the error location being the path of the first failing node with exactly the earlier calls made are Lean theorems for every finite tree and every environment; the model is tied to mapping.py by translating generated trees with real importable factories on both sides.",
            "Trusted: Lean kernel + standard axioms (this file uses none beyond propext/Quot.sound if any); model (sampling correspondence); import machinery enters as the parameter resolve and is exercised for real by the correspondence."),
    "C14": ("§6 C14",
            "Lean 4 proof of soundness of a re-implemented toposort (layers: each key once, dependencies in strictly earlier layers, for every in-layer order) and of the validation/digest loop + differential correspondence with substituted entry points + independent oracle",
            "Order respects every before/after constraint between installed plugins (for any order inside a toposort layer), absent names never enter the table, unknown sections fail before any digest, required-missing fails, otherwise each present section is digested once in order and non-None results kept: Lean theorems for any number of plugins; tied to core/config.py + mapping.py by generated plugin sets and configurations.",
            "Trusted: Lean kernel + standard axioms; model incl. the re-implemented toposort (compared layer by layer with toposort 1.10 on every run); entrypoints API substituted by generated objects."),
    "C04": ("§6 C04",
            "Lean 4 induction over expression trees of >> (all groupings at once, nested PartialBinds), closed-form model of Signature.bind_partial with both directions of 'rejected iff can never bind', currying laws + differential correspondence on exec-generated classes, shipped classes and chains + Python's own call binding as independent oracle",
            "chain_assoc (every parenthesisation of a chain of any length with any of the three tail forms evaluates to the hand-nested object, each element constructed once, last to first, with its target and its own arguments), bindable_accepted / accepted_bindable (the eager check rejects exactly the argument lists no completion of which is a valid call), target/excess/duplicate rejection and curry_split are Lean theorems; the model is tied to _partial.py on every run by generated signatures, the shipped classes' real signatures (regenerated with inspect) and generated chains.",
            "Trusted: Lean kernel + standard axioms; model (sampling correspondence); inspect.Signature (closed form compared through Partial); positional-only parameters and the reserved names self/ctor/__leaf__ are outside the model."),
    "C05": ("§6 C05",
            "Lean 4 induction over the pipeline list on top of the C04 model (result = described chain, log = reverse order, error = no list, equality with the >> chain via chain_assoc) + differential correspondence on generated YAML documents loaded through core.config.load + hand-built pipeline as oracle",
            "For every pipeline length and every mixture of !Tag (mapping/sequence/bare) and legacy __type__ elements: the loaded list is the described pipeline (each element's target is the very next object, configured arguments, each constructed once, last to first), a failing constructor yields no list, and the head equals what any grouping of the >> chain gives — Lean theorems; tied to core/config.py + config/yaml.py by loading generated YAML files with recording classes registered as tags and importable for __type__.",
            "Trusted: Lean kernel + standard axioms; model (sampling correspondence); PyYAML node construction (mapping -> keywords, sequence -> positionals); legacy elements with __args__ are outside the statement."),
    "C15": ("§6 C15",
            "Lean 4 theorems about the spawn loop, the release pass and reaping (induction over the loop / hit list), plus an identity invariant preserved by every adjustment + differential correspondence through run() under trio MockClock with the hatchery's iteration order passed to the model + independent oracle",
            "grow covers the request and is minimal (without the last spawned child it is not covered), releases keep the request covered and no releasable child is kept, released children have demand 0, children without demand are reaped, children are only created by the factory, never both active and released, only freshly spawned children ever become active, aggregates: Lean theorems for arbitrary child sets and factories; tied to factory.py by op histories (random + exhaustive small depth).",
            "Trusted: Lean kernel + standard axioms; model (sampling correspondence); set iteration order is an input taken from the implementation; factory children with positive demand; exact arithmetic; trio MockClock."),
    "C16": ("§6 C16",
            "Lean 4 structural induction over decorator stacks (any depth/order of PoolDecorator, Logger, Standardiser, Buffer) and induction over whole operation histories (reads, writes, pool changes) + a model of %-template validation + differential correspondence with capturing log handlers + independent oracle",
            "Supply/utilisation/allocation equal the base pool's through every stack and are untouched by demand reads/writes; plain/Logger stacks pass demand reads and writes through; every Logger emits exactly one record per write, before the write, with the value and the target's pre-write state, in any stack exactly the Loggers above the first Buffer emit, outermost first, at every point of every history (history_sua, history_records); templates naming an unknown field are rejected at construction: Lean theorems; tied to _proxy.py, logger.py, standardiser.py, buffer.py by op sequences on generated stacks and by generated templates (known field names regenerated from _LOGGER_TEST_FIELDS on every run).",
            "Trusted: Lean kernel + standard axioms; model (sampling correspondence); logging module (one record per log call); CPython % formatting (modelled subset, compared)."),
    "C18": ("§6 C18",
            "constructor tables regenerated from the live loader class into Lean on every run and table_safe re-proved by kernel computation (decide +kernel); Lean induction over document trees for the dispatch model; canary documents loaded in a child process as correspondence and failing-input search",
            "For the regenerated table of the loader class that core.config.load really uses: no python/* tag registered, no prefix constructors, unknown tags fall to construct_undefined, every entry a SafeConstructor method of a standard tag or a plugin constructor of the entry-point group; hence (theorems, any document depth) a python/* or unregistered tag anywhere makes loading fail and only registered constructors ever run. Tied to the code by regeneration (translator from the live class) plus documents with side-effect canaries, loaded once more in a child process where PyYAML's C extension is unavailable (the loader tables must be the same there).",
            "Trusted: Lean kernel + standard axioms; harness/vh/tables.py (introspection translator); PyYAML scanner/parser/composer and the modelled construct_object dispatch order; canaries."),
    "C09": ("§6 C09",
            "Lean 4 theorems about the act/sleep loops on a virtual clock (wake times, count per span, LinearController drift bound from the C08 step bound, Buffer quiet/flush) + differential correspondence of every shipped service under trio's MockClock with the observed event order passed to the model + oracle on the recorded timeline",
            "Partial: the trio clock contract (a sleep of d ends d later, bodies take no virtual time) is an assumption. Under it: first step immediately then exactly one per interval forever (FactoryPool: after each interval), demand drift of a LinearController <= rate x (span + interval), a Buffer forwards nothing between boundaries and at each boundary the target gets the last written value — Lean theorems; tied to the run() methods of linear/relative_supply/stepwise/switch/buffer/factory by MockClock runs whose event timelines (times as exact rationals) are compared with the model; one further stream (FactoryPool under a scripted environment, state sampled after every boundary) is judged by the oracle only.",
            "Trusted: Lean kernel + standard axioms; model; trio 0.34 MockClock semantics (assumed); real-time scheduling latency is not modelled."),
    "C01": ("§7.3",
            'Lean 4 invariant proofs over one labelled transition system of the MetaRunner/ServiceRunner protocol (induction over arbitrary event sequences: every number of payloads, every interleaving the guards admit) + correspondence by replaying the event logs of gated scenarios run against the real runtime on the model (subset-construction trace acceptor) + outcome oracle',
            'failure_never_returns, cause_sound, graceful_only, latch_first_wins, quiet_records are theorems over every reachable state of the runtime LTS, and failure_ends_run / no_stall / failure_delivered prove progress: once a failure has been delivered and the coroutine payloads have unwound, at most 8 closing steps - always enabled, each decreasing a measure - end the run call by raising, whatever thread payloads do; the LTS is tied to daemon/runners/*.py on every run by executing generated failure scenarios (flavour x failure kind x registration x bystanders x simultaneous failures) in worker processes and checking that the model accepts the logged traces and that the outcome is the one the property demands.',
            'Partial: the semantics of asyncio, trio and threading enters the LTS as the enabling conditions of its events (assumed, DESIGN §7.1); real thread interleavings inside the frameworks and wall-clock bounds are sampled by the scenario engine, not proved. Trusted: Lean kernel + standard axioms; the LTS Model/Runtime/LTS.lean (tied by trace acceptance); the scenario engine and its mapping of log entries to model events.'),
    "C02": ("§7.4",
            'Lean 4 invariant proofs over one labelled transition system of the MetaRunner/ServiceRunner protocol (induction over arbitrary event sequences: every number of payloads, every interleaving the guards admit) + correspondence by replaying the event logs of gated scenarios run against the real runtime on the model (subset-construction trace acceptor) + outcome oracle',
            'ended_all_unwound, no_step_after_end, cancel_through_framework, threads_dont_block, closing_uniform, coQuiet_ignores_threads, termination_despite_threads, cancellation_deliverable are theorems over the runtime LTS; tied to the code by termination scenarios (failure / SIGINT / shutdown from outside and from a thread payload, coroutine payloads with synchronous and shielded cleanup, blocked threads) whose per-payload event logs are replayed on the model and compared with the instant accept() ended.',
            'Partial: the semantics of asyncio, trio and threading enters the LTS as the enabling conditions of its events (assumed, DESIGN §7.1); real thread interleavings inside the frameworks and wall-clock bounds are sampled by the scenario engine, not proved. Trusted: Lean kernel + standard axioms; the LTS Model/Runtime/LTS.lean (tied by trace acceptance); the scenario engine and its mapping of log entries to model events.'),
    "C03": ("§7.5",
            'Lean 4 invariant proofs over one labelled transition system of the MetaRunner/ServiceRunner protocol (induction over arbitrary event sequences: every number of payloads, every interleaving the guards admit) + correspondence by replaying the event logs of gated scenarios run against the real runtime on the model (subset-construction trace acceptor) + outcome oracle',
            'start_le_one, started_iff, start_flavour, adopt_total, flush_all, sweep_once, discard_only_closing are theorems over the runtime LTS; tied to the code by scenarios with up to 18 payloads and services, arguments, every submitting context, several polling cycles and adoption racing a shutdown.',
            'Partial: the semantics of asyncio, trio and threading enters the LTS as the enabling conditions of its events (assumed, DESIGN §7.1); real thread interleavings inside the frameworks and wall-clock bounds are sampled by the scenario engine, not proved. Trusted: Lean kernel + standard axioms; the LTS Model/Runtime/LTS.lean (tied by trace acceptance); the scenario engine and its mapping of log entries to model events.'),
    "C10": ("§7.6",
            'Lean 4 invariant proofs over one labelled transition system of the MetaRunner/ServiceRunner protocol (induction over arbitrary event sequences: every number of payloads, every interleaving the guards admit) + correspondence by replaying the event logs of gated scenarios run against the real runtime on the model (subset-construction trace acceptor) + outcome oracle',
            'exec_frame, exec_once, exec_thread, exec_keeps_running are theorems over the runtime LTS; exec_opposite_deadlock, exec_opposite_forever and exec_returns (every call in flight returns unless the two coroutine threads wait for each other - exactly then it never does) are theorems over the blocking model of execute (Model/Runtime/Exec.lean), onto which the calls, starts and returns of every scenario are replayed; tied to the code by sequences of execute calls from every context with every outcome, compared by identity, with bystanders and a heartbeat; the opposite-direction deadlock is a recorded known finding.',
            'Partial: the semantics of asyncio, trio and threading enters the LTS as the enabling conditions of its events (assumed, DESIGN §7.1); real thread interleavings inside the frameworks and wall-clock bounds are sampled by the scenario engine, not proved. Trusted: Lean kernel + standard axioms; the LTS Model/Runtime/LTS.lean (tied by trace acceptance); the scenario engine and its mapping of log entries to model events.'),
    "C11": ("§7.7",
            'Lean 4 invariant proofs over one labelled transition system of the MetaRunner/ServiceRunner protocol (induction over arbitrary event sequences: every number of payloads, every interleaving the guards admit) + correspondence by replaying the event logs of gated scenarios run against the real runtime on the model (subset-construction trace acceptor) + outcome oracle',
            "one_thread_per_flavour, threads_apart, executed_same_thread, coroutines_independent_of_threads are theorems over the runtime LTS (plus the model's axiom that a thread executes one thing at a time); tied to the code by thread / loop / token identities, an overlap detector and heartbeat progress while thread payloads block.",
            'Partial: the semantics of asyncio, trio and threading enters the LTS as the enabling conditions of its events (assumed, DESIGN §7.1); real thread interleavings inside the frameworks and wall-clock bounds are sampled by the scenario engine, not proved. Trusted: Lean kernel + standard axioms; the LTS Model/Runtime/LTS.lean (tied by trace acceptance); the scenario engine and its mapping of log entries to model events.'),
    "C12": ("§7.8",
            'Lean 4 invariant proofs over one labelled transition system of the MetaRunner/ServiceRunner protocol (induction over arbitrary event sequences: every number of payloads, every interleaving the guards admit) + correspondence by replaying the event logs of gated scenarios run against the real runtime on the model (subset-construction trace acceptor) + outcome oracle',
            'guard_mutex, reject_frame, guard_released, restart, shutdown_enabled, shutdown_returns, shutdown_completes (a stop request ends the run call within 8 closing steps, by a normal return when no failure was recorded), interrupt_completes, shutdown_idle, shutdown_twice (overlapping shutdown requests are one request) are theorems over the runtime LTS; tied to the code by histories over several ServiceRunner instances (accept, concurrent accept - also on the active instance while a shutdown is pending -, shutdown from outside, from several threads at once or from a thread payload, in the instant running is reported, again after the end, SIGINT, failing payload, accept again).',
            'Partial: the semantics of asyncio, trio and threading enters the LTS as the enabling conditions of its events (assumed, DESIGN §7.1); real thread interleavings inside the frameworks and wall-clock bounds are sampled by the scenario engine, not proved. Trusted: Lean kernel + standard axioms; the LTS Model/Runtime/LTS.lean (tied by trace acceptance); the scenario engine and its mapping of log entries to model events.'),
    "C13": ("§7.9",
            "Lean 4 corollaries of the runtime-LTS theorems for the daemon's instantiation (loader = queued asyncio payload) + totality of the loader dispatch + correspondence with real `python -m cobald.daemon` child processes whose event files are replayed on the LTS + outcome oracle",
            "dispatch_total, start_reachable, loader_in_loop, services_started_once, failure_nonzero, sigint_exit0, failure_progress are theorems (corollaries of C01/C03 over the same LTS); tied to core/main.py, core/config.py, config/python.py, config/yaml.py by generated YAML and Python configurations run as real daemon processes: exit status, error on the log, and the event file (constructed inside the running loop, run started once, heartbeats until SIGINT, cancelled) are judged by the oracle and replayed on the model.",
            "Partial: interpreter start-up / shutdown, signal delivery and garbage collection are outside the model; framework semantics are the LTS's enabling conditions (assumed). Trusted: Lean kernel + standard axioms; the LTS; the instrumented module and the mapping of its events to model events."),
}

PENDING_REASON = "check not built yet in this session (planned: Lean model + proof + correspondence, see DESIGN.md work order); not claimed until its check exists"


GEN = {"C01": "gen_monitor_shape, gen_run_outcome, gen_runtime_text (pinned text of the failure path)", "C04": "gen_source_text (pinned text of _partial.py)", "C18": "gen_source_text (pinned text of the YAML constructors)", "C02": "gen_runtime_text (pinned text of the closing code)", "C03": "gen_runtime_text (pinned text of registration and start)",
       "C10": "gen_runtime_text (pinned text of the execute path)", "C11": "gen_runtime_text (pinned text of where payloads run)", "C05": "gen_pipeline_walk_shape", "C19": "gen_translator_keys", "C06": "gen_clamp_eq, gen_floor_eq, gen_clamp_demand_eq, gen_write_eq, gen_read_eq, gen_ok_iff, gen_forwarded_in_limits",
       "C07": "gen_shares_uniform, gen_shares_weighted, gen_supply, gen_init, gen_fitness_uniform, gen_fitness_weighted, gen_reads_stored, gen_conservation, gen_share_bounds",
       "C08": "gen_linear_eq, gen_relsupply_eq, gen_switch_select_eq, gen_get_rule_eq, gen_shapes", "C09": "gen_loop_shapes",
       "C12": "gen_guard_shape, gen_runtime_text (pinned text of the life cycle)", "C13": "gen_dispatch_eq, gen_daemon_start, gen_runtime_text (pinned text of accept / adopt / the loaders)", "C14": "gen_dependencies_equiv, gen_order_respects, gen_order_exists, gen_digest_eq, gen_load_eq", "C15": "gen_adjust_eq, gen_shrink_pass_eq, gen_shrink_eq, gen_reap_eq, gen_grow_continues, gen_aggregates_eq", "C16": "gen_decorator_shapes", "C17": "gen_escape_key, gen_escape_name, gen_escape_field, gen_source_text (pinned text of the formatters)"}


def main():
    for pid, names in GEN.items():
        ref, tech, text, note = CHECKS[pid]
        CHECKS[pid] = (ref, tech + " + model text regenerated from the source on every run (harness/vh/translate.py -> Generated/Src*.lean) "
                       "with kernel-checked theorems equating it with the hand-written model (%s)" % names, text, note)
    props = [json.loads(l) for l in open(os.path.join(ROOT, "properties.jsonl"))]
    checks, na = [], []
    for p in props:
        pid = p["id"]
        if pid in CHECKS:
            ref, tech, text, note = CHECKS[pid]
            checks.append({
                "property_id": pid,
                "quick_cmd": "./check %s --tier quick" % pid,
                "thorough_cmd": "./check %s --tier thorough" % pid,
                "evidence_file": "evidence/%s.json" % pid,
                "replay_cmd_template": "./check %s --replay {path}" % pid,
                "engine": "lean4-proof+correspondence",
                "level_claimed": {"category": "proof", "text": text, "design_ref": ref},
                "level_note": note,
                "technique": tech,
            })
        else:
            na.append({"property_id": pid, "reason": PENDING_REASON})
    man = {
        "version": 1,
        "setup_cmd": "cd lean && lake build",
        "hooks": {
            "guard": "COBALD_VERIF",
            "enable": "no source hooks are used: checks observe through the harness's own pools, payloads and handlers",
            "baseline_off_cmd": "cd /repo && /venv/bin/python -m pytest -ra -q -p no:cacheprovider --timeout=900 --continue-on-collection-errors",
            "source_commits": [],
            "add_only": True,
        },
        "engines": [{
            "name": "lean4-proof+correspondence",
            "path": "lean/ (models, theorems, driver) + harness/vh (correspondence, oracles)",
            "serves_properties": sorted(CHECKS),
            "kind_free_text": "machine-checked proof in Lean 4 about hand-written executable models; models tied to /repo by differential execution on every run",
        }],
        "checks": checks,
        "not_applicable": na,
        "notes": "See DESIGN.md. known_findings.json lists defects fixed in /repo ('fix:' commits) and recorded findings.",
    }
    with open(os.path.join(ROOT, "MANIFEST.json"), "w") as f:
        json.dump(man, f, indent=1)
    print("checks:", [c["property_id"] for c in checks], "pending:", len(na))


if __name__ == "__main__":
    main()

#!/usr/bin/env python3
"""Take a sub-agent's deliverable (<dir> with patch.diff, demo.py, notes.md) into seeded/<id>/ with a meta.json.
usage: tools/importseed.py <dir> <Cxx> <new-id> <round>"""
import json, os, shutil, sys
src, prop, sid, rnd = sys.argv[1:5]
ROOT = os.path.dirname(os.path.dirname(os.path.abspath(__file__)))
p = next(json.loads(l) for l in open(os.path.join(ROOT, "properties.jsonl")) if json.loads(l)["id"] == prop)
dst = os.path.join(ROOT, "seeded", sid)
os.makedirs(dst, exist_ok=True)
for f in ("patch.diff", "demo.py", "notes.md"):
    shutil.copy(os.path.join(src, f), os.path.join(dst, f))
meta = {"property": prop, "title": p["title"], "round": int(rnd),
        "source": "independent sub-agent given only the property text and its own worktree",
        "needs_to_manifest": open(os.path.join(dst, "notes.md")).read()}
json.dump(meta, open(os.path.join(dst, "meta.json"), "w"), indent=1)
print(dst)

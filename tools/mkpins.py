#!/usr/bin/env python3
"""Write harness/vh/pins.json: the normalised text of every function of /repo's runner modules, as the runtime model
was (re)transcribed from it.  Run by hand after the model has been compared with a changed source - never by a check."""
import json, os, sys
ROOT = os.path.dirname(os.path.dirname(os.path.abspath(__file__)))
sys.path.insert(0, os.path.join(ROOT, "harness"))
sys.path.insert(0, "/repo/src")
from vh import translate
json.dump(translate.runtime_texts(), open(translate.PINS_FILE, "w"), indent=1, sort_keys=True)
print(len(translate.runtime_texts()), "functions pinned")

#!/usr/bin/env python3
"""Run every kept seeded change (seeded/<id>/patch.diff) through the check of its property on a
scratch worktree and record the result in seeded/<id>/meta.json under "latest_run".
usage: tools/seedall.py [--tier quick] [--jobs 3] [ids...]"""
import json
import os
import subprocess
import sys
from concurrent.futures import ThreadPoolExecutor

ROOT = os.path.dirname(os.path.dirname(os.path.abspath(__file__)))
args = sys.argv[1:]
tier, jobs = "quick", 3
if "--tier" in args:
    i = args.index("--tier"); tier = args[i + 1]; del args[i:i + 2]
if "--jobs" in args:
    i = args.index("--jobs"); jobs = int(args[i + 1]); del args[i:i + 2]
ids = args or sorted(os.listdir(os.path.join(ROOT, "seeded")))


def one(sid):
    d = os.path.join(ROOT, "seeded", sid)
    meta = json.load(open(os.path.join(d, "meta.json")))
    prop = meta["property"]
    demo = next((f for f in sorted(os.listdir(d)) if f.startswith("demo")), None)
    p = subprocess.run([sys.executable, os.path.join(ROOT, "tools", "seedtest.py"), os.path.join(d, "patch.diff"),
                        os.path.join(d, demo), prop, "--tier", tier], capture_output=True, text=True)
    try:
        res = json.loads(p.stdout[p.stdout.index("{"):])
    except Exception:
        res = {"error": (p.stdout + p.stderr)[-800:]}
    record(sid, prop, meta, res)
    return sid, prop, meta, res


def record(sid, prop, meta, res):
    c = (res.get("checks") or {}).get(prop, {})
    caught = c.get("rc") == 1
    meta["latest_run"] = {"tier": tier, "suite": res.get("suite"), "demo_clean_rc": res.get("demo_clean_rc"),
                          "demo_mutant_rc": res.get("demo_mutant_rc"), "check_rc": c.get("rc"), "caught": caught,
                          "lines": c.get("lines"), "wall": c.get("wall"), "error": res.get("error"), "dist": c.get("dist")}
    json.dump(meta, open(os.path.join(ROOT, "seeded", sid, "meta.json"), "w"), indent=1)
    print(sid, "CAUGHT" if caught else "missed", "rc=%s" % c.get("rc"), "suite=%s" % res.get("suite"), "demo=%s/%s" % (res.get("demo_clean_rc"), res.get("demo_mutant_rc")), (c.get("lines") or [""])[0][:140], flush=True)


serial = [s for s in ids if s.startswith("C18")]
par = [s for s in ids if not s.startswith("C18")]
results = []
with ThreadPoolExecutor(max_workers=jobs) as ex:
    results += list(ex.map(one, par))
for s in serial:
    results.append(one(s))

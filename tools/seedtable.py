#!/usr/bin/env python3
"""Markdown table of the kept seeded changes and what the checks said (from seeded/*/meta.json);
`--write` replaces the block between the SEEDTABLE markers in DESIGN.md."""
import json, os, re, sys
ROOT = os.path.dirname(os.path.dirname(os.path.abspath(__file__)))
rows = []
for sid in sorted(os.listdir(os.path.join(ROOT, "seeded"))):
    m = json.load(open(os.path.join(ROOT, "seeded", sid, "meta.json")))
    note = m["needs_to_manifest"].strip().splitlines()
    title = next((l.lstrip("# ").strip() for l in note if l.strip()), "")
    title = re.sub(r"^(Mutant|Change|Seeded change|C\d\d-[ab])\s*[0-9AB]*\s*[-:—–]*\s*", "", title, flags=re.I)[:110]
    lr = m.get("latest_run", {})
    fr = m.get("first_run", {})
    first = "caught" if fr.get("exit") == 1 else ("missed" if fr else "–")
    now = "caught" if lr.get("caught") else ("MISSED" if lr else "?")
    key = ""
    for l in (lr.get("lines") or []):
        if l.strip().startswith("what:"):
            key = l.strip()[5:].strip()[:90]
            break
    if lr.get("caught") and any("no-failing-input-found" in l for l in lr.get("lines") or []):
        key = "(no failing input found: model/correspondence broken) " + key
    rows.append("| %s | %d | %s | %s | %s | %s |" % (sid, m.get("round", 1), title.replace("|", "/"), first, now, key.replace("|", "/")))
head = "| id | round | change | first run of the round | now | what the check reports |\n|---|---|---|---|---|---|\n"
table = head + "\n".join(rows) + "\n"
caught = sum(1 for r in rows if "| caught |" in r.split("|", 5)[5])
summary = "\n%d kept changes, %d caught by the check of their property at quick tier (seed 0).\n" % (len(rows), sum(1 for r in rows if r.split("|")[5].strip() == "caught"))
if "--write" in sys.argv:
    p = os.path.join(ROOT, "DESIGN.md")
    s = open(p).read()
    a, b = "<!-- SEEDTABLE:BEGIN -->", "<!-- SEEDTABLE:END -->"
    i, j = s.index(a) + len(a), s.index(b)
    s = s[:i] + "\n" + table + summary + s[j:]
    open(p, "w").write(s)
else:
    print(table + summary)

#!/usr/bin/env python3
"""Prompt for an independent sub-agent asked for property-breaking changes (gets the property text only).
usage: tools/mkprompt.py Cxx <worktree> <outdir> <round>"""
import json, sys
pid, wt, out, rnd = sys.argv[1:5]
p = next(json.loads(l) for l in open("/verif/properties.jsonl") if json.loads(l)["id"] == pid)
print(f"""You are helping to evaluate a verification effort for the Python project MatterMiners/cobald (a daemon framework for feedback-controlled resource pools). Your job is to write realistic *faulty changes* to the project ("seeded defects") that break one stated property while still passing the project's test suite.

Work ONLY inside your own scratch git worktree of the repository: {wt}
Never read, list or modify anything under /verif, and never modify /repo (you may not need either). Do not use the network.

The property (this text is all you get about it):

  Title: {p['title']}
  Statement: {p['statement']}
  Quantified over: {p['quantifier']['text']}
  Source files it is anchored in: {', '.join(p['anchors']['files'])}

Task: produce TWO different, independent changes to the source under {wt}/src (each as a separate patch against the worktree's HEAD) such that, for each change:
  1. the project still imports and its existing test suite still passes completely:
       cd {wt} && PYTHONPATH={wt}/src /venv/bin/python -m pytest -q -p no:cacheprovider
     (85 tests; the package is installed in editable mode pointing at /repo/src, so PYTHONPATH={wt}/src is REQUIRED for your worktree's code to be the one that runs - verify with `PYTHONPATH={wt}/src /venv/bin/python -c "import cobald; print(cobald.__file__)"`);
  2. the change breaks the property above - some clause of the statement becomes false for some input / schedule / history;
  3. the breakage needs something SPECIFIC to manifest: a particular interleaving, a crash or fault at a particular point, a multi-step sequence of operations, an unusual-but-legitimate input or boundary value, a particular environment, or two cooperating sites that each look fine alone. Do NOT produce changes that ordinary use would expose at once (e.g. always returning a wrong value), and do not produce changes that merely break something unrelated to the property. The change should look like something a developer could plausibly commit (a refactoring, an optimisation, a "simplification", a lint fix).
  4. you write a demonstration `demo.py` (a small stand-alone program, run as `PYTHONPATH=<tree>/src /venv/bin/python demo.py`) that exits 0 on the unchanged tree and exits non-zero (and prints what went wrong) with your change applied. It must finish within 60 seconds, be deterministic, and must not depend on files outside itself except the cobald package and its installed dependencies (trio, PyYAML, toposort, entrypoints are installed in /venv).

Be creative and varied: this is round {rnd} (earlier rounds already produced the more obvious faults, so go deeper); look for mechanisms that are subtle - e.g. boundary values, unusual types, aliasing/shared objects, ordering, re-entrancy, rarely used parameter combinations, behaviour under a second call, environment dependence, error paths. The two changes must differ in mechanism and, if possible, in the clause they break and the file they touch.

Deliverables - create these files (and nothing else outside your worktree):
  {out}/{pid}-a/patch.diff   (output of `git -C {wt} diff HEAD` with only change A applied)
  {out}/{pid}-a/demo.py
  {out}/{pid}-a/notes.md     (what was changed, which clause breaks, exactly what is needed for it to manifest, why the tests do not notice)
  {out}/{pid}-b/patch.diff, demo.py, notes.md   (same for change B)
After saving each patch, reset the worktree (`git -C {wt} checkout -- . && git -C {wt} clean -fdq`) so the patches are independent; at the very end leave the worktree clean.
Before you finish, verify for each change, from a clean worktree: apply the patch (`git -C {wt} apply <patch>`), run the full test suite (must be 85 passed), run demo.py against the changed tree (must exit non-zero) and against the unchanged tree `PYTHONPATH=/repo/src` (must exit 0). Report in your final message, for each change, one paragraph: the change, the broken clause, what it needs to manifest, and the exact results of those verification commands.""")

import sys
inv, nfields, extra = sys.argv[1], int(sys.argv[2]), sys.argv[3] if len(sys.argv)>3 else ""
events=[("acceptBegin","(r : Nat)","(.acceptBegin r)"),("acceptReject","(r : Nat)","(.acceptReject r)"),
 ("adopt","(p : Nat) (f : Flav)","(.adopt p f)"),("newUnit","(p : Nat) (f : Flav)","(.newUnit p f)"),
 ("start","(p t : Nat)","(.start p t)"),("bodyEnd","(p : Nat) (o : Out)","(.bodyEnd p o)"),
 ("unwound","(p : Nat)","(.unwound p)"),("sigint","",".sigint"),("shutdownCall","",".shutdownCall"),
 ("execBegin","(e : Nat) (f : Flav) (t : Nat)","(.execBegin e f t)"),("execEnd","(e : Nat) (o : Out)","(.execEnd e o)"),
 ("endRun","(r : Res)","(.endRun r)"),("launch","",".launch"),("flush","",".flush"),("sweep","(p : Nat)","(.sweep p)"),
 ("record","(p : Nat)","(.record p)"),("close","(f : Flav)","(.close f)"),("rtaskEnd","(f : Flav)","(.rtaskEnd f)"),
 ("gatherRaise","(f : Flav)","(.gatherRaise f)"),("gatherDone","",".gatherDone"),("discard","(p : Nat)","(.discard p)"),
 ("hold","(p h : Nat)","(.hold p h)"),("dropUnit","(p : Nat)","(.dropUnit p)")]
hs=", ".join("h%d"%i for i in range(1,nfields+1))
print(f"""import CobaldVerif.Lemmas.Runtime
namespace Cobald.Runtime
set_option maxHeartbeats 1000000
attribute [local grind cases] Flav

set_option hygiene false in
macro "inv_ev" : tactic => `(tactic| (
  simp only [step] at hs
  repeat' (split at hs)
  all_goals (first | (simp at hs; done) | skip)
  all_goals (try (simp only [Option.some.injEq] at hs; subst hs))
  all_goals (try simp only [beq_iff_eq, Bool.or_eq_true] at *)
  all_goals (first | exact h | (
    obtain ⟨{hs}⟩ := h
    constructor <;> (try simp only [upd'_apply, upd_apply, setFlavTid_phase, setFlavTid_guard, setFlavTid_pay, setFlavTid_fl, setFlavTid_starts, setFlavTid_tid, setFlavTid_latch, setFlavTid_rtask, setFlavTid_gather, setFlavTid_stopReq, setFlavTid_flushed, setFlavTid_execs, setFlavTid_failedQuiet, setFlavTid_holder, setFlavTid_pids]) <;> grind [step.upd', upd, St.quiet, St.closing, Out.failing, Out.loopKiller, St.setFlavTid, St.tidOK, St.coBusy, Flav.isCo, Phase.restartable, Latch.isFailed{extra}]))))
""")
for name,binders,ev in events:
    print(f"theorem {inv}_{name} (s s' : St) {binders} (h : {inv} s) (hs : step s {ev} = some s') : {inv} s' := by\n  inv_ev\n")
print(f"""theorem {inv}_step (s s' : St) (e : Ev) (h : {inv} s) (hs : step s e = some s') : {inv} s' := by
  cases e with""")
for name,binders,ev in events:
    args=" ".join(b.split(":")[0].strip("( ") for b in binders.split(")") if ":" in b)
    # binder names
    names=[]
    for b in binders.replace("(","").split(")"):
        if ":" in b: names += b.split(":")[0].split()
    print(f"  | {name} {' '.join(names)} => exact {inv}_{name} s s' {' '.join(names)} h hs")
print("\nend Cobald.Runtime")

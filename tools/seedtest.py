#!/usr/bin/env python3
"""Try a seeded change: apply it to /repo, run the baseline suite, the demonstration and the given
checks, then restore /repo.   usage: tools/seedtest.py <patch.diff> <demo.py> Cxx [Cyy ...]"""
import json
import os
import subprocess
import sys
import time

ROOT = os.path.dirname(os.path.dirname(os.path.abspath(__file__)))
patch, demo, checks = sys.argv[1], sys.argv[2], sys.argv[3:]


def sh(cmd, **kw):
    return subprocess.run(cmd, shell=True, capture_output=True, text=True, **kw)


def demo_rc():
    try:
        return sh("PYTHONPATH=/repo/src /venv/bin/python %s" % demo, timeout=120).returncode
    except subprocess.TimeoutExpired:
        return "timeout"


res = {"patch": patch}
assert sh("git -C /repo status --porcelain").stdout.strip() == "", "/repo is not clean"
res["demo_clean_rc"] = demo_rc()
a = sh("git -C /repo apply %s" % patch)
if a.returncode != 0:
    print("patch does not apply:", a.stderr)
    sys.exit(2)
try:
    t = sh("cd /repo && /venv/bin/python -m pytest -q -p no:cacheprovider 2>&1 | tail -1")
    res["suite"] = t.stdout.strip()
    res["demo_mutant_rc"] = demo_rc()
    res["checks"] = {}
    for c in checks:
        t0 = time.time()
        r = sh("cd %s && ./check %s --tier quick" % (ROOT, c), timeout=3000)
        lines = [l for l in r.stdout.splitlines() if l.startswith(("VIOLATION", "KNOWN", c, "  what", "INTERNAL", "  no longer"))]
        res["checks"][c] = {"rc": r.returncode, "lines": lines[:8], "wall": round(time.time() - t0, 1)}
finally:
    sh("git -C /repo checkout -- .")
    sh("git -C /repo clean -fdq src")
print(json.dumps(res, indent=1))

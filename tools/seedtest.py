#!/usr/bin/env python3
"""Try a seeded change on a scratch copy of /repo (made under /tmp, removed afterwards): baseline
suite, the demonstration with and without the change, and the given checks (VERIF_REPO points
them at the copy).  usage: tools/seedtest.py <patch.diff> <demo.py> Cxx [Cyy ...] [--tier T] [--seed N]
C18 regenerates a shared Lean file and therefore patches /repo itself instead of a copy."""
import json
import os
import shutil
import subprocess
import sys
import tempfile
import time
import signal
if signal.getsignal(signal.SIGINT) in (signal.SIG_IGN, None):
    signal.signal(signal.SIGINT, signal.default_int_handler)   # (background jobs inherit SIGINT ignored; the suite sends SIGINTs)

ROOT = os.path.dirname(os.path.dirname(os.path.abspath(__file__)))
args = sys.argv[1:]
tier, seed = "quick", "0"
if "--tier" in args:
    i = args.index("--tier"); tier = args[i + 1]; del args[i:i + 2]
if "--seed" in args:
    i = args.index("--seed"); seed = args[i + 1]; del args[i:i + 2]
patch, demo, checks = args[0], args[1], args[2:]


def sh(cmd, **kw):
    return subprocess.run(cmd, shell=True, capture_output=True, text=True, **kw)


def demo_rc(repo):
    try:
        return sh("PYTHONPATH=%s/src /venv/bin/python %s" % (repo, demo), timeout=120).returncode
    except subprocess.TimeoutExpired:
        return "timeout"


in_place = False   # experiments regenerate into a private overlay of the Lean project (vh/lean.py)
res = {"patch": patch, "tier": tier, "seed": seed}
res["demo_clean_rc"] = demo_rc("/repo")
if in_place:
    assert sh("git -C /repo status --porcelain").stdout.strip() == "", "/repo is not clean"
    repo = "/repo"
else:
    tmp = tempfile.mkdtemp(prefix="vh-seed-")
    repo = os.path.join(tmp, "repo")
    sh("git -C /repo worktree add --detach %s HEAD" % repo)
a = sh("git -C %s apply %s" % (repo, os.path.abspath(patch)))
try:
    if a.returncode != 0:
        print("patch does not apply:", a.stderr)
        sys.exit(2)
    # the suite and the demonstration are timing-sensitive: they run while no check of another seeded run
    # is loading the machine (exclusive lock; the checks below hold it shared)
    import fcntl
    lk = open("/tmp/vh-seed.lock", "w")
    fcntl.flock(lk, fcntl.LOCK_EX)
    try:
        t = sh("cd %s && PYTHONPATH=%s/src /venv/bin/python -m pytest -q -p no:cacheprovider 2>&1 | tail -1" % (repo, repo))
        res["suite"] = t.stdout.strip()
        res["demo_mutant_rc"] = demo_rc(repo)
    finally:
        fcntl.flock(lk, fcntl.LOCK_UN)
    fcntl.flock(lk, fcntl.LOCK_SH)
    res["checks"] = {}
    for c in checks:
        t0 = time.time()
        evd = tempfile.mkdtemp(prefix="vh-seed-ev-")
        r = sh("cd %s && VERIF_EVIDENCE_DIR=%s VERIF_REPO=%s VERIF_SEED=%s ./check %s --tier %s" % (ROOT, evd, repo, seed, c, tier), timeout=6000)
        try:
            ev = json.load(open(os.path.join(evd, c + ".json")))
            dist = {k: v for k, v in ev["coverage"].get("distribution", {}).items() if not k.startswith(("types=", "n=", "op:", "kind:", "form:"))}
        except Exception as e:
            dist = {"unreadable": str(e)}
        shutil.rmtree(evd, ignore_errors=True)
        lines = [l for l in r.stdout.splitlines() if l.startswith(("VIOLATION", "KNOWN", c, "  what", "INTERNAL", "  no longer"))]
        res["checks"][c] = {"rc": r.returncode, "lines": [l[:300] for l in lines[:8]], "wall": round(time.time() - t0, 1), "dist": dist}
finally:
    if in_place:
        sh("git -C /repo checkout -- .")
        sh("git -C /repo clean -fdq src")
    else:
        sh("git -C /repo worktree remove --force %s" % repo)
        shutil.rmtree(tmp, ignore_errors=True)
print(json.dumps(res, indent=1))

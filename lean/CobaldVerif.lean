import CobaldVerif.Drive.All
import CobaldVerif.Props.C06
import CobaldVerif.Props.C07
import CobaldVerif.Props.C08
import CobaldVerif.Props.C17
import CobaldVerif.Props.C19
import CobaldVerif.Props.C14
import CobaldVerif.Props.C04

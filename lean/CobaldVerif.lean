import CobaldVerif.Model.Num
import CobaldVerif.Model.Standardiser
import CobaldVerif.Drive.All

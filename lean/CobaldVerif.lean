import CobaldVerif.Drive.All
import CobaldVerif.Props.C06

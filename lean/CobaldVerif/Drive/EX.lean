import CobaldVerif.Drive.Wire
import CobaldVerif.Model.Runtime.Exec

/-! Acceptor for the blocking model of `execute`: the calls, payload starts and returns of a real
run, in the order they were logged. -/
namespace Cobald.Drive.EX
open Lean Cobald Cobald.Wire Cobald.Exec

def parseEv (j : Json) : Except String Ev := do
  let a ← j.getArr?
  let tag ← (a[0]?.getD Json.null).getStr?
  let n (i : Nat) : Except String Nat := (a[i]?.getD Json.null).getNat?
  match tag with
  | "call" => return .call (← n 1) (← n 2) (← n 3)
  | "begin" => return .begin (← n 1)
  | "finish" => return .finish (← n 1)
  | t => throw s!"bad event {t}"

def handle (j : Json) : Except String Json := do
  let evs ← (← getArr j "events").toList.mapM parseEv
  let mut s := St.init
  let mut idx : Nat := 0
  for e in evs do
    match step s e with
    | some s' => s := s'
    | none =>
      return Json.mkObj [("accepted", Json.bool false), ("rejected_at", Json.num idx)]
    idx := idx + 1
  return Json.mkObj [("accepted", Json.bool true), ("in_flight", Json.num s.calls.length),
    ("opposite", Json.bool s.opposite), ("can_progress", Json.bool s.canProgress),
    ("well_targeted", Json.bool s.wellTargeted)]

end Cobald.Drive.EX

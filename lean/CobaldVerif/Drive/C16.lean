import CobaldVerif.Drive.Wire
import CobaldVerif.Model.Decorators

namespace Cobald.Drive.C16
open Lean Cobald Cobald.Wire Cobald.Decorators

def parseAttr (s : String) : Except String Attr :=
  match s with
  | "supply" => pure .supply
  | "utilisation" => pure .util
  | "allocation" => pure .alloc
  | t => throw s!"bad attr {t}"

def handle (j : Json) : Except String Json := do
  let mode ← getStr j "mode"
  if mode = "tmpl" then
    let known ← (← getArr j "known").toList.mapM (fun x => do return (← x.getStr?).toList)
    let t := (← getStr j "t").toList
    return Json.mkObj [("ok", Json.bool (templateOK known t))]
  let qj ← j.getObjVal? "pool"
  let pool : Pool := { supply := ← getRat qj "supply", demand := .fin (← getRat qj "demand"),
                       util := ← getRat qj "util", alloc := ← getRat qj "alloc" }
  let mut st : Stack := .base pool
  for l in (← getArr j "layers") do
    let a ← l.getArr?
    let kind ← (a[0]?.getD Json.null).getStr?
    match kind with
    | "plain" => st := .plain st
    | "logger" => st := .logger (← (a[1]?.getD Json.null).getNat?) st
    | "buffer" => st := mkBuffer st
    | "std" =>
      let pj := a[1]?.getD Json.null
      let p : Standardiser.Params := { min := ← getERat pj "min", max := ← getERat pj "max", g := ← getRat pj "g",
                                       backlog := ← getERat pj "backlog", surplus := ← getERat pj "surplus" }
      st := mkStd p st
    | k => throw s!"bad layer {k}"
  let mut obs : Array Json := #[]
  for o in (← getArr j "ops") do
    let a ← o.getArr?
    let tag ← (a[0]?.getD Json.null).getStr?
    match tag with
    | "get" => obs := obs.push (jRat (getAttr (← parseAttr (← (a[1]?.getD Json.null).getStr?)) st))
    | "getd" =>
      let (st', d) := getDemand st
      st := st'
      obs := obs.push (jERat d)
    | "set" =>
      let (st', recs) := setDemand st (.fin (← asRat (a[1]?.getD Json.null)))
      st := st'
      obs := obs.push (Json.mkObj [
        ("records", Json.arr (recs.map (fun r => Json.arr #[Json.num r.logger, jERat r.value, jERat r.demand,
            jRat r.supply, jRat r.util, jRat r.alloc])).toArray),
        ("base", jERat st.basePool.demand)])
    | "base" =>
      let f ← (a[1]?.getD Json.null).getStr?
      let x ← asRat (a[2]?.getD Json.null)
      st := setBase (fun p => match f with
        | "supply" => { p with supply := x }
        | "utilisation" => { p with util := x }
        | "allocation" => { p with alloc := x }
        | _ => { p with demand := .fin x }) st
      obs := obs.push Json.null
    | t => throw s!"bad op {t}"
  return Json.mkObj [("obs", Json.arr obs)]

end Cobald.Drive.C16

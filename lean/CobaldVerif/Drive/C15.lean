import CobaldVerif.Drive.Wire
import CobaldVerif.Model.Factory

namespace Cobald.Drive.C15
open Lean Cobald Cobald.Wire Cobald.Factory

def parseChild (j : Json) : Except String Child := do
  return { id := ← getNat j "id", supply := ← getRat j "supply", util := ← getRat j "util",
           alloc := ← getRat j "alloc", demand := ← getRat j "demand" }

def nats (a : Array Json) : Except String (List Nat) := a.toList.mapM (fun x => x.getNat?)

def parseOp (j : Json) : Except String Op := do
  let a ← j.getArr?
  let tag ← (a[0]?.getD Json.null).getStr?
  match tag with
  | "D" => return .setDemand (← asRat (a[1]?.getD Json.null))
  | "adj" => return .adjust (← nats (← (a[1]?.getD Json.null).getArr?))
  | "c" => return .childSet (← (a[1]?.getD Json.null).getNat?) (← (a[2]?.getD Json.null).getNat?) (← asRat (a[3]?.getD Json.null))
  | "gc" => return .gc (← (a[1]?.getD Json.null).getNat?)
  | t => throw s!"bad op {t}"

def sortNat (l : List Nat) : List Nat := (l.toArray.qsort (· < ·)).toList

def snap (st : St) : Json :=
  let all := (st.all.toArray.qsort (fun a b => a.id < b.id)).toList
  Json.mkObj [
    ("hatchery", Json.arr ((sortNat (st.hatchery.map (·.id))).map (fun (n : Nat) => Json.num n)).toArray),
    ("mortuary", Json.arr ((sortNat (st.mortuary.map (·.id))).map (fun (n : Nat) => Json.num n)).toArray),
    ("demands", Json.arr (all.map (fun c => Json.arr #[Json.num c.id, jRat c.demand])).toArray),
    ("spawned", Json.num st.spawned),
    ("demand", jRat st.demand), ("supply", jRat (supply st)),
    ("util", jRat (fitness st (·.util))), ("alloc", jRat (fitness st (·.alloc)))]

def handle (j : Json) : Except String Json := do
  let cs ← (← getArr j "children").toList.mapM parseChild
  let tmpls ← (← getArr j "factory").toList.mapM parseChild
  let factory : Nat → Child := fun n =>
    match tmpls[n % (max tmpls.length 1)]? with
    | some c => c
    | none => { id := 0, supply := 0, util := 1, alloc := 1, demand := 1 }
  let ops ← (← getArr j "ops").toList.mapM parseOp
  let mut st := init cs
  let mut obs : Array Json := #[snap st]
  for o in ops do
    match step factory 100000 st o with
    | some st' =>
      st := st'
      obs := obs.push (snap st)
    | none =>
      obs := obs.push (Json.str "error")
      break
  return Json.mkObj [("obs", Json.arr obs)]

end Cobald.Drive.C15

import CobaldVerif.Drive.Wire
import CobaldVerif.Model.Partial

namespace Cobald.Drive.C04
open Lean Cobald Cobald.Wire Cobald.Partial

def parseParam (j : Json) : Except String Param := do
  let a ← j.getArr?
  return { name := ← (a[0]?.getD Json.null).getStr?, hasDefault := ← (a[1]?.getD Json.null).getBool? }

def parseSig (j : Json) : Except String Sig := do
  return { pos := ← (← getArr j "pos").toList.mapM parseParam, varPos := ← getBool j "varPos",
           kwOnly := ← (← getArr j "kwOnly").toList.mapM parseParam, varKw := ← getBool j "varKw" }

def parseArg (j : Json) : Except String Arg := do
  return { id := ← getNat j "id", isPool := ← getBool j "pool" }

def parseKw (a : Array Json) : Except String (List (String × Arg)) :=
  a.toList.mapM (fun j => do
    let p ← j.getArr?
    return (← (p[0]?.getD Json.null).getStr?, ← parseArg (p[1]?.getD Json.null)))

def parseTmpl (j : Json) : Except String Tmpl := do
  return { ctor := ← getNat j "ctor", args := ← (← getArr j "args").toList.mapM parseArg,
           kwargs := ← parseKw (← getArr j "kwargs"), leaf := ← getBool j "leaf" }

partial def parseExpr (items : Array Item) (j : Json) : Except String Expr := do
  match j with
  | .arr a =>
    if a.size = 2 then
      return .shift (← parseExpr items a[0]!) (← parseExpr items a[1]!)
    else throw "bad tree"
  | _ =>
    let i ← j.getNat?
    match items[i]? with
    | some it => return .leaf it
    | none => throw "bad leaf index"

def jTmplCall (t : Tmpl) : List (String × Json) :=
  [("ctor", Json.num t.ctor), ("args", Json.arr (t.args.map (fun a => Json.num a.id)).toArray),
   ("kwargs", Json.arr (t.kwargs.map (fun (k, a) => Json.arr #[Json.str k, Json.num a.id])).toArray)]

partial def jObj : Obj → Json
  | .pool id => Json.mkObj [("pool", Json.num id)]
  | .built t tgt => Json.mkObj (jTmplCall t ++ [("target", match tgt with | some o => jObj o | none => Json.null)])

def handleChain (j : Json) : Except String Json := do
  let tm ← (← getArr j "items").mapM (fun it => do
    match it.getObjVal? "pool" with
    | .ok p => return Item.obj (.pool (← p.getNat?))
    | .error _ => do
        -- the template is built by its curry calls, with a permissive signature
        -- `(target?, *args, **kwargs)`: the chain stream is about `>>`, not about binding
        let leaf ← getBool it "leaf"
        let ctor ← getNat it "ctor"
        let sigOf : Nat → Sig := fun _ =>
          { pos := if leaf then [] else [⟨"target", false⟩], varPos := true, kwOnly := [], varKw := true }
        let mut cur : Option Tmpl := none
        let mut first := true
        for c in (← getArr it "calls") do
          let args ← (← getArr c "args").toList.mapM parseArg
          let kwargs ← parseKw (← getArr c "kwargs")
          cur := if first then Tmpl.new sigOf ctor leaf args kwargs
                 else cur.bind (fun t => Tmpl.call sigOf t args kwargs)
          first := false
        match cur with
        | some t => return Item.tmpl t
        | none => throw "template rejected")
  let e ← parseExpr tm (← j.getObjVal? "tree")
  match eval e with
  | some (.obj o, log) =>
    return Json.mkObj [("obj", jObj o), ("log", Json.arr (log.map (fun t => Json.mkObj (jTmplCall t))).toArray)]
  | some (_, log) => return Json.mkObj [("unbound", Json.num log.length)]
  | none => return Json.mkObj [("error", "TypeError")]

def handle (j : Json) : Except String Json := do
  let mode ← getStr j "mode"
  match mode with
  | "sig" =>
    let sig ← parseSig (← j.getObjVal? "sig")
    let leaf ← getBool j "leaf"
    let calls ← getArr j "calls"
    let sigOf : Nat → Sig := fun _ => sig
    let mut cur : Option Tmpl := none
    let mut idx := 0
    let mut rejectAt : Option Nat := none
    for c in calls do
      let args ← (← getArr c "args").toList.mapM parseArg
      let kwargs ← parseKw (← getArr c "kwargs")
      let next := match cur with
        | none => if idx = 0 then Tmpl.new sigOf 0 leaf args kwargs else none
        | some t => Tmpl.call sigOf t args kwargs
      match next with
      | some t => cur := some t
      | none => rejectAt := some idx; break
      idx := idx + 1
    let complete := match cur, rejectAt with
      | some t, none => sig.callBinds (t.args.length + (if leaf then 0 else 1)) (t.kwargs.map (·.1))
      | _, _ => false
    return Json.mkObj [("reject_at", match rejectAt with | some i => Json.num i | none => Json.null),
                       ("complete", Json.bool complete)]
  | "chain" => handleChain j
  | "chains" =>
    -- several chains that share intermediate values in the implementation; templates and pending
    -- binds are immutable values in the model, so sharing is re-evaluation
    let rs ← (← getArr j "chains").toList.mapM handleChain
    return Json.mkObj [("results", Json.arr rs.toArray)]
  | m => throw s!"bad mode {m}"

end Cobald.Drive.C04

/-
Wire format helpers for the line protocol (DESIGN §2.4).
Numbers cross the boundary as strings: "n/d", "n", "inf", "-inf" — never decimal floats.
-/
import Lean.Data.Json
import CobaldVerif.Model.Num

namespace Cobald.Wire
open Lean

def parseInt? (s : String) : Option Int := s.toInt?

def parseRat? (s : String) : Option Rat :=
  match s.splitOn "/" with
  | [n] => (parseInt? n).map (fun i => (i : Rat))
  | [n, d] => do
      let ni ← parseInt? n
      let di ← d.toNat?
      if di = 0 then none else some (mkRat ni di)
  | _ => none

def parseERat? (s : String) : Option ERat :=
  if s = "inf" then some .pinf
  else if s = "-inf" then some .ninf
  else (parseRat? s).map ERat.fin

def ratStr (q : Rat) : String := s!"{q.num}/{q.den}"

def jRat (q : Rat) : Json := Json.str (ratStr q)
def jERat (q : ERat) : Json := Json.str (toString q)

def getStr (j : Json) (k : String) : Except String String :=
  j.getObjVal? k >>= Json.getStr?

def getRat (j : Json) (k : String) : Except String Rat := do
  let s ← getStr j k
  match parseRat? s with
  | some q => pure q
  | none => throw s!"bad rational {k}={s}"

def getERat (j : Json) (k : String) : Except String ERat := do
  let s ← getStr j k
  match parseERat? s with
  | some q => pure q
  | none => throw s!"bad number {k}={s}"

def asRat (j : Json) : Except String Rat := do
  let s ← j.getStr?
  match parseRat? s with
  | some q => pure q
  | none => throw s!"bad rational {s}"

def asERat (j : Json) : Except String ERat := do
  let s ← j.getStr?
  match parseERat? s with
  | some q => pure q
  | none => throw s!"bad number {s}"

def getArr (j : Json) (k : String) : Except String (Array Json) :=
  j.getObjVal? k >>= Json.getArr?

def getNat (j : Json) (k : String) : Except String Nat :=
  j.getObjVal? k >>= Json.getNat?

def getBool (j : Json) (k : String) : Except String Bool :=
  j.getObjVal? k >>= Json.getBool?

end Cobald.Wire

import CobaldVerif.Drive.C04
import CobaldVerif.Model.Pipeline

namespace Cobald.Drive.C05
open Lean Cobald Cobald.Wire Cobald.Partial Cobald.Pipeline

def handle (j : Json) : Except String Json := do
  let elems ← (← getArr j "elems").toList.mapM (fun e => do
    let t ← C04.parseTmpl e
    let legacy ← getBool e "legacy"
    return (if legacy then Elem.legacy t else Elem.tag t))
  let failing ← (← getArr j "fails").toList.mapM (fun x => x.getNat?)
  let (res, log) := pipeline (fun t => failing.contains t.ctor) elems
  return Json.mkObj [
    ("objs", match res with
      | some os => Json.arr (os.map C04.jObj).toArray
      | none => Json.null),
    ("log", Json.arr (log.map (fun t => Json.num t.ctor)).toArray)]

end Cobald.Drive.C05

import CobaldVerif.Drive.Wire
import CobaldVerif.Generated.Tables

namespace Cobald.Drive.C18
open Lean Cobald Cobald.Wire Cobald.YamlSafe

partial def parseNode (j : Json) : Except String Node := do
  let t := (← getStr j "t").toList
  let k ← getStr j "k"
  match k with
  | "scalar" => return .scalar t
  | "seq" => return .seq t (← (← getArr j "c").toList.mapM parseNode)
  | "map" =>
    let ps ← (← getArr j "c").toList.mapM (fun p => do
      let a ← p.getArr?
      return (← parseNode (a[0]?.getD Json.null), ← parseNode (a[1]?.getD Json.null)))
    return .map t ps
  | x => throw s!"bad node kind {x}"

def kindStr : Kind → String
  | .std => "std" | .plugin => "plugin" | .undefined => "undefined" | .other => "other"

def handle (j : Json) : Except String Json := do
  let doc ← parseNode (← j.getObjVal? "doc")
  match construct Cobald.Generated.cobaldLoader doc with
  | none => return Json.mkObj [("result", "error")]
  | some log =>
    return Json.mkObj [("result", "ok"),
      ("calls", Json.arr (log.map (fun c => Json.arr #[Json.str (String.ofList c.tag), Json.str (kindStr c.kind)])).toArray)]

end Cobald.Drive.C18

import CobaldVerif.Drive.Wire
import CobaldVerif.Model.LineProtocol

namespace Cobald.Drive.C17
open Lean Cobald Cobald.Wire Cobald.LP

def jChars (l : List Char) : Json := Json.str (String.ofList l)

def parseFVal (j : Json) : Except String FVal := do
  match j.getObjVal? "s" with
  | .ok s => return .str (← s.getStr?).toList
  | .error _ => return .tok (← getStr j "t").toList

def jFVal : FVal → Json
  | .str s => Json.mkObj [("s", jChars s)]
  | .tok t => Json.mkObj [("t", jChars t)]

def parsePairs (a : Array Json) : Except String (List (List Char × FVal)) :=
  a.toList.mapM (fun j => do
    let p ← j.getArr?
    return ((← (p[0]?.getD Json.null).getStr?).toList, ← parseFVal (p[1]?.getD Json.null)))

def jRec (r : Rec) : Json :=
  Json.mkObj [("name", jChars r.name),
    ("tags", Json.arr (r.tags.map (fun (k, v) => Json.arr #[jChars k, jChars v])).toArray),
    ("fields", Json.arr (r.fields.map (fun (k, v) => Json.arr #[jChars k, jFVal v])).toArray),
    ("ts", match r.ts with | some t => jChars t | none => Json.null)]

def strList (a : Array Json) : Except String (List (List Char)) :=
  a.toList.mapM (fun j => do return (← j.getStr?).toList)

def handle (j : Json) : Except String Json := do
  let mode ← getStr j "mode"
  match mode with
  | "line" =>
    let name := (← getStr j "name").toList
    let tags := (← parsePairs (← getArr j "tags")).map (fun (k, v) => (k, tagText v))
    let fields ← parsePairs (← getArr j "fields")
    let ts ← (match j.getObjVal? "tsec" with
      | .ok (Json.str s) => do
          match parseInt? s with
          | some i => pure (some (toString (i * 1000000000)).toList)
          | none => throw "bad tsec"
      | _ => pure none)
    let line := lineProtocol name tags fields ts
    return Json.mkObj [("line", jChars line),
      ("decoded", match decodeLine line with | some r => jRec r | none => Json.null)]
  | "json" =>
    let layers ← (← getArr j "layers").toList.mapM (fun l => do
      let a ← l.getArr?
      a.toList.mapM (fun kv => do
        let p ← kv.getArr?
        return ((← (p[0]?.getD Json.null).getStr?).toList, ← (p[1]?.getD Json.null).getStr?)))
    let merged := mergeLayers layers
    return Json.mkObj [("merged", Json.arr (merged.map (fun (k, v) => Json.arr #[jChars k, Json.str v])).toArray)]
  | "decode" =>
    let line := (← getStr j "line").toList
    return Json.mkObj [("decoded", match decodeLine line with | some r => jRec r | none => Json.null)]
  | "fmt" =>
    let name := (← getStr j "name").toList
    let defaults := (← parsePairs (← getArr j "defaults")).map (fun (k, v) => (k, tagText v))
    let whitelist ← strList (← getArr j "whitelist")
    let attrs ← strList (← getArr j "attrs")
    let args ← parsePairs (← getArr j "args")
    let (tags, fields) := splitRecord defaults whitelist attrs args
    let ts ← (match j.getObjVal? "res" with
      | .ok (Json.str s) => do
          let res ← (match parseInt? s with | some i => pure i | none => throw "bad res")
          let created ← getRat j "created"
          pure (some (toString (floorTs created res * 1000000000)).toList)
      | _ => pure none)
    let line := lineProtocol name tags fields ts
    return Json.mkObj [("line", jChars line),
      ("decoded", match decodeLine line with | some r => jRec r | none => Json.null)]
  | m => throw s!"bad mode {m}"

end Cobald.Drive.C17

import CobaldVerif.Drive.Wire
import CobaldVerif.Model.Translate

namespace Cobald.Drive.C19
open Lean Cobald Cobald.Wire Cobald.Translate

partial def parseCfg (j : Json) : Except String Cfg := do
  if let .ok s := j.getObjVal? "s" then return .scalar (.str (← s.getStr?))
  if let .ok n := j.getObjVal? "n" then return .scalar (.other (← n.getNat?))
  if let .ok l := j.getObjVal? "l" then
    return .list (← (← l.getArr?).toList.mapM parseCfg)
  if let .ok m := j.getObjVal? "m" then
    let es ← (← m.getArr?).toList.mapM (fun e => do
      let p ← e.getArr?
      return ((← (p[0]?.getD Json.null).getStr?), ← parseCfg (p[1]?.getD Json.null)))
    return .map es
  throw "bad cfg"

partial def jVal : Val → Json
  | .scalar (.str s) => Json.mkObj [("s", Json.str s)]
  | .scalar (.other n) => Json.mkObj [("n", Json.num n)]
  | .list l => Json.mkObj [("l", Json.arr (l.map jVal).toArray)]
  | .map m => Json.mkObj [("m", Json.arr (m.map (fun (k, v) => Json.arr #[Json.str k, jVal v])).toArray)]
  | .obj i => Json.mkObj [("obj", Json.num i)]

def pathStr (p : Path) : String :=
  p.foldl (fun acc s => match s with
    | .key k => acc ++ "." ++ k
    | .idx i => acc ++ "[" ++ toString i ++ "]") ""

def jLog (log : Log) : Json :=
  Json.arr (log.map (fun c => Json.arr #[Json.str (pathStr c.path), Json.num c.factory,
    Json.arr (c.args.map jVal).toArray,
    Json.arr (c.kwargs.map (fun (k, v) => Json.arr #[Json.str k, jVal v])).toArray])).toArray

def handle (j : Json) : Except String Json := do
  let cfg ← parseCfg (← j.getObjVal? "cfg")
  let names ← (← getArr j "names").toList.mapM (fun e => do
    let p ← e.getArr?
    return ((← (p[0]?.getD Json.null).getStr?), ← (p[1]?.getD Json.null).getNat?))
  let fails ← (← getArr j "fails").toList.mapM (fun e => e.getNat?)
  let env : Env := {
    resolve := fun n => (names.find? (fun p => p.1 == n)).map (·.2)
    apply := fun f _ _ n => if fails.contains f then none else some (.obj n) }
  match tr env cfg [] [] with
  | .ok (v, log) => return Json.mkObj [("ok", jVal v), ("log", jLog log)]
  | .error (p, log) => return Json.mkObj [("err", Json.str (pathStr p)), ("log", jLog log)]

end Cobald.Drive.C19

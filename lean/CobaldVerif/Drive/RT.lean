import CobaldVerif.Drive.Wire
import CobaldVerif.Model.Runtime.LTS
import Std.Data.HashSet

/-! Trace acceptor for the runtime LTS: a weak simulation by subset construction.
The observable events of a real run are given in the order in which they were logged; before
every observable event the current set of model states is closed under the internal events. -/
namespace Cobald.Drive.RT
open Lean Cobald Cobald.Wire Cobald.Runtime

def flavs : List Flav := [.aio, .trio, .thr]

def flavCode : Flav → Nat | .aio => 0 | .trio => 1 | .thr => 2
def pstCode : PSt → Nat
  | .absent => 0 | .queued => 1 | .unit => 2 | .submitted => 3 | .running => 4
  | .ended o => 10 + outCode o | .done o => 20 + outCode o | .unwound => 5 | .discarded => 6
where outCode : Out → Nat | .none => 0 | .value => 1 | .exc => 2 | .baseExc => 3 | .kbd => 4 | .sysExit => 5
def latchCode : Latch → Nat | .opened => 0 | .closed => 1 | .failed p => 2 + p
def rtaskCode : RTask → Nat | .running => 0 | .ok => 1 | .cancelled => 2 | .err p => 3 + p
def gatherCode : Gather → Nat | .pending => 0 | .interrupted => 1 | .completed => 2 | .raised p => 3 + p
def phaseCode : Phase → Nat
  | .idle => 0 | .launching => 1 | .up => 2
  | .ended .returned => 3 | .ended (.raisedRT p) => 10 + 2 * p | .ended (.raisedBase p) => 11 + 2 * p

/-- a finite fingerprint of a state, relative to the payload / execute ids of the scenario -/
def key (pids : List Nat) (s : St) : List Nat :=
  [phaseCode s.phase, (s.guard.map (· + 1)).getD 0, gatherCode s.gather, if s.stopReq then 1 else 0,
   if s.flushed then 1 else 0, (s.loopTid.map (· + 1)).getD 0, (s.trioTid.map (· + 1)).getD 0] ++
  flavs.map (fun f => latchCode (s.latch f)) ++ flavs.map (fun f => rtaskCode (s.rtask f)) ++
  pids.map (fun p => pstCode (s.pay p)) ++ pids.map (fun p => s.starts p) ++
  pids.map (fun p => match s.execs p with | some (f, t) => 1 + flavCode f + 3 * t | none => 0) ++
  pids.map (fun p => (s.holder p).getD 0 + (if (s.holder p).isSome then 1 else 0)) ++
  s.failedQuiet

/-- internal events whose timing matters (the acceptor branches on them) -/
def branching (pids : List Nat) : List Ev :=
  [.gatherDone] ++ flavs.map .close ++ flavs.map .rtaskEnd ++ flavs.map .gatherRaise ++ pids.map .record

/-- internal events that only enable more behaviour: taken as soon as possible -/
def eager (pids : List Nat) (s : St) : St :=
  let s := (step s .launch).getD s
  let s := (step s .flush).getD s
  pids.foldl (fun s p => (step s (.sweep p)).getD s) s

def dedup (pids : List Nat) (ss : List St) : List St :=
  let rec go (seen : Std.HashSet (List Nat)) (acc : List St) : List St → List St
    | [] => acc.reverse
    | s :: rest =>
      let k := key pids s
      if seen.contains k then go seen acc rest else go (seen.insert k) (s :: acc) rest
  go {} [] ss

/-- closure under internal events (bounded: every internal event makes progress) -/
def closure (pids : List Nat) (fuel : Nat) (ss : List St) : List St :=
  match fuel with
  | 0 => ss
  | fuel + 1 =>
    let ss := ss.map (eager pids)
    let next := ss.flatMap (fun s => (branching pids).filterMap (step s))
    let all := (dedup pids (ss ++ next.map (eager pids))).map (St.compact pids)
    if all.length = ss.length then all else closure pids fuel all

def parseFlav (s : String) : Except String Flav :=
  match s with
  | "aio" => pure .aio | "trio" => pure .trio | "thr" => pure .thr
  | t => throw s!"bad flavour {t}"

def parseOut (s : String) : Except String Out :=
  match s with
  | "none" => pure .none | "value" => pure .value | "exc" => pure .exc
  | "baseExc" => pure .baseExc | "kbd" => pure .kbd | "sysExit" => pure .sysExit
  | t => throw s!"bad outcome {t}"

def parseEv (j : Json) : Except String Ev := do
  let a ← j.getArr?
  let tag ← (a[0]?.getD Json.null).getStr?
  let n (i : Nat) : Except String Nat := (a[i]?.getD Json.null).getNat?
  let str (i : Nat) : Except String String := (a[i]?.getD Json.null).getStr?
  match tag with
  | "acceptBegin" => return .acceptBegin (← n 1)
  | "acceptReject" => return .acceptReject (← n 1)
  | "adopt" => return .adopt (← n 1) (← parseFlav (← str 2))
  | "newUnit" => return .newUnit (← n 1) (← parseFlav (← str 2))
  | "start" => return .start (← n 1) (← n 2)
  | "bodyEnd" => return .bodyEnd (← n 1) (← parseOut (← str 2))
  | "unwound" => return .unwound (← n 1)
  | "hold" => return .hold (← n 1) (← n 2)
  | "dropUnit" => return .dropUnit (← n 1)
  | "sigint" => return .sigint
  | "shutdownCall" => return .shutdownCall
  | "execBegin" => return .execBegin (← n 1) (← parseFlav (← str 2)) (← n 3)
  | "execEnd" => return .execEnd (← n 1) (← parseOut (← str 2))
  | "endRun" =>
    match (← str 1) with
    | "returned" => return .endRun .returned
    | "raisedRT" => return .endRun (.raisedRT (← n 2))
    | "raisedBase" => return .endRun (.raisedBase (← n 2))
    | t => throw s!"bad result {t}"
  | t => throw s!"bad event {t}"

def handle (j : Json) : Except String Json := do
  let pids ← (← getArr j "pids").toList.mapM (fun x => x.getNat?)
  let evs ← (← getArr j "events").toList.mapM parseEv
  let mut states : List St := [St.init]
  let mut idx : Nat := 0
  let mut maxStates : Nat := 1
  for e in evs do
    let cl := closure pids 64 states
    maxStates := max maxStates cl.length
    let next := (dedup pids (cl.filterMap (fun s => step s e))).map (St.compact pids)
    if next.isEmpty then
      return Json.mkObj [("accepted", Json.bool false), ("rejected_at", Json.num idx), ("states", Json.num maxStates)]
    states := next
    idx := idx + 1
  -- possible results the model allows from here (for runs that have not ended in the trace)
  return Json.mkObj [("accepted", Json.bool true), ("states", Json.num maxStates)]

end Cobald.Drive.RT

import CobaldVerif.Drive.Wire
import CobaldVerif.Model.Sections

namespace Cobald.Drive.C14
open Lean Cobald Cobald.Wire Cobald.Sections

def strs (j : Json) (k : String) : Except String (List String) := do
  (← getArr j k).toList.mapM (fun e => e.getStr?)

def parsePlugin (j : Json) : Except String Plugin := do
  return { name := ← getStr j "name", required := ← getBool j "required",
           before := ← strs j "before", after := ← strs j "after" }

def jStrs (l : List String) : Json := Json.arr (l.map Json.str).toArray

def handle (j : Json) : Except String Json := do
  let ps ← (← getArr j "plugins").toList.mapM parsePlugin
  let layers := match pluginLayers ps with
    | some ls => Json.arr (ls.map jStrs).toArray
    | none => Json.null
  -- the call order is an input: the library leaves the order inside a layer open
  let order ← strs j "order"
  let cfg ← strs j "cfg"
  let rets ← strs j "returns"
  let ordered := order.filterMap (fun n => ps.find? (fun p => p.name == n))
  let (out, log) := loadConfiguration ordered cfg (fun s => rets.contains s)
  let outJ := match out with
    | .unknownSections => Json.mkObj [("error", "unknown-sections")]
    | .missingRequired s => Json.mkObj [("error", "missing-required"), ("section", Json.str s)]
    | .loaded kept => Json.mkObj [("kept", jStrs kept)]
  return Json.mkObj [("layers", layers), ("outcome", outJ), ("log", jStrs log)]

end Cobald.Drive.C14

import CobaldVerif.Drive.C04
import CobaldVerif.Drive.C05
import CobaldVerif.Drive.C06
import CobaldVerif.Drive.C07
import CobaldVerif.Drive.C08
import CobaldVerif.Drive.C09
import CobaldVerif.Drive.C14
import CobaldVerif.Drive.C15
import CobaldVerif.Drive.C16
import CobaldVerif.Drive.C17
import CobaldVerif.Drive.C18
import CobaldVerif.Drive.C19
import CobaldVerif.Drive.RT
import CobaldVerif.Drive.EX

namespace Cobald.Drive
open Lean

def dispatch (prop : String) (j : Json) : Except String Json :=
  match prop with
  | "C04" => C04.handle j
  | "C05" => C05.handle j
  | "C06" => C06.handle j
  | "C07" => C07.handle j
  | "C08" => C08.handle j
  | "C09" => C09.handle j
  | "C14" => C14.handle j
  | "C15" => C15.handle j
  | "C16" => C16.handle j
  | "C17" => C17.handle j
  | "C18" => C18.handle j
  | "C19" => C19.handle j
  | "RT" => RT.handle j
  | "EX" => EX.handle j
  | p => throw s!"unknown property {p}"

/-- one request line `<prop> <json>` → one canonical JSON line -/
def handleLine (line : String) : String :=
  let line := line.trimAscii.toString
  match line.splitOn " " with
  | prop :: rest =>
    let body := " ".intercalate rest
    match Json.parse body with
    | .error e => (Json.mkObj [("driver_error", Json.str s!"parse: {e}")]).compress
    | .ok j =>
      match dispatch prop j with
      | .ok r => r.compress
      | .error e => (Json.mkObj [("driver_error", Json.str e)]).compress
  | [] => (Json.mkObj [("driver_error", "empty")]).compress

end Cobald.Drive

import CobaldVerif.Drive.C08
import CobaldVerif.Drive.C15
import CobaldVerif.Generated.Src
import CobaldVerif.Model.Periodic

namespace Cobald.Drive.C09
open Lean Cobald Cobald.Wire Cobald.Controllers Cobald.Periodic

def parseEv (j : Json) : Except String Ev := do
  let a ← j.getArr?
  let tag ← (a[0]?.getD Json.null).getStr?
  match tag with
  | "step" => return .step
  | "env" => return .env (← (a[1]?.getD Json.null).getNat?) (← asRat (a[2]?.getD Json.null))
  | "write" => return .write (← asRat (a[1]?.getD Json.null))
  | t => throw s!"bad event {t}"

/-- in: kind, parameters, interval, initial pool, events in observed order.
out: the demand after each event and the virtual time each step must have happened at -/
def handle (j : Json) : Except String Json := do
  let kind ← getStr j "kind"
  -- a FactoryPool under an environment: the history (demand writes, children changing their own
  -- demand, one adjustment per interval) is replayed on the model of the adjustment (C15)
  if kind == "factory_env" then return ← C15.handle j
  let interval ← getRat j "interval"
  -- whether the service sleeps before its first action is read off the source (Generated/Src.lean)
  let pre := match kind with
    | "linear" => Gen.sleepsFirstLinear | "rel" => Gen.sleepsFirstRel | "switch" => Gen.sleepsFirstSwitch
    | "stepwise" => Gen.sleepsFirstStepwise | "buffer" => Gen.sleepsFirstBuffer | _ => Gen.sleepsFirstFactory
  let evs ← (← getArr j "events").toList.mapM parseEv
  let nsteps := (evs.filter (fun e => match e with | .step => true | _ => false)).length
  let times := (List.range nsteps).map (fun k => jRat (actTime pre interval k))
  let demands ← (match kind with
    | "buffer" => do
      let b : BufSt := { stored := ← getRat j "stored", target := ← getRat j "target" }
      pure ((runBuf b evs).map (fun s => jRat s.target))
    | "times" => pure []
    | _ => do
      let pool ← C08.parsePool (← j.getObjVal? "pool")
      let stepFn ← (match kind with
        | "linear" | "rel" => do
          let ctl ← C08.parseCtl (← j.getObjVal? "ctl")
          pure (fun p => ctl.act interval p)
        | "switch" => do
          let ctls ← (← getArr j "ctls").toList.mapM C08.parseCtl
          let slaves ← C08.parsePairs (← getArr j "slaves")
          let act : CtlId → Rat → Pool → Pool := fun c i p =>
            match ctls[c]? with
            | some ctl => ctl.act i p
            | none => p
          pure (fun p => (switchStep 0 slaves act interval p).1)
        | "stepwise" => do
          let specs ← (← getArr j "rules").toList.mapM C08.parseRule
          let table ← C08.parsePairs (← getArr j "table")
          let rule : RuleId → Pool → Rat → Option Rat := fun r p i =>
            match specs[r]? with
            | some s => s.eval p i
            | none => none
          match compile 0 table with
          | some l => pure (fun p => match stepwiseStep l rule interval p with | some (p', _) => p' | none => p)
          | none => throw "rejected rule table"
        | k => throw s!"bad kind {k}")
      pure ((runCtl stepFn pool evs).map (fun p => jRat p.demand)))
  return Json.mkObj [("step_times", Json.arr times.toArray), ("demands", Json.arr demands.toArray)]

end Cobald.Drive.C09

import CobaldVerif.Drive.Wire
import CobaldVerif.Model.Standardiser

namespace Cobald.Drive.C06
open Lean Cobald Cobald.Wire Cobald.Standardiser

def parseOp (j : Json) : Except String Op := do
  let a ← j.getArr?
  let tag ← (a[0]?.getD Json.null).getStr?
  let arg := a[1]?.getD Json.null
  match tag with
  | "w" => return .write (← asRat arg)
  | "r" => return .read
  | "s" => return .setSupply (← asRat arg)
  | "d" => return .setTargetDemand (← asRat arg)
  | "u" => return .setUtil (← asRat arg)
  | "a" => return .setAlloc (← asRat arg)
  | t => throw s!"bad op {t}"

/-- one case: params, initial pool, op list → constructor verdict and per-op observations
`[target.demand, read result or null, supply, utilisation, allocation through the decorator]` -/
def handle (j : Json) : Except String Json := do
  let pj ← j.getObjVal? "p"
  let p : Params := { min := ← getERat pj "min", max := ← getERat pj "max", g := ← getRat pj "g",
                      backlog := ← getERat pj "backlog", surplus := ← getERat pj "surplus" }
  let qj ← j.getObjVal? "pool"
  let pool : Pool := { supply := ← getRat qj "supply", demand := .fin (← getRat qj "demand"),
                       util := ← getRat qj "util", alloc := ← getRat qj "alloc" }
  if ¬ p.ok then
    return Json.mkObj [("ctor", "ValueError")]
  -- a single write at an extended (possibly infinite) supply, followed by a read
  if let .ok es := getERat j "esupply" then
    let v ← getRat j "v"
    let st : St := { pool := { pool with demand := fwdE p es v }, stored := cdE p es v }
    let (_, r) := Standardiser.read p st
    return Json.mkObj [("ctor", "ok"), ("fwd", jERat (fwdE p es v)), ("read", jERat r)]
  let ops ← (← getArr j "ops").toList.mapM parseOp
  let mut st := init pool
  let mut obs : Array Json := #[]
  for o in ops do
    let (st', r) := step p st o
    st := st'
    obs := obs.push (Json.arr #[jERat st.pool.demand,
      match r with | some x => jERat x | none => Json.null,
      jRat (getSupply st), jRat (getUtil st), jRat (getAlloc st)])
  return Json.mkObj [("ctor", "ok"), ("obs", Json.arr obs)]

end Cobald.Drive.C06

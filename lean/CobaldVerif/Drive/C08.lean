import CobaldVerif.Drive.Wire
import CobaldVerif.Model.Controllers

namespace Cobald.Drive.C08
open Lean Cobald Cobald.Wire Cobald.Controllers

def parsePool (j : Json) : Except String Pool := do
  return { supply := ← getRat j "supply", demand := ← getRat j "demand",
           util := ← getRat j "util", alloc := ← getRat j "alloc" }

def setField (p : Pool) (f : String) (x : Rat) : Pool :=
  match f with
  | "supply" => { p with supply := x }
  | "demand" => { p with demand := x }
  | "utilisation" => { p with util := x }
  | "allocation" => { p with alloc := x }
  | _ => p

inductive Ctl
  | linear (c : Linear)
  | rel (c : RelSupply)

def parseCtl (j : Json) : Except String Ctl := do
  let t ← getStr j "type"
  if t = "linear" then
    return .linear { low := ← getRat j "low", high := ← getRat j "high", rate := ← getRat j "rate" }
  else
    return .rel { low := ← getRat j "low", high := ← getRat j "high",
                  lowScale := ← getRat j "low_scale", highScale := ← getRat j "high_scale" }

def Ctl.okB : Ctl → Bool
  | .linear c => decide c.ok
  | .rel c => decide c.ok

def Ctl.act (c : Ctl) (interval : Rat) (p : Pool) : Pool :=
  match c with
  | .linear l => linearStep l interval p
  | .rel r => relStep r p

/-- rule specifications used by the correspondence -/
inductive RuleSpec
  | const (c : Rat) | none | dplus (k : Rat) | smul (q : Rat) | ival (q : Rat)

def parseRule (j : Json) : Except String RuleSpec := do
  let a ← j.getArr?
  let tag ← (a[0]?.getD Json.null).getStr?
  let x := a[1]?.getD Json.null
  match tag with
  | "const" => return .const (← asRat x)
  | "none" => return .none
  | "dplus" => return .dplus (← asRat x)
  | "smul" => return .smul (← asRat x)
  | "ival" => return .ival (← asRat x)
  | t => throw s!"bad rule {t}"

def RuleSpec.eval (r : RuleSpec) (p : Pool) (interval : Rat) : Option Rat :=
  match r with
  | .const c => some c
  | .none => Option.none
  | .dplus k => some (p.demand + k)
  | .smul q => some (p.supply * q)
  | .ival q => some (interval * q)

def parsePairs (a : Array Json) : Except String (List (Rat × Nat)) :=
  a.toList.mapM (fun j => do
    let p ← j.getArr?
    return (← asRat (p[0]?.getD Json.null), ← (p[1]?.getD Json.null).getNat?))

def hasDupThreshold : List (Rat × Nat) → Bool
  | [] => false
  | (t, _) :: rest => rest.any (fun x => x.1 == t) || hasDupThreshold rest

def handle (j : Json) : Except String Json := do
  let kind ← getStr j "kind"
  let mut pool ← parsePool (← j.getObjVal? "pool")
  let ops ← getArr j "ops"
  let mut obs : Array Json := #[]
  match kind with
  | "linear" | "rel" =>
    let ctl ← parseCtl (← j.getObjVal? "ctl")
    if !ctl.okB then return Json.mkObj [("ctor", "reject")]
    for o in ops do
      let a ← o.getArr?
      let tag ← (a[0]?.getD Json.null).getStr?
      if tag = "step" then
        pool := ctl.act (← asRat (a[1]?.getD Json.null)) pool
      else
        pool := setField pool (← (a[1]?.getD Json.null).getStr?) (← asRat (a[2]?.getD Json.null))
      obs := obs.push (jRat pool.demand)
    return Json.mkObj [("ctor", "ok"), ("obs", Json.arr obs)]
  | "stepwise" =>
    let specs ← (← getArr j "rules").toList.mapM parseRule
    let table ← parsePairs (← getArr j "table")
    let interval ← getRat j "interval"
    let rule : RuleId → Pool → Rat → Option Rat := fun r p i =>
      match specs[r]? with
      | some s => s.eval p i
      | none => Option.none
    match compile 0 table with
    | none => return Json.mkObj [("ctor", "reject")]
    | some l =>
      for o in ops do
        let a ← o.getArr?
        let tag ← (a[0]?.getD Json.null).getStr?
        if tag = "step" then
          match stepwiseStep l rule interval pool with
          | some (p', r) =>
            pool := p'
            obs := obs.push (Json.arr #[jRat pool.demand, Json.num (r : Nat)])
          | none =>
            obs := obs.push (Json.str "no-rule")
            break
        else
          pool := setField pool (← (a[1]?.getD Json.null).getStr?) (← asRat (a[2]?.getD Json.null))
      return Json.mkObj [("ctor", "ok"), ("obs", Json.arr obs)]
  | "switch" =>
    let ctls ← (← getArr j "ctls").toList.mapM parseCtl
    let slaves ← parsePairs (← getArr j "slaves")
    let dflt ← getNat j "default"
    if ctls.any (fun c => !c.okB) then return Json.mkObj [("ctor", "reject-slave")]
    if hasDupThreshold slaves then return Json.mkObj [("ctor", "reject")]
    let act : CtlId → Rat → Pool → Pool := fun c i p =>
      match ctls[c]? with
      | some ctl => ctl.act i p
      | none => p
    for o in ops do
      let a ← o.getArr?
      let tag ← (a[0]?.getD Json.null).getStr?
      if tag = "step" then
        let (p', c) := switchStep dflt slaves act (← asRat (a[1]?.getD Json.null)) pool
        pool := p'
        obs := obs.push (Json.arr #[jRat pool.demand, Json.num (c : Nat)])
      else
        pool := setField pool (← (a[1]?.getD Json.null).getStr?) (← asRat (a[2]?.getD Json.null))
    return Json.mkObj [("ctor", "ok"), ("obs", Json.arr obs)]
  | k => throw s!"bad kind {k}"

end Cobald.Drive.C08

import CobaldVerif.Drive.Wire
import CobaldVerif.Model.Composite

namespace Cobald.Drive.C07
open Lean Cobald Cobald.Wire Cobald.Composite

def parseAttr (s : String) : Except String Attr :=
  match s with
  | "supply" => pure .supply
  | "utilisation" => pure .util
  | "allocation" => pure .alloc
  | t => throw s!"bad attr {t}"

def parseChild (j : Json) : Except String Child := do
  return { supply := ← getRat j "supply", util := ← getRat j "util",
           alloc := ← getRat j "alloc", demand := ← getRat j "demand" }

def parseOp (j : Json) : Except String Op := do
  let a ← j.getArr?
  let tag ← (a[0]?.getD Json.null).getStr?
  let a1 := a[1]?.getD Json.null
  let a2 := a[2]?.getD Json.null
  let a3 := a[3]?.getD Json.null
  match tag with
  | "D" => return .setDemand (← asRat a1)
  | "c" => return .setChild (← a1.getNat?) (← parseAttr (← a2.getStr?)) (← asRat a3)
  | "cd" => return .setChildDemand (← a1.getNat?) (← asRat a2)
  | "add" => return .addChild (← parseChild a1)
  | "rm" => return .removeChild (← a1.getNat?)
  | t => throw s!"bad op {t}"

/-- after each op: composite demand, supply, utilisation, allocation, children's demands -/
def handle (j : Json) : Except String Json := do
  let kind ← getStr j "kind"
  let k : Kind ← (if kind = "uniform" then pure Kind.uniform
                  else do return Kind.weighted (← parseAttr (← getStr j "weight")))
  let cs ← (← getArr j "children").toList.mapM parseChild
  let ops ← (← getArr j "ops").toList.mapM parseOp
  let mut st := init cs
  let snap := fun (st : St) => Json.arr #[jRat st.demand, jRat (supply st), jRat (fitness k .util st),
      jRat (fitness k .alloc st), Json.arr (st.children.map (fun c => jRat c.demand)).toArray]
  let mut obs : Array Json := #[snap st]
  for o in ops do
    st := step k st o
    obs := obs.push (snap st)
  return Json.mkObj [("obs", Json.arr obs)]

end Cobald.Drive.C07

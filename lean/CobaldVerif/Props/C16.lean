/-
C16 — Decorators are transparent except for what they are meant to change.
-/
import CobaldVerif.Model.Decorators
import CobaldVerif.Generated.SrcDecorators

namespace Cobald.Props.C16
open Cobald Cobald.ERat Cobald.Decorators

/-- **supply, utilisation and allocation are those of the underlying pool**, through any stack
of the shipped decorators, in any order and depth -/
theorem transparent_sua (a : Attr) : ∀ s : Stack, getAttr a s = s.basePool.attr a
  | .base _ => rfl
  | .plain s => transparent_sua a s
  | .logger _ s => transparent_sua a s
  | .std _ _ s => transparent_sua a s
  | .buffer _ s => transparent_sua a s

/-- reading demand never changes what the stack reports for the other attributes -/
theorem read_keeps_sua (a : Attr) : ∀ s : Stack, getAttr a (getDemand s).1 = getAttr a s
  | .base _ => rfl
  | .plain s => by simp [getDemand, getAttr, read_keeps_sua a s]
  | .logger _ s => by simp [getDemand, getAttr, read_keeps_sua a s]
  | .std p st s => by
      simp only [getDemand]
      split <;> simp [getAttr, read_keeps_sua a s]
  | .buffer _ s => by simp [getDemand, getAttr]

/-- nor does a demand write, at any depth -/
theorem write_keeps_sua (a : Attr) : ∀ (s : Stack) (v : ERat), getAttr a (setDemand s v).1 = getAttr a s
  | .base p, v => by cases a <;> rfl
  | .plain s, v => by simp [setDemand, getAttr, write_keeps_sua a s v]
  | .logger _ s, v => by simp [setDemand, getAttr, write_keeps_sua a s v]
  | .std p st s, v => by
      cases v <;> simp [setDemand, getAttr, write_keeps_sua a s]
  | .buffer _ s, v => by simp [setDemand, getAttr]

/-- a stack made of plain decorators and Loggers only -/
def transparent : Stack → Bool
  | .base _ => true
  | .plain s => transparent s
  | .logger _ s => transparent s
  | .std _ _ _ => false
  | .buffer _ _ => false

def numLoggers : Stack → Nat
  | .base _ => 0
  | .plain s => numLoggers s
  | .logger _ s => numLoggers s + 1
  | .std _ _ s => numLoggers s
  | .buffer _ s => numLoggers s

/-- through a plain decorator or a Logger demand reads pass through unchanged -/
theorem demand_read_passthrough : ∀ s : Stack, transparent s = true →
    getDemand s = (s, s.basePool.demand)
  | .base _, _ => rfl
  | .plain s, h => by simp [getDemand, demand_read_passthrough s h, Stack.basePool]
  | .logger _ s, h => by simp [getDemand, demand_read_passthrough s h, Stack.basePool]
  | .std _ _ _, h => by simp [transparent] at h
  | .buffer _ _, h => by simp [transparent] at h

/-- … and so do demand writes; every Logger emits exactly one record, carrying the new value
and the target's demand, supply, utilisation and allocation from before the write -/
theorem demand_write_passthrough : ∀ (s : Stack) (v : ERat), transparent s = true →
    (setDemand s v).1.basePool.demand = v ∧
    (setDemand s v).2.length = numLoggers s ∧
    ∀ r ∈ (setDemand s v).2, r.value = v ∧ r.demand = s.basePool.demand ∧
      r.supply = s.basePool.supply ∧ r.util = s.basePool.util ∧ r.alloc = s.basePool.alloc
  | .base p, v, _ => by simp [setDemand, Stack.basePool, numLoggers]
  | .plain s, v, h => by
      have ih := demand_write_passthrough s v h
      simpa [setDemand, Stack.basePool, numLoggers] using ih
  | .logger i s, v, h => by
      have ih := demand_write_passthrough s v h
      have hr := demand_read_passthrough s h
      have h1 := transparent_sua .supply s
      have h2 := transparent_sua .util s
      have h3 := transparent_sua .alloc s
      simp only [setDemand, Stack.basePool, numLoggers, List.length_cons, List.mem_cons, hr]
      refine ⟨ih.1, by rw [ih.2.1], ?_⟩
      rintro r (rfl | hr')
      · exact ⟨rfl, rfl, h1, h2, h3⟩
      · exact ih.2.2 r hr'
  | .std _ _ _, _, h => by simp [transparent] at h
  | .buffer _ _, _, h => by simp [transparent] at h

/-- in *any* stack a Logger emits exactly one record per demand write that reaches it, built
from its target's state before the write is applied, and then passes the write on -/
theorem logger_one_record (i : Nat) (s : Stack) (v : ERat) :
    (setDemand (.logger i s) v).2 =
      { logger := i, value := v, demand := (getDemand s).2, supply := getAttr .supply s,
        util := getAttr .util s, alloc := getAttr .alloc s } :: (setDemand s v).2 := rfl

/-- a demand read is idempotent on the value it reports -/
theorem read_read : ∀ s : Stack, (getDemand (getDemand s).1).2 = (getDemand s).2
  | .base _ => rfl
  | .plain s => by simp [getDemand, read_read s]
  | .logger _ s => by simp [getDemand, read_read s]
  | .buffer _ _ => by simp [getDemand]
  | .std p st s => by
      have ih := read_read s
      simp only [getDemand]
      by_cases h : Standardiser.farApart st (getDemand s).2 p.g = true
      · simp only [h, if_true, getDemand, ih]
        split <;> rfl
      · simp only [h, Bool.false_eq_true, if_false, getDemand, ih]

/-- the justification of the Logger case of the model: whatever a preceding read of the
target's demand resynchronised is overwritten by the write -/
theorem setDemand_after_read : ∀ (s : Stack) (v : ERat), setDemand (getDemand s).1 v = setDemand s v
  | .base _, _ => rfl
  | .plain s, v => by simp [getDemand, setDemand, setDemand_after_read s v]
  | .logger i s, v => by
      simp only [getDemand, setDemand, setDemand_after_read s v, read_read s]
      simp [read_keeps_sua]
  | .buffer _ _, _ => by simp [getDemand, setDemand]
  | .std p st s, v => by
      simp only [getDemand]
      split <;> cases v <;> simp [setDemand, setDemand_after_read s, read_keeps_sua]

/-! ### message templates -/

/-- a template that names an unknown field is rejected when the Logger is constructed -/
theorem template_unknown_rejected (known : List (List Char)) (t : List Char) (fs : List Field)
    (hf : fields (t.length + 1) t = some fs) (n : List Char) (c : Char)
    (hn : { name := some n, conv := c } ∈ fs) (hu : n ∉ known) : templateOK known t = false := by
  unfold templateOK
  rw [hf]
  simp only [Bool.and_eq_false_iff]
  right
  rw [List.all_eq_false]
  refine ⟨_, hn, ?_⟩
  simp [hu]

/-- a malformed template is rejected as well -/
theorem template_malformed_rejected (known : List (List Char)) (t : List Char)
    (hf : fields (t.length + 1) t = none) : templateOK known t = false := by
  simp [templateOK, hf]

/-- a well-formed template over the documented fields is accepted -/
theorem template_known_accepted (known : List (List Char)) (t : List Char) (fs : List Field)
    (hf : fields (t.length + 1) t = some fs)
    (hall : ∀ f ∈ fs, ∃ n, f.name = some n ∧ n ∈ known ∧ convOK f.name f.conv = true) :
    templateOK known t = true := by
  unfold templateOK
  rw [hf]
  simp only [Bool.and_eq_true, List.all_eq_true]
  constructor
  · intro f hf'
    obtain ⟨n, hn, _, _⟩ := hall f (List.mem_of_mem_tail hf')
    simp [hn]
  · intro f hf'
    obtain ⟨n, hn, hk, hc⟩ := hall f hf'
    rw [hn] at hc
    simp [hn, hk, hc]

/-! ### non-vacuity -/

def exPool : Pool := { supply := 10, demand := fin 4, util := 1/2, alloc := 3/4 }
def exStack : Stack := .logger 2 (.plain (.logger 1 (.base exPool)))
example : transparent exStack = true ∧ numLoggers exStack = 2 := by decide
example : (setDemand exStack (fin 7)).2.map (·.logger) = [2, 1] := by decide +kernel
def exKnown : List (List Char) := ["value".toList, "demand".toList, "target".toList]
example : templateOK exKnown "d = %(value)s [%(demand).2f] %%".toList = true := by decide +kernel
example : templateOK exKnown "d = %(valu)s".toList = false := by decide +kernel

/-! ### the decorators as written in the source (`Generated/SrcDecorators.lean`)

The translator re-reads `_proxy.py`, `logger.py` and `buffer.py` on every run: the four proxy
properties of `PoolDecorator` read the target's attribute of the same name and its demand setter
is the single write `self.target.demand = value` (the `plain` case of the model); `Logger`'s
setter is one `log(level, message, fields)` call followed by that same write, and the fields are
the written value and the target's state read at that point - before the write (the `logger` case);
`Buffer` stores written demands in a plain attribute and `run` forwards it when it differs (the
`buffer` case, with C09's model of `run`). -/

theorem gen_decorator_shapes :
    Gen.Decorators.proxyShape = true ∧ Gen.Decorators.bufferShape = true ∧
    Gen.Decorators.loggerFields =
      [("value", "value"), ("demand", "self.target.demand"), ("supply", "self.target.supply"),
       ("utilisation", "self.target.utilisation"), ("allocation", "self.target.allocation"),
       ("consumption", "self.target.allocation"), ("target", "self.target")] := ⟨rfl, rfl, rfl⟩

end Cobald.Props.C16

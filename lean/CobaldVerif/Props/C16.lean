/-
C16 — Decorators are transparent except for what they are meant to change.
-/
import CobaldVerif.Model.Decorators
import CobaldVerif.Lemmas.Standardiser
import CobaldVerif.Generated.SrcDecorators

namespace Cobald.Props.C16
open Cobald Cobald.ERat Cobald.Decorators

/-- **supply, utilisation and allocation are those of the underlying pool**, through any stack
of the shipped decorators, in any order and depth -/
theorem transparent_sua (a : Attr) : ∀ s : Stack, getAttr a s = s.basePool.attr a
  | .base _ => rfl
  | .plain s => transparent_sua a s
  | .logger _ s => transparent_sua a s
  | .std _ _ s => transparent_sua a s
  | .buffer _ s => transparent_sua a s

/-- reading demand never changes what the stack reports for the other attributes -/
theorem read_keeps_sua (a : Attr) : ∀ s : Stack, getAttr a (getDemand s).1 = getAttr a s
  | .base _ => rfl
  | .plain s => by simp [getDemand, getAttr, read_keeps_sua a s]
  | .logger _ s => by simp [getDemand, getAttr, read_keeps_sua a s]
  | .std p st s => by
      simp only [getDemand]
      split <;> simp [getAttr, read_keeps_sua a s]
  | .buffer _ s => by simp [getDemand, getAttr]

/-- nor does a demand write, at any depth -/
theorem write_keeps_sua (a : Attr) : ∀ (s : Stack) (v : ERat), getAttr a (setDemand s v).1 = getAttr a s
  | .base p, v => by cases a <;> rfl
  | .plain s, v => by simp [setDemand, getAttr, write_keeps_sua a s v]
  | .logger _ s, v => by simp [setDemand, getAttr, write_keeps_sua a s v]
  | .std p st s, v => by
      cases v <;> simp [setDemand, getAttr, write_keeps_sua a s]
  | .buffer _ s, v => by simp [setDemand, getAttr]

/-- a stack made of plain decorators and Loggers only -/
def transparent : Stack → Bool
  | .base _ => true
  | .plain s => transparent s
  | .logger _ s => transparent s
  | .std _ _ _ => false
  | .buffer _ _ => false

def numLoggers : Stack → Nat
  | .base _ => 0
  | .plain s => numLoggers s
  | .logger _ s => numLoggers s + 1
  | .std _ _ s => numLoggers s
  | .buffer _ s => numLoggers s

/-- through a plain decorator or a Logger demand reads pass through unchanged -/
theorem demand_read_passthrough : ∀ s : Stack, transparent s = true →
    getDemand s = (s, s.basePool.demand)
  | .base _, _ => rfl
  | .plain s, h => by simp [getDemand, demand_read_passthrough s h, Stack.basePool]
  | .logger _ s, h => by simp [getDemand, demand_read_passthrough s h, Stack.basePool]
  | .std _ _ _, h => by simp [transparent] at h
  | .buffer _ _, h => by simp [transparent] at h

/-- … and so do demand writes; every Logger emits exactly one record, carrying the new value
and the target's demand, supply, utilisation and allocation from before the write -/
theorem demand_write_passthrough : ∀ (s : Stack) (v : ERat), transparent s = true →
    (setDemand s v).1.basePool.demand = v ∧
    (setDemand s v).2.length = numLoggers s ∧
    ∀ r ∈ (setDemand s v).2, r.value = v ∧ r.demand = s.basePool.demand ∧
      r.supply = s.basePool.supply ∧ r.util = s.basePool.util ∧ r.alloc = s.basePool.alloc
  | .base p, v, _ => by simp [setDemand, Stack.basePool, numLoggers]
  | .plain s, v, h => by
      have ih := demand_write_passthrough s v h
      simpa [setDemand, Stack.basePool, numLoggers] using ih
  | .logger i s, v, h => by
      have ih := demand_write_passthrough s v h
      have hr := demand_read_passthrough s h
      have h1 := transparent_sua .supply s
      have h2 := transparent_sua .util s
      have h3 := transparent_sua .alloc s
      simp only [setDemand, Stack.basePool, numLoggers, List.length_cons, List.mem_cons, hr]
      refine ⟨ih.1, by rw [ih.2.1], ?_⟩
      rintro r (rfl | hr')
      · exact ⟨rfl, rfl, h1, h2, h3⟩
      · exact ih.2.2 r hr'
  | .std _ _ _, _, h => by simp [transparent] at h
  | .buffer _ _, _, h => by simp [transparent] at h

/-- in *any* stack a Logger emits exactly one record per demand write that reaches it, built
from its target's state before the write is applied, and then passes the write on -/
theorem logger_one_record (i : Nat) (s : Stack) (v : ERat) :
    (setDemand (.logger i s) v).2 =
      { logger := i, value := v, demand := (getDemand s).2, supply := getAttr .supply s,
        util := getAttr .util s, alloc := getAttr .alloc s } :: (setDemand s v).2 := rfl

/-- a demand read is idempotent on the value it reports -/
theorem read_read : ∀ s : Stack, (getDemand (getDemand s).1).2 = (getDemand s).2
  | .base _ => rfl
  | .plain s => by simp [getDemand, read_read s]
  | .logger _ s => by simp [getDemand, read_read s]
  | .buffer _ _ => by simp [getDemand]
  | .std p st s => by
      have ih := read_read s
      simp only [getDemand]
      by_cases h : Standardiser.farApart st (getDemand s).2 p.g = true
      · simp only [h, if_true, getDemand, ih]
        split <;> rfl
      · simp only [h, Bool.false_eq_true, if_false, getDemand, ih]

/-- the justification of the Logger case of the model: whatever a preceding read of the
target's demand resynchronised is overwritten by the write -/
theorem setDemand_after_read : ∀ (s : Stack) (v : ERat), setDemand (getDemand s).1 v = setDemand s v
  | .base _, _ => rfl
  | .plain s, v => by simp [getDemand, setDemand, setDemand_after_read s v]
  | .logger i s, v => by
      simp only [getDemand, setDemand, setDemand_after_read s v, read_read s]
      simp [read_keeps_sua]
  | .buffer _ _, _ => by simp [getDemand, setDemand]
  | .std p st s, v => by
      simp only [getDemand]
      split <;> cases v <;> simp [setDemand, setDemand_after_read s, read_keeps_sua]

/-! ### every stack, every history -/

/-- the Loggers a demand write reaches, top-down: those above the first `Buffer` (which stores
the write instead of forwarding it) -/
def loggersReached : Stack → List Nat
  | .base _ => []
  | .plain s => loggersReached s
  | .logger i s => i :: loggersReached s
  | .std _ _ s => loggersReached s
  | .buffer _ _ => []

/-- **one record per Logger per write, outermost Logger first, in any stack**: whatever
Standardisers, plain decorators and Buffers lie in between, a demand write makes exactly the
Loggers it reaches emit, each once, in top-down order - never two records, never a skipped one -/
theorem records_are_loggers_reached : ∀ (s : Stack) (v : ERat),
    (setDemand s v).2.map (·.logger) = loggersReached s
  | .base _, _ => rfl
  | .plain s, v => by simp [setDemand, loggersReached, records_are_loggers_reached s v]
  | .logger i s, v => by simp [setDemand, loggersReached, records_are_loggers_reached s v]
  | .std p st s, v => by
      cases v <;> simp [setDemand, loggersReached, records_are_loggers_reached s]
  | .buffer _ _, _ => by simp [setDemand, loggersReached]

/-- reads and writes leave the set of reached Loggers alone (a stack does not restructure) -/
theorem read_keeps_loggers : ∀ s : Stack, loggersReached (getDemand s).1 = loggersReached s
  | .base _ => rfl
  | .plain s => by simp [getDemand, loggersReached, read_keeps_loggers s]
  | .logger _ s => by simp [getDemand, loggersReached, read_keeps_loggers s]
  | .std p st s => by
      simp only [getDemand]
      split <;> simp [loggersReached, read_keeps_loggers s]
  | .buffer _ _ => by simp [getDemand, loggersReached]

theorem write_keeps_loggers : ∀ (s : Stack) (v : ERat),
    loggersReached (setDemand s v).1 = loggersReached s
  | .base _, _ => rfl
  | .plain s, v => by simp [setDemand, loggersReached, write_keeps_loggers s v]
  | .logger _ s, v => by simp [setDemand, loggersReached, write_keeps_loggers s v]
  | .std p st s, v => by
      cases v <;> simp [setDemand, loggersReached, write_keeps_loggers s]
  | .buffer _ _, _ => by simp [setDemand, loggersReached]

theorem setBase_keeps_loggers (f : Pool → Pool) : ∀ s : Stack,
    loggersReached (setBase f s) = loggersReached s
  | .base _ => rfl
  | .plain s => by simp [setBase, loggersReached, setBase_keeps_loggers f s]
  | .logger _ s => by simp [setBase, loggersReached, setBase_keeps_loggers f s]
  | .std _ _ s => by simp [setBase, loggersReached, setBase_keeps_loggers f s]
  | .buffer _ _ => by simp [setBase, loggersReached]

theorem setBase_sua (a : Attr) (f : Pool → Pool) : ∀ s : Stack,
    getAttr a (setBase f s) = (f s.basePool).attr a
  | .base _ => rfl
  | .plain s => by simp [setBase, getAttr, Stack.basePool, setBase_sua a f s]
  | .logger _ s => by simp [setBase, getAttr, Stack.basePool, setBase_sua a f s]
  | .std _ _ s => by simp [setBase, getAttr, Stack.basePool, setBase_sua a f s]
  | .buffer _ s => by simp [setBase, getAttr, Stack.basePool, setBase_sua a f s]

/-- an operation of a history: a demand read, a demand write, a change of the underlying
pool's supply / utilisation / allocation -/
inductive Op
  | read
  | write (v : ERat)
  | world (supply util alloc : Rat)

def world (su ut al : Rat) (p : Pool) : Pool := { p with supply := su, util := ut, alloc := al }

def applyOp (s : Stack) : Op → Stack
  | .read => (getDemand s).1
  | .write v => (setDemand s v).1
  | .world su ut al => setBase (world su ut al) s

/-- what the pool itself last reported, over a history -/
def lastWorld (a : Attr) (init : Rat) : List Op → Rat
  | [] => init
  | .world su ut al :: r => lastWorld a (match a with | .supply => su | .util => ut | .alloc => al) r
  | _ :: r => lastWorld a init r

/-- **transparency over whole histories**: after any sequence of demand reads, demand writes and
changes of the underlying pool, a stack of any depth and order reports exactly the supply /
utilisation / allocation the underlying pool reported last - no decorator caches, delays or
rewrites them -/
theorem history_sua (a : Attr) : ∀ (ops : List Op) (s : Stack),
    getAttr a (ops.foldl applyOp s) = lastWorld a (getAttr a s) ops
  | [], _ => rfl
  | .read :: r, s => by
      simp only [List.foldl_cons, applyOp, lastWorld]
      rw [history_sua a r, read_keeps_sua]
  | .write v :: r, s => by
      simp only [List.foldl_cons, applyOp, lastWorld]
      rw [history_sua a r, write_keeps_sua]
  | .world su ut al :: r, s => by
      simp only [List.foldl_cons, applyOp, lastWorld]
      rw [history_sua a r, setBase_sua]
      cases a <;> rfl

/-- … and at every point of such a history a further demand write makes exactly the Loggers of
the original stack above its first Buffer emit, each once, outermost first -/
theorem history_records (ops : List Op) (s : Stack) (v : ERat) :
    (setDemand (ops.foldl applyOp s) v).2.map (·.logger) = loggersReached s := by
  rw [records_are_loggers_reached]
  induction ops generalizing s with
  | nil => rfl
  | cons o r ih =>
    simp only [List.foldl_cons]
    rw [ih]
    cases o with
    | read => exact read_keeps_loggers s
    | write v => exact write_keeps_loggers s v
    | world su ut al => exact setBase_keeps_loggers _ s

/-- **a Standardiser inside a stack keeps its promise at the pool itself** (C06 carried through
the stack model): with plain decorators and Loggers - any number, any order - between a
Standardiser and the pool, every finite demand written to the Standardiser arrives at the pool
as exactly the forwarded value, which lies within `[minimum, maximum]`; and whatever is stacked
*above* the Standardiser cannot change that, because it can only choose the written value -/
theorem stack_std_in_limits (p : Standardiser.Params) (hp : p.ok) (st : ERat) (s : Stack)
    (h : transparent s = true) (x : Rat) :
    (setDemand (.std p st s) (fin x)).1.basePool.demand = Standardiser.fwd p s.basePool.supply x ∧
    p.min ≤ (setDemand (.std p st s) (fin x)).1.basePool.demand ∧
    (setDemand (.std p st s) (fin x)).1.basePool.demand ≤ p.max := by
  have hw := (demand_write_passthrough s (Standardiser.fwd p (getAttr .supply s) x) h).1
  have hs : getAttr .supply s = s.basePool.supply := transparent_sua .supply s
  simp only [setDemand, Stack.basePool]
  rw [hw, hs]
  refine ⟨rfl, ?_⟩
  simp only [Standardiser.fwd, Standardiser.cd]
  split <;> exact ⟨Standardiser.clamp_ge _ hp.1, Standardiser.clamp_le _ hp.1⟩

/-! ### message templates -/

/-- a template that names an unknown field is rejected when the Logger is constructed -/
theorem template_unknown_rejected (known : List (List Char)) (t : List Char) (fs : List Field)
    (hf : fields (t.length + 1) t = some fs) (n : List Char) (c : Char)
    (hn : { name := some n, conv := c } ∈ fs) (hu : n ∉ known) : templateOK known t = false := by
  unfold templateOK
  rw [hf]
  simp only [Bool.and_eq_false_iff]
  right
  rw [List.all_eq_false]
  refine ⟨_, hn, ?_⟩
  simp [hu]

/-- a malformed template is rejected as well -/
theorem template_malformed_rejected (known : List (List Char)) (t : List Char)
    (hf : fields (t.length + 1) t = none) : templateOK known t = false := by
  simp [templateOK, hf]

/-- a well-formed template over the documented fields is accepted -/
theorem template_known_accepted (known : List (List Char)) (t : List Char) (fs : List Field)
    (hf : fields (t.length + 1) t = some fs)
    (hall : ∀ f ∈ fs, ∃ n, f.name = some n ∧ n ∈ known ∧ convOK f.name f.conv = true) :
    templateOK known t = true := by
  unfold templateOK
  rw [hf]
  simp only [Bool.and_eq_true, List.all_eq_true]
  constructor
  · intro f hf'
    obtain ⟨n, hn, _, _⟩ := hall f (List.mem_of_mem_tail hf')
    simp [hn]
  · intro f hf'
    obtain ⟨n, hn, hk, hc⟩ := hall f hf'
    rw [hn] at hc
    simp [hn, hk, hc]

/-! ### non-vacuity -/

def exPool : Pool := { supply := 10, demand := fin 4, util := 1/2, alloc := 3/4 }
def exStack : Stack := .logger 2 (.plain (.logger 1 (.base exPool)))
example : transparent exStack = true ∧ numLoggers exStack = 2 := by decide
example : (setDemand exStack (fin 7)).2.map (·.logger) = [2, 1] := by decide +kernel
def exKnown : List (List Char) := ["value".toList, "demand".toList, "target".toList]
def exDeep : Stack := .logger 3 (.std { min := .ninf, max := .pinf, g := 1, backlog := .pinf, surplus := .pinf } (fin 0) (.logger 2 (.buffer (fin 1) (.logger 1 (.base exPool)))))
example : loggersReached exDeep = [3, 2] := by decide +kernel
def exParams : Standardiser.Params := { min := fin 2, max := fin 9, g := 1, backlog := .pinf, surplus := .pinf }
example : exParams.ok ∧ transparent exStack = true ∧
    (setDemand (.std exParams (fin 0) exStack) (fin 50)).1.basePool.demand = fin 9 := by decide +kernel
example : getAttr .supply ([Op.write (fin 9), .world 20 1 1, .read].foldl applyOp exDeep) = 20 := by decide +kernel
example : templateOK exKnown "d = %(value)s [%(demand).2f] %%".toList = true := by decide +kernel
example : templateOK exKnown "d = %(valu)s".toList = false := by decide +kernel

/-! ### the decorators as written in the source (`Generated/SrcDecorators.lean`)

The translator re-reads `_proxy.py`, `logger.py` and `buffer.py` on every run: the four proxy
properties of `PoolDecorator` read the target's attribute of the same name and its demand setter
is the single write `self.target.demand = value` (the `plain` case of the model); `Logger`'s
setter is one `log(level, message, fields)` call followed by that same write, and the fields are
the written value and the target's state read at that point - before the write (the `logger` case);
`Buffer` stores written demands in a plain attribute and `run` forwards it when it differs (the
`buffer` case, with C09's model of `run`). -/

theorem gen_decorator_shapes :
    Gen.Decorators.proxyShape = true ∧ Gen.Decorators.bufferShape = true ∧
    Gen.Decorators.loggerFields =
      [("value", "value"), ("demand", "self.target.demand"), ("supply", "self.target.supply"),
       ("utilisation", "self.target.utilisation"), ("allocation", "self.target.allocation"),
       ("consumption", "self.target.allocation"), ("target", "self.target")] := ⟨rfl, rfl, rfl⟩

end Cobald.Props.C16

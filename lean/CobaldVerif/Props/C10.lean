/-
C10 — execute hands the payload's outcome to the caller and leaves the runtime alone.
-/
import CobaldVerif.Lemmas.RuntimeInv

namespace Cobald.Props.C10
open Cobald Cobald.Runtime

/-- **frame rule**: an execute call — its start and its end, whatever the outcome — leaves the
failure latches, the runner tasks, what `gather` has seen, the phase, the stop request and
every background payload untouched: no failure is recorded, nobody is cancelled -/
theorem exec_frame (s s' : St) (e : Nat) (f : Flav) (t : Nat) (o : Out)
    (h : step s (.execBegin e f t) = some s' ∨ step s (.execEnd e o) = some s') :
    s'.latch = s.latch ∧ s'.rtask = s.rtask ∧ s'.gather = s.gather ∧ s'.phase = s.phase ∧
    s'.stopReq = s.stopReq ∧ s'.pay = s.pay ∧ s'.starts = s.starts ∧ s'.failedQuiet = s.failedQuiet := by
  rcases h with h | h
  · simp only [step] at h
    split at h
    · simp only [Option.some.injEq] at h
      subst h
      split <;> simp
    · simp at h
  · simp only [step] at h
    split at h
    · simp only [Option.some.injEq] at h
      subst h
      simp
    · simp at h

/-- the payload runs exactly once per call: an execute that is in flight cannot be begun again,
and it ends exactly once -/
theorem exec_once (s s' : St) (e : Nat) (f : Flav) (t : Nat) (h : step s (.execBegin e f t) = some s') :
    s.execs e = none ∧ s'.execs e = some (f, t) ∧ (∀ f' t', step s' (.execBegin e f' t') = none) := by
  simp only [step] at h
  split at h
  · rename_i hg
    simp only [Option.some.injEq] at h
    subst h
    refine ⟨hg.2.1, ?_, ?_⟩
    · split <;> simp [upd]
    · intro f' t'
      split <;> simp [step, upd]
  · simp at h

/-- **in that flavour's runner**: asyncio payloads are executed on the event loop thread, trio
payloads on the trio thread (a threading payload is run by the calling thread) -/
theorem exec_thread (s s' : St) (e : Nat) (f : Flav) (t : Nat) (h : step s (.execBegin e f t) = some s') :
    (f = .aio → s'.loopTid = some t ∧ (s.loopTid = none ∨ s.loopTid = some t)) ∧
    (f = .trio → s'.trioTid = some t ∧ (s.trioTid = none ∨ s.trioTid = some t)) := by
  simp only [step] at h
  split at h
  · rename_i hg
    simp only [Option.some.injEq] at h
    subst h
    constructor
    · rintro rfl
      have := hg.2.2
      simp only [St.tidOK, reduceCtorEq, false_or, Bool.and_eq_true, Bool.or_eq_true, beq_iff_eq] at this
      simp [St.setFlavTid, this.1.1]
    · rintro rfl
      have := hg.2.2
      simp only [St.tidOK, reduceCtorEq, false_or, Bool.and_eq_true, Bool.or_eq_true, beq_iff_eq] at this
      simp [St.setFlavTid, this.1.1]
  · simp at h

/-- the runtime keeps running: an execute can neither end the run nor make it end — `endRun`
is enabled after the call iff it was before -/
theorem exec_keeps_running (s s' : St) (e : Nat) (o : Out) (r : Res) (h : step s (.execEnd e o) = some s') :
    (step s' (.endRun r)).isSome = (step s (.endRun r)).isSome := by
  simp only [step] at h
  split at h
  · simp only [Option.some.injEq] at h
    subst h
    have key : ∀ (c d : Prop) [Decidable c] [Decidable d] (a b : St),
        (if c then (if d then some a else none) else none).isSome =
        (if c then (if d then some b else none) else none).isSome := by
      intro c d _ _ a b
      by_cases hc : c <;> by_cases hd : d <;> simp [hc, hd]
    simp only [step]
    exact key _ _ _ _
  · simp at h

/-! ### non-vacuity -/

def trace : List Ev :=
  [.acceptBegin 0, .launch, .flush, .adopt 1 .aio, .start 1 0, .execBegin 7 .trio 1, .execEnd 7 .exc,
   .execBegin 8 .aio 0, .execEnd 8 .value]
example : ((run St.init trace).map (fun s => (s.phase, s.gather, s.pay 1, s.failedQuiet))) =
    some (.up, .pending, .running, []) := by decide +kernel

end Cobald.Props.C10

/-
C10 — execute hands the payload's outcome to the caller and leaves the runtime alone.
-/
import CobaldVerif.Generated.Src
import CobaldVerif.Lemmas.RuntimeInv
import CobaldVerif.Lemmas.Exec

namespace Cobald.Props.C10
open Cobald Cobald.Runtime

/-- **frame rule**: an execute call — its start and its end, whatever the outcome — leaves the
failure latches, the runner tasks, what `gather` has seen, the phase, the stop request and
every background payload untouched: no failure is recorded, nobody is cancelled -/
theorem exec_frame (s s' : St) (e : Nat) (f : Flav) (t : Nat) (o : Out)
    (h : step s (.execBegin e f t) = some s' ∨ step s (.execEnd e o) = some s') :
    s'.latch = s.latch ∧ s'.rtask = s.rtask ∧ s'.gather = s.gather ∧ s'.phase = s.phase ∧
    s'.stopReq = s.stopReq ∧ s'.pay = s.pay ∧ s'.starts = s.starts ∧ s'.failedQuiet = s.failedQuiet := by
  rcases h with h | h
  · simp only [step] at h
    split at h
    · simp only [Option.some.injEq] at h
      subst h
      split <;> simp
    · simp at h
  · simp only [step] at h
    split at h
    · simp only [Option.some.injEq] at h
      subst h
      simp
    · simp at h

/-- the payload runs exactly once per call: an execute that is in flight cannot be begun again,
and it ends exactly once -/
theorem exec_once (s s' : St) (e : Nat) (f : Flav) (t : Nat) (h : step s (.execBegin e f t) = some s') :
    s.execs e = none ∧ s'.execs e = some (f, t) ∧ (∀ f' t', step s' (.execBegin e f' t') = none) := by
  simp only [step] at h
  split at h
  · rename_i hg
    simp only [Option.some.injEq] at h
    subst h
    refine ⟨hg.2.1, ?_, ?_⟩
    · split <;> simp [upd]
    · intro f' t'
      split <;> simp [step, upd]
  · simp at h

/-- **in that flavour's runner**: asyncio payloads are executed on the event loop thread, trio
payloads on the trio thread (a threading payload is run by the calling thread) -/
theorem exec_thread (s s' : St) (e : Nat) (f : Flav) (t : Nat) (h : step s (.execBegin e f t) = some s') :
    (f = .aio → s'.loopTid = some t ∧ (s.loopTid = none ∨ s.loopTid = some t)) ∧
    (f = .trio → s'.trioTid = some t ∧ (s.trioTid = none ∨ s.trioTid = some t)) := by
  simp only [step] at h
  split at h
  · rename_i hg
    simp only [Option.some.injEq] at h
    subst h
    constructor
    · rintro rfl
      have := hg.2.2
      simp only [St.tidOK, reduceCtorEq, false_or, Bool.and_eq_true, Bool.or_eq_true, beq_iff_eq] at this
      simp [St.setFlavTid, this.1.1]
    · rintro rfl
      have := hg.2.2
      simp only [St.tidOK, reduceCtorEq, false_or, Bool.and_eq_true, Bool.or_eq_true, beq_iff_eq] at this
      simp [St.setFlavTid, this.1.1]
  · simp at h

/-- the runtime keeps running: an execute can neither end the run nor make it end — `endRun`
is enabled after the call iff it was before -/
theorem exec_keeps_running (s s' : St) (e : Nat) (o : Out) (r : Res) (h : step s (.execEnd e o) = some s') :
    (step s' (.endRun r)).isSome = (step s (.endRun r)).isSome := by
  simp only [step] at h
  split at h
  · simp only [Option.some.injEq] at h
    subst h
    have key : ∀ (c d : Prop) [Decidable c] [Decidable d] (a b : St),
        (if c then (if d then some a else none) else none).isSome =
        (if c then (if d then some b else none) else none).isSome := by
      intro c d _ _ a b
      by_cases hc : c <;> by_cases hd : d <;> simp [hc, hd]
    simp only [step]
    exact key _ _ _ _
  · simp at h

/-! ### non-vacuity -/

def trace : List Ev :=
  [.acceptBegin 0, .launch, .flush, .adopt 1 .aio, .start 1 0, .execBegin 7 .trio 1, .execEnd 7 .exc,
   .execBegin 8 .aio 0, .execEnd 8 .value]
example : ((run St.init trace).map (fun s => (s.phase, s.gather, s.pay 1, s.failedQuiet))) =
    some (.up, .pending, .running, []) := by decide +kernel

/-! ### who waits for whom: the blocking model of `execute` (Model/Runtime/Exec.lean)

The full-strength clause "every execute call returns" is false of the code and of the model: an
asyncio payload executing a trio payload while a trio payload executes an asyncio payload block
each other's threads (recorded finding `execute-opposite-deadlock`).  The model shows that this is
the only way an execute call can hang. -/

/-- the deadlock exists: the two opposite calls are reachable, neither payload can start … -/
theorem exec_opposite_deadlock :
    ∃ s, Exec.run Exec.St.init [.call 1 0 1, .call 2 1 0] = some s ∧ s.opposite = true ∧
      Exec.step s (.begin 1) = none ∧ Exec.step s (.begin 2) = none ∧
      Exec.step s (.finish 1) = none ∧ Exec.step s (.finish 2) = none := by
  refine ⟨_, rfl, ?_, ?_, ?_, ?_, ?_⟩ <;> decide

/-- … and it is permanent: whatever happens afterwards (further calls included), the two threads
keep waiting for each other -/
theorem exec_opposite_forever (es : List Exec.Ev) (s s' : Exec.St) (hnd : s.idsNodup) (ho : s.opposite = true)
    (hr : Exec.run s es = some s') : s'.opposite = true :=
  Exec.opposite_forever es s s' hnd ho hr

/-- one step of it (`exec_returns_partial`, kept from the second session): as long as the two coroutine
threads do not wait for each other, some call in flight can always make progress - its payload
can start on its target thread, or it has started and its outcome can be handed to the caller.
Calls go to the event-loop thread, the trio thread, or run in the caller's own thread
(`wellTargeted`). -/
theorem exec_returns_partial (s : Exec.St) (hnd : s.idsNodup) (hw : s.wellTargeted = true) (hne : s.calls ≠ [])
    (hop : s.opposite = false) :
    ∃ id s', Exec.step s (.begin id) = some s' ∨ Exec.step s (.finish id) = some s' :=
  Exec.canProgress_enabled s hnd (Exec.progress_unless_opposite s hw hne hop)

/-- **every execute call returns - unless the two coroutine threads wait for each other**: from any
state without that deadlock all calls in flight can be completed, by payload starts and returns
alone (no further calls needed); with `exec_opposite_forever` this makes the opposite-direction
deadlock the exact condition under which `execute` hangs in the model. What the model leaves out
is the payloads' own behaviour (a payload that never ends never returns) and fairness. -/
theorem exec_returns (s : Exec.St) (hnd : s.idsNodup) (hw : s.wellTargeted = true) (hop : s.opposite = false) :
    ∃ es s', Exec.run s es = some s' ∧ s'.calls = [] ∧ (∀ e ∈ es, ∃ id, e = .begin id ∨ e = .finish id) :=
  Exec.drain s.mu s (Nat.le_refl _) hnd hw hop

-- non-vacuity: three calls in flight (outside -> asyncio, trio -> asyncio, a threading payload run by its caller)
example : ((Exec.run Exec.St.init [.call 1 5 0, .call 2 1 0, .call 3 6 6, .begin 3, .begin 1, .finish 1, .begin 2]).map
    (fun s => (s.calls.map (·.id), s.opposite, s.wellTargeted, s.canProgress))) = some ([2, 3], false, true, true) := by decide

/-! ### the runtime glue as written in the source

The model of this property was transcribed from these functions of `cobald/daemon/runners/`
(the path of an `execute` call: `ServiceRunner.execute` -> `MetaRunner.run_payload` -> the runner of the flavour; asyncio hands the coroutine to the loop thread and waits for the future (the outcome travels as a value, `_capture_payload`), trio uses `trio.from_thread.run`, threading calls the payload in the calling thread - the `caller` / `target` threads of `Model/Runtime/Exec.lean` and the `execBegin` / `execEnd` events of the LTS).
`Gen.runtimePins` is recomputed on every run: the normalised text of every function of the runner
modules (docstrings, annotations and logging statements dropped) is compared with the text the
model was last transcribed from (`harness/vh/pins.json`). A changed function breaks this theorem;
the scenario families are then the search for a failing history. -/

theorem gen_runtime_text :
    ∀ n ∈ ["service:ServiceRunner.execute",
     "meta_runner:MetaRunner.run_payload",
     "asyncio_runner:AsyncioRunner.run_payload",
     "asyncio_runner:AsyncioRunner._capture_payload",
     "trio_runner:TrioRunner.run_payload",
     "thread_runner:ThreadRunner.run_payload"],
      Gen.pinned n = true := by decide

end Cobald.Props.C10

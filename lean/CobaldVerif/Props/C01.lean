/-
C01 — Background failures always stop the daemon (fail-stop, never silent).
Theorems over every state reachable in the runtime LTS (any number of payloads, any
interleaving of the events its guards admit).  The semantics of asyncio / trio / threading is
in the guards of the LTS (assumed); the bookkeeping is what is proved.
-/
import CobaldVerif.Lemmas.RuntimeProgress
import CobaldVerif.Generated.Src

namespace Cobald.Props.C01
open Cobald Cobald.Runtime

/-- the payload monitors of the asyncio and thread runners as they stand in the source (checked on the
syntax tree on every run, `Generated/Src.lean`): whatever the payload raises - `BaseException`, not just
`Exception` - is a failure, a returned `None` is the only silent outcome, anything else returned becomes
an `OrphanedReturn` carrying the payload and the value.  That is `Out.failing` of the LTS:
every outcome but `none` fails. -/
theorem gen_monitor_shape : Gen.monitorShapeAsyncio = true ∧ Gen.monitorShapeThread = true ∧
    (∀ o : Out, o.failing = true ↔ o ≠ .none) := by
  refine ⟨by decide, by decide, fun o => ?_⟩
  cases o <;> simp [Out.failing]

/-- `MetaRunner.run` as written in the source (its one try statement, re-read on every run): a
KeyboardInterrupt ends the run by a normal return, any other `Exception` leaves as
`RuntimeError … from` it, every other `BaseException` leaves as it is, the `finally` only logs -
the three results `Res.returned`, `Res.raisedRT`, `Res.raisedBase` of the LTS's `endRun` -/
theorem gen_run_outcome :
    Gen.runOutcome = [("KeyboardInterrupt", "return"), ("Exception", "raise RuntimeError from it")] := rfl

/-- the first failure wins and is never forgotten: a failed latch names a payload whose body
really ended with a failing outcome -/
theorem latch_first_wins (s : St) (hr : Reach s) (f : Flav) (p : Nat) (h : s.latch f = .failed p) :
    ∃ o, s.pay p = .done o ∧ o.failing = true :=
  (inv_reach s hr).a.latch_done f p h

/-- **a failure never lets the run return normally**: if some payload's failure (an exception
or a non-None value — falsy values included, `Out.value` has no truthiness) was recorded while
nothing had asked the run to stop, then the run has not returned normally and cannot have —
unless a KeyboardInterrupt intervened ("only a KeyboardInterrupt ends the run without an
error"). Queued, adopted, inside-adopted and service payloads alike: the recording does not
look at where a payload came from. -/
theorem failure_never_returns (s : St) (hr : Reach s) (hf : s.failedQuiet ≠ [])
    (hi : s.gather ≠ .interrupted) (hk : ∀ q, s.pay q ≠ .done .kbd) :
    s.phase ≠ .ended .returned := by
  have inv := (inv_reach s hr).a
  intro he
  rcases inv.ended_returned he with hc | hc | ⟨p, _, hp⟩
  · have hok := inv.gather_completed hc
    rcases inv.failed_latch hf with h | h | h
    · have := inv.rtask_ok .aio (hok .aio); rw [this] at h; simp [Latch.isFailed] at h
    · have := inv.rtask_ok .trio (hok .trio); rw [this] at h; simp [Latch.isFailed] at h
    · have := inv.rtask_ok .thr (hok .thr); rw [this] at h; simp [Latch.isFailed] at h
  · exact hi hc
  · exact hk p hp

/-- **the cause is sound**: a run that ended with RuntimeError did so because of a payload that
raised an Exception or returned a non-None value; one that ended with a raw BaseException
because of a payload that raised one; with several failures the cause is one of them, never a
bystander -/
theorem cause_sound (s : St) (hr : Reach s) (p : Nat) :
    (s.phase = .ended (.raisedRT p) → ∃ o, s.pay p = .done o ∧ (o = .exc ∨ o = .value)) ∧
    (s.phase = .ended (.raisedBase p) →
      s.pay p = .done .baseExc ∨ s.pay p = .done .sysExit ∨ s.pay p = .done .kbd) :=
  ⟨fun h => ((inv_reach s hr).a.ended_rt p h).2, fun h => ((inv_reach s hr).a.ended_base p h).2⟩

/-- **a normal return needs a reason**: an interrupt, a KeyboardInterrupt of a payload, or an
explicit stop after which every runner task ended without error -/
theorem graceful_only (s : St) (hr : Reach s) (he : s.phase = .ended .returned) :
    s.gather = .interrupted ∨ (∃ p, s.gather = .raised p ∧ s.pay p = .done .kbd) ∨
    (s.gather = .completed ∧ ∀ f, s.rtask f = .ok ∧ s.latch f = .closed) := by
  have inv := (inv_reach s hr).a
  rcases inv.ended_returned he with hc | hc | hc
  · exact Or.inr (Or.inr ⟨hc, fun f => ⟨inv.gather_completed hc f, inv.rtask_ok f (inv.gather_completed hc f)⟩⟩)
  · exact Or.inl hc
  · exact Or.inr (Or.inl hc)

/-- a latch is only closed once the runtime has been asked to stop: while it is quiet every
failure is recorded -/
theorem quiet_records (s : St) (hr : Reach s) (hq : s.quiet) (f : Flav) : s.latch f ≠ .closed :=
  (inv_reach s hr).a.quiet_open hq f

/-- **it never keeps running**: once a failure has been delivered to the runtime (`gather` raised
it) and the coroutine payloads have unwound, the closing steps are enabled one after the other,
each strictly decreases a measure of at most 8, and the run call ends - by raising, never by a
normal return (unless the failure was a KeyboardInterrupt). Thread payloads appear in none of
the conditions: blocked threads do not keep the run alive. -/
theorem failure_ends_run (s : St) (hr : Reach s) (hup : s.phase = .up) (p : Nat) (hg : s.gather = .raised p)
    (hk : s.pay p ≠ .done .kbd) (hq : s.coQuiet) :
    ∃ es s' r, (es.all Ev.closingEv = true) ∧ run s es = some s' ∧ s'.phase = .ended r ∧ r ≠ .returned ∧ es.length ≤ 8 :=
  Runtime.failure_ends_run s hr hup p hg hk hq

/-- **no stall while closing**: in every reachable state that is up, has been asked to stop and
whose coroutine payloads have unwound, some closing step (or the end of the run) is enabled and
makes progress -/
theorem no_stall (s : St) (hr : Reach s) (hup : s.phase = .up) (hc : s.closing) (hq : s.coQuiet) :
    ∃ e s', e.closingEv = true ∧ step s e = some s' ∧ s'.mu < s.mu := by
  obtain ⟨e, s', h1, h2, h3, _⟩ := closing_progress s (inv_reach s hr) hup hc hq
  exact ⟨e, s', h1, h2, h3⟩

/-- a recorded failure always reaches `gather` (the failed runner's task can end and deliver it) -/
theorem failure_delivered (s : St) (f : Flav) (p : Nat) (hup : s.phase = .up)
    (hl : s.latch f = .failed p) (hrt : s.rtask f = .running) (hg : s.gather = .pending) :
    ∃ s1 s2, step s (.rtaskEnd f) = some s1 ∧ step s1 (.gatherRaise f) = some s2 ∧ s2.gather = .raised p ∧ s2.phase = .up := by
  refine ⟨{ s with rtask := step.upd' s.rtask f (.err p) }, { s with rtask := step.upd' s.rtask f (.err p), gather := .raised p }, ?_, ?_, rfl, hup⟩
  · simp [step, hup, hrt, hl]
  · simp [step, step.upd', hup, hg]

/-! ### non-vacuity: a thread payload returns a falsy value next to an asyncio bystander -/

def trace : List Ev :=
  [.adopt 1 .aio, .acceptBegin 0, .launch, .flush, .start 1 0, .adopt 2 .thr, .start 2 5,
   .bodyEnd 2 .value, .record 2, .rtaskEnd .thr, .gatherRaise .thr, .close .aio, .close .trio,
   .unwound 1, .rtaskEnd .aio, .rtaskEnd .trio, .endRun (.raisedRT 2)]

def viewPhase (o : Option St) : Option (Phase × List Nat) := o.map (fun s => (s.phase, s.failedQuiet))
example : viewPhase (run St.init trace) = some (.ended (.raisedRT 2), [2]) := by decide +kernel
example : (run St.init (trace.dropLast ++ [.endRun .returned])).isNone = true := by decide +kernel

-- the hypotheses of `failure_ends_run` are met after the failure was delivered and the bystander unwound
example : ((run St.init (trace.take 14)).map (fun s => (s.phase, s.gather, s.pay 2, decide s.coQuiet))) =
    some (.up, .raised 2, .done .value, true) := by decide +kernel

/-! ### the runtime glue as written in the source

The model of this property was transcribed from these functions (how a failure travels: the payload monitors of the three runners, the failure future of the thread runner, the runner tasks, `gather` in `_manage_runners`, the closing of the runners and `MetaRunner.run` - the events `bodyEnd`, `record`, `rtaskEnd`, `gatherRaise`, `endRun` of the LTS).
`Gen.runtimePins` is recomputed on every run: the normalised text of every function of the runner
modules (docstrings, annotations and logging statements dropped) is compared with the text the
model was last transcribed from (`harness/vh/pins.json`). A changed function breaks this theorem;
the scenario families are then the search for a failing history. -/

theorem gen_runtime_text :
    ∀ n ∈ ["meta_runner:MetaRunner.run",
     "meta_runner:MetaRunner._manage_runners",
     "meta_runner:MetaRunner._aclose_runners",
     "meta_runner:MetaRunner._launch_runners",
     "meta_runner:MetaRunner._unqueue_payloads",
     "meta_runner:MetaRunner.register_payload",
     "base_runner:BaseRunner.run",
     "base_runner:OrphanedReturn.__init__",
     "asyncio_runner:AsyncioRunner._monitor_payload",
     "asyncio_runner:AsyncioRunner.manage_payloads",
     "asyncio_runner:AsyncioRunner._setup_payload",
     "trio_runner:TrioRunner._monitor_payload",
     "trio_runner:TrioRunner._manage_payloads_trio",
     "trio_runner:TrioRunner._run_trio_blocking",
     "trio_runner:TrioRunner.manage_payloads",
     "thread_runner:ThreadRunner._monitor_payload",
     "thread_runner:ThreadRunner._set_failure",
     "thread_runner:ThreadRunner.manage_payloads",
     "thread_runner:ThreadRunner.register_payload"],
      Gen.pinned n = true := by decide

end Cobald.Props.C01

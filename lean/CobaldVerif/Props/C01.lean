/-
C01 — Background failures always stop the daemon (fail-stop, never silent).
Theorems over every state reachable in the runtime LTS (any number of payloads, any
interleaving of the events its guards admit).  The semantics of asyncio / trio / threading is
in the guards of the LTS (assumed); the bookkeeping is what is proved.
-/
import CobaldVerif.Lemmas.RuntimeInv

namespace Cobald.Props.C01
open Cobald Cobald.Runtime

/-- the first failure wins and is never forgotten: a failed latch names a payload whose body
really ended with a failing outcome -/
theorem latch_first_wins (s : St) (hr : Reach s) (f : Flav) (p : Nat) (h : s.latch f = .failed p) :
    ∃ o, s.pay p = .done o ∧ o.failing = true :=
  (inv_reach s hr).a.latch_done f p h

/-- **a failure never lets the run return normally**: if some payload's failure (an exception
or a non-None value — falsy values included, `Out.value` has no truthiness) was recorded while
nothing had asked the run to stop, then the run has not returned normally and cannot have —
unless a KeyboardInterrupt intervened ("only a KeyboardInterrupt ends the run without an
error"). Queued, adopted, inside-adopted and service payloads alike: the recording does not
look at where a payload came from. -/
theorem failure_never_returns (s : St) (hr : Reach s) (hf : s.failedQuiet ≠ [])
    (hi : s.gather ≠ .interrupted) (hk : ∀ q, s.pay q ≠ .done .kbd) :
    s.phase ≠ .ended .returned := by
  have inv := (inv_reach s hr).a
  intro he
  rcases inv.ended_returned he with hc | hc | ⟨p, _, hp⟩
  · have hok := inv.gather_completed hc
    rcases inv.failed_latch hf with h | h | h
    · have := inv.rtask_ok .aio (hok .aio); rw [this] at h; simp [Latch.isFailed] at h
    · have := inv.rtask_ok .trio (hok .trio); rw [this] at h; simp [Latch.isFailed] at h
    · have := inv.rtask_ok .thr (hok .thr); rw [this] at h; simp [Latch.isFailed] at h
  · exact hi hc
  · exact hk p hp

/-- **the cause is sound**: a run that ended with RuntimeError did so because of a payload that
raised an Exception or returned a non-None value; one that ended with a raw BaseException
because of a payload that raised one; with several failures the cause is one of them, never a
bystander -/
theorem cause_sound (s : St) (hr : Reach s) (p : Nat) :
    (s.phase = .ended (.raisedRT p) → ∃ o, s.pay p = .done o ∧ (o = .exc ∨ o = .value)) ∧
    (s.phase = .ended (.raisedBase p) →
      s.pay p = .done .baseExc ∨ s.pay p = .done .sysExit ∨ s.pay p = .done .kbd) :=
  ⟨fun h => ((inv_reach s hr).a.ended_rt p h).2, fun h => ((inv_reach s hr).a.ended_base p h).2⟩

/-- **a normal return needs a reason**: an interrupt, a KeyboardInterrupt of a payload, or an
explicit stop after which every runner task ended without error -/
theorem graceful_only (s : St) (hr : Reach s) (he : s.phase = .ended .returned) :
    s.gather = .interrupted ∨ (∃ p, s.gather = .raised p ∧ s.pay p = .done .kbd) ∨
    (s.gather = .completed ∧ ∀ f, s.rtask f = .ok ∧ s.latch f = .closed) := by
  have inv := (inv_reach s hr).a
  rcases inv.ended_returned he with hc | hc | hc
  · exact Or.inr (Or.inr ⟨hc, fun f => ⟨inv.gather_completed hc f, inv.rtask_ok f (inv.gather_completed hc f)⟩⟩)
  · exact Or.inl hc
  · exact Or.inr (Or.inl hc)

/-- a latch is only closed once the runtime has been asked to stop: while it is quiet every
failure is recorded -/
theorem quiet_records (s : St) (hr : Reach s) (hq : s.quiet) (f : Flav) : s.latch f ≠ .closed :=
  (inv_reach s hr).a.quiet_open hq f

/-! ### non-vacuity: a thread payload returns a falsy value next to an asyncio bystander -/

def trace : List Ev :=
  [.adopt 1 .aio, .acceptBegin 0, .launch, .flush, .start 1 0, .adopt 2 .thr, .start 2 5,
   .bodyEnd 2 .value, .record 2, .rtaskEnd .thr, .gatherRaise .thr, .close .aio, .close .trio,
   .unwound 1, .rtaskEnd .aio, .rtaskEnd .trio, .endRun (.raisedRT 2)]

def viewPhase (o : Option St) : Option (Phase × List Nat) := o.map (fun s => (s.phase, s.failedQuiet))
example : viewPhase (run St.init trace) = some (.ended (.raisedRT 2), [2]) := by decide +kernel
example : (run St.init (trace.dropLast ++ [.endRun .returned])).isNone = true := by decide +kernel

end Cobald.Props.C01

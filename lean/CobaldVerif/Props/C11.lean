/-
C11 — Coroutine payloads of one flavour never run in parallel.
The model's thread axiom (DESIGN §7.1): each thread executes one thing at a time; hence
payloads that share their thread are never between checkpoints at the same instant.
-/
import CobaldVerif.Generated.Src
import CobaldVerif.Lemmas.RuntimeInv

namespace Cobald.Props.C11
open Cobald Cobald.Runtime

/-- **one thread per coroutine flavour**: any two running asyncio payloads run on the same
thread, any two running trio payloads likewise — adopted and service payloads alike, for the
whole life of the runtime -/
theorem one_thread_per_flavour (s : St) (hr : Reach s) (p q : Nat)
    (hp : s.pay p = .running) (hq : s.pay q = .running) (hfl : s.fl p = s.fl q) (hco : (s.fl p).isCo = true) :
    s.tid p = s.tid q ∧ s.tid p ≠ none := by
  have inv := (inv_reach s hr).c
  cases hf : s.fl p with
  | aio =>
    have h1 := inv.co_thread_aio p hp hf
    have h2 := inv.co_thread_aio q hq (hfl ▸ hf)
    exact ⟨h1.1.trans h2.1.symm, by rw [h1.1]; exact h1.2⟩
  | trio =>
    have h1 := inv.co_thread_trio p hp hf
    have h2 := inv.co_thread_trio q hq (hfl ▸ hf)
    exact ⟨h1.1.trans h2.1.symm, by rw [h1.1]; exact h1.2⟩
  | thr => rw [hf] at hco; simp [Flav.isCo] at hco

/-- the two coroutine threads are different threads, and thread payloads run outside both -/
theorem threads_apart (s : St) (hr : Reach s) :
    (∀ t, s.loopTid = some t → s.trioTid ≠ some t) ∧
    (∀ t, t ∈ s.thrTids → s.loopTid ≠ some t ∧ s.trioTid ≠ some t) :=
  ⟨(inv_reach s hr).c.tids_distinct, (inv_reach s hr).c.thr_distinct⟩

/-- executed coroutine payloads use the same thread as adopted ones: while an asyncio (trio)
payload is running, an execute of that flavour is only accepted on its thread -/
theorem executed_same_thread (s s' : St) (hr : Reach s) (p e t : Nat) (f : Flav)
    (hp : s.pay p = .running) (hf : s.fl p = f) (hco : f.isCo = true)
    (h : step s (.execBegin e f t) = some s') : s.tid p = some t := by
  have inv := (inv_reach s hr).c
  simp only [step] at h
  split at h
  · rename_i hg
    cases f with
    | aio =>
      have h1 := inv.co_thread_aio p hp hf
      have := hg.2.2
      simp only [St.tidOK, reduceCtorEq, false_or, Bool.and_eq_true, Bool.or_eq_true, beq_iff_eq] at this
      rcases this.1.1 with h0 | h0
      · exact absurd h0 h1.2
      · rw [h1.1, h0]
    | trio =>
      have h1 := inv.co_thread_trio p hp hf
      have := hg.2.2
      simp only [St.tidOK, reduceCtorEq, false_or, Bool.and_eq_true, Bool.or_eq_true, beq_iff_eq] at this
      rcases this.1.1 with h0 | h0
      · exact absurd h0 h1.2
      · rw [h1.1, h0]
    | thr => simp [Flav.isCo] at hco
  · simp at h

/-- blocking inside thread payloads never stalls coroutine payloads: whether a coroutine
payload may take its next step does not depend on the state of any thread payload -/
theorem coroutines_independent_of_threads (s : St) (p q : Nat) (x : PSt) (o : Out)
    (hq : s.fl q = .thr) (hpq : p ≠ q) :
    (step { s with pay := upd s.pay q x } (.bodyEnd p o)).isSome = (step s (.bodyEnd p o)).isSome := by
  simp only [step, upd, hpq, if_false]
  split <;> simp

/-! ### non-vacuity -/

def trace : List Ev :=
  [.acceptBegin 0, .launch, .flush, .adopt 1 .aio, .adopt 2 .aio, .adopt 3 .trio, .adopt 4 .thr,
   .start 1 0, .start 3 1, .start 2 0, .start 4 2]
example : ((run St.init trace).map (fun s => [s.tid 1, s.tid 2, s.tid 3, s.tid 4])) =
    some [some 0, some 0, some 1, some 2] := by decide +kernel
-- a second asyncio payload on another thread is not a behaviour of the model
example : (run St.init (trace.take 9 ++ [.start 2 5])).isNone = true := by decide +kernel

/-! ### the runtime glue as written in the source

The model of this property was transcribed from these functions of `cobald/daemon/runners/`
(where payloads run: one event loop, one `trio.run` in one executor thread, one thread per threading payload - the thread ids the acceptor checks `start` events against).
`Gen.runtimePins` is recomputed on every run: the normalised text of every function of the runner
modules (docstrings, annotations and logging statements dropped) is compared with the text the
model was last transcribed from (`harness/vh/pins.json`). A changed function breaks this theorem;
the scenario families are then the search for a failing history. -/

theorem gen_runtime_text :
    ∀ n ∈ ["asyncio_runner:AsyncioRunner._setup_payload",
     "trio_runner:TrioRunner._run_trio_blocking",
     "trio_runner:TrioRunner._manage_payloads_trio",
     "trio_runner:TrioRunner.manage_payloads",
     "trio_runner:TrioRunner._submit_payload",
     "thread_runner:ThreadRunner.register_payload",
     "meta_runner:MetaRunner._launch_runners",
     "meta_runner:MetaRunner._manage_runners"],
      Gen.pinned n = true := by decide

end Cobald.Props.C11

/-
C13 — The daemon runs its configured pipeline until stopped; failures set the exit status.
Corollaries of the runtime theorems (C01 C02 C03 C12) for the daemon's instantiation of the
LTS, plus the totality of the loader dispatch.  Interpreter start-up / shutdown, signal
delivery and garbage collection are outside the model (assumed as in DESIGN §7.9).
-/
import CobaldVerif.Model.Daemon
import CobaldVerif.Props.C01
import CobaldVerif.Props.C03
import CobaldVerif.Generated.Src
import CobaldVerif.Lemmas.RuntimeProgress

namespace Cobald.Props.C13
open Cobald Cobald.Runtime Cobald.Daemon

/-- the loader dispatch is total and only `.yaml` / `.yml` / `.py` select a loader; every other
extension is an error of the loader payload -/
theorem dispatch_total (ext : String) :
    (dispatch ext = .yaml ↔ (ext = ".yaml" ∨ ext = ".yml")) ∧
    (dispatch ext = .python ↔ ext = ".py") ∧
    (dispatch ext = .unknown ↔ (ext ≠ ".yaml" ∧ ext ≠ ".yml" ∧ ext ≠ ".py")) := by
  unfold dispatch
  by_cases h1 : ext = ".yaml" ∨ ext = ".yml"
  · rcases h1 with rfl | rfl <;> simp
  · by_cases h2 : ext = ".py"
    · subst h2; simp
    · have h1' := h1
      rw [not_or] at h1'
      simp [h1, h2, h1'.1, h1'.2]

/-- the extension dispatch as it stands in the source of `core/config.py::load` (the lists are
re-emitted from the source text on every run; the final `else` raises) is the model's `dispatch` -/
theorem gen_dispatch_eq (ext : String) :
    dispatch ext = (if ext ∈ Gen.dispatchYaml then .yaml else if ext ∈ Gen.dispatchPython then .python else .unknown) := by
  simp [dispatch, Gen.dispatchYaml, Gen.dispatchPython]

/-- `core/main.py` as written in the source: `run` queues `_load_services` as an asyncio payload and then calls
`runtime.accept()` bare (what accept raises leaves the process: `exitStatus`), `_load_services` holds the loaded
configuration inside `with load(path)` until it is cancelled - the model's `daemonStart` -/
theorem gen_daemon_start :
    Gen.daemonStart = ["adopt:_load_services:asyncio", "accept"] ∧
    daemonStart = [.adopt loader .aio, .acceptBegin 0] := ⟨rfl, rfl⟩

/-- the daemon's start is a behaviour of the runtime: the loader is queued as an asyncio
payload and the runtime begins to accept -/
theorem start_reachable : ∃ s, run St.init daemonStart = some s ∧ s.pay loader = .queued ∧
    s.fl loader = .aio ∧ s.phase = .launching := by
  refine ⟨_, rfl, ?_, ?_, ?_⟩ <;> simp [St.init, upd, loader]

/-- **the configured objects are constructed inside the running event loop**: the loader runs
as an asyncio payload, hence (C03 `start_flavour`) on the event-loop thread after the runners
were launched -/
theorem loader_in_loop (s : St) (hr : Reach s) (hl : s.fl loader = .aio) (hrun : s.pay loader = .running) :
    s.tid loader = s.loopTid ∧ s.loopTid ≠ none :=
  (C03.start_flavour s hr loader hrun).1 hl

/-- **every service is started exactly once** (never twice, whatever the number of polling
cycles) -/
theorem services_started_once (s : St) (hr : Reach s) (p : Nat) : s.starts p ≤ 1 :=
  C03.start_le_one s hr p

/-- **an invalid configuration, an unknown extension or a failing service gives a non-zero
exit status**: each of them is a failing outcome of a payload (the loader or the service's
`run`); if it was recorded while the daemon was up and nobody interrupted, the daemon does not
exit with status 0 -/
theorem failure_nonzero (s : St) (hr : Reach s) (hf : s.failedQuiet ≠ [])
    (hi : s.gather ≠ .interrupted) (hk : ∀ q, s.pay q ≠ .done .kbd) (r : Res) (he : s.phase = .ended r) :
    exitStatus r ≠ 0 := by
  have := C01.failure_never_returns s hr hf hi hk
  cases r with
  | returned => exact absurd he this
  | raisedRT p => simp [exitStatus]
  | raisedBase p => simp [exitStatus]

/-- **SIGINT stops it gracefully**: once the interrupt has been delivered (and no failure had
been raised before), the only result the run may end with is a normal return: exit status 0 -/
theorem sigint_exit0 (s : St) (r : Res) (hi : s.gather = .interrupted) (h : (step s (.endRun r)).isSome = true) :
    exitStatus r = 0 := by
  simp only [step, St.resultOK, hi] at h
  split at h
  · split at h
    · rename_i hr
      have : r = .returned := by simpa using hr
      subst this; rfl
    · simp at h
  · simp at h

/-- **it never stays up idle after a failure**: a recorded failure keeps enabling progress
towards the end of the run — the failed runner's task can end, and `gather` can deliver it -/
theorem failure_progress (s : St) (f : Flav) (p : Nat) (hup : s.phase = .up)
    (hl : s.latch f = .failed p) (hrt : s.rtask f = .running) :
    ∃ s', step s (.rtaskEnd f) = some s' ∧ s'.rtask f = .err p ∧
      (s.gather = .pending → ∃ s'', step s' (.gatherRaise f) = some s'' ∧ s''.gather = .raised p) := by
  refine ⟨{ s with rtask := step.upd' s.rtask f (.err p) }, by simp [step, hup, hrt, hl], by simp [step.upd'], ?_⟩
  intro hg
  refine ⟨{ s with rtask := step.upd' s.rtask f (.err p), gather := .raised p }, ?_, rfl⟩
  simp [step, step.upd', hup, hg]

/-- **it never stays up idle**: once the failure of the loader or of a service has been delivered
to the runtime and the coroutine payloads have unwound, at most 8 closing steps end the daemon's
run call, and the exit status is not 0 -/
theorem failure_exits_nonzero (s : St) (hr : Reach s) (hup : s.phase = .up) (p : Nat) (hg : s.gather = .raised p)
    (hk : s.pay p ≠ .done .kbd) (hq : s.coQuiet) :
    ∃ es s' r, (es.all Ev.closingEv = true) ∧ run s es = some s' ∧ s'.phase = .ended r ∧ exitStatus r ≠ 0 ∧ es.length ≤ 8 := by
  obtain ⟨es, s', r, h1, h2, h3, h4, h5⟩ := Runtime.failure_ends_run s hr hup p hg hk hq
  refine ⟨es, s', r, h1, h2, h3, ?_, h5⟩
  cases r with
  | returned => exact absurd rfl h4
  | raisedRT _ => simp [exitStatus]
  | raisedBase _ => simp [exitStatus]

/-- **SIGINT stops it gracefully**: after the interrupt, once the services have been cancelled and
have unwound, at most 8 closing steps end the run call -/
theorem sigint_stops (s : St) (hr : Reach s) (hup : s.phase = .up) (hi : s.gather = .interrupted) (hq : s.coQuiet) :
    ∃ es s' r, (es.all Ev.closingEv = true) ∧ run s es = some s' ∧ s'.phase = .ended r ∧ es.length ≤ 8 :=
  closing_terminates s hr hup (Or.inr (by simp [hi])) hq

/-! ### "keeps all of them alive": references and garbage collection

A service unit refers to its instance weakly until the instance's `run` has been adopted; what
keeps the configured objects alive meanwhile is the frame of the loader payload, which stays
inside `with load(config_path)` for as long as the daemon is up. -/

/-- an instance that a running payload refers to cannot be collected -/
theorem held_not_collected (s : St) (p : Nat) (hh : s.held p = true) : step s (.dropUnit p) = none := by
  simp [step, hh]

/-- a collected service is never started (so losing the reference would leave the daemon idle) -/
theorem collected_never_started (s s' : St) (hr : Reach s) (p : Nat) (h : step s (.dropUnit p) = some s') :
    s'.pay p = .discarded ∧ s'.starts p = 0 := by
  simp only [step] at h
  split at h
  · rename_i hg
    simp only [Option.some.injEq] at h; subst h
    refine ⟨by simp [upd], ?_⟩
    rcases (inv_reach s hr).c.starts_once p with ⟨h0, _⟩ | ⟨_, h1⟩
    · exact h0
    · rw [hg.1] at h1; simp [PSt.notStarted] at h1
  · simp at h

/-- **the loader keeps the services alive**: as long as the payload that refers to a service keeps
running - its body does not end and it is not cancelled - every event leaves the service referenced;
it can be swept (`C03.sweep_enabled`) but not collected -/
theorem held_stable (s s' : St) (e : Ev) (p h : Nat) (hh : s.holder p = some h) (hrun : s.pay h = .running)
    (hs : step s e = some s') (h1 : ∀ o, e ≠ .bodyEnd h o) (h2 : e ≠ .unwound h) : s'.held p = true := by
  have key : ∀ t : St, (∃ h', t.holder p = some h' ∧ t.pay h' = .running) → t.held p = true := by
    intro t ⟨h', a, b⟩; simp [St.held, a, b]
  apply key
  cases e <;> simp only [step] at hs
  all_goals (repeat' (split at hs))
  all_goals (first | (simp at hs; done) | skip)
  all_goals (try (simp only [Option.some.injEq] at hs; subst hs))
  all_goals (first
    | exact ⟨h, hh, hrun⟩
    | (refine ⟨h, by simpa using hh, ?_⟩; simp only [upd_apply, setFlavTid_pay]; grind)
    | grind [upd, St.setFlavTid])

/-! ### non-vacuity: a configuration error makes the daemon exit with status 1 -/

def badConfig : List Ev :=
  daemonStart ++ [.launch, .flush, .start loader 0, .bodyEnd loader .exc, .record loader, .rtaskEnd .aio,
    .gatherRaise .aio, .close .trio, .close .thr, .rtaskEnd .trio, .rtaskEnd .thr, .endRun (.raisedRT loader)]
example : ((run St.init badConfig).map (fun s => s.phase)) = some (.ended (.raisedRT loader)) := by decide +kernel
-- a service constructed by the running loader is held, cannot be collected, and can be swept
def keepAlive : List Ev := daemonStart ++ [.launch, .flush, .start loader 0, .newUnit 1 .trio, .hold 1 loader]
example : ((run St.init keepAlive).map (fun s => (s.held 1, (step s (.dropUnit 1)).isNone, (step s (.sweep 1)).isSome))) =
    some (true, true, true) := by decide +kernel
-- without the reference the very same service can be collected before it is adopted
example : ((run St.init (keepAlive.dropLast)).map (fun s => (s.held 1, (step s (.dropUnit 1)).isSome))) =
    some (false, true) := by decide +kernel
example : dispatch ".yml" = .yaml ∧ dispatch ".py" = .python ∧ dispatch ".json" = .unknown ∧ dispatch "" = .unknown := by
  decide

/-! ### the runtime glue as written in the source

The model of this property was transcribed from these functions (what the daemon rests on: the runtime's `accept` / `adopt` and the polling of service units, `MetaRunner.run` (whose result is the exit status), and the two configuration loaders).
`Gen.runtimePins` is recomputed on every run: the normalised text of every function of the runner
modules (docstrings, annotations and logging statements dropped) is compared with the text the
model was last transcribed from (`harness/vh/pins.json`). A changed function breaks this theorem;
the scenario families are then the search for a failing history. -/

theorem gen_runtime_text :
    ∀ n ∈ ["service:ServiceRunner.accept",
     "service:ServiceRunner.adopt",
     "service:ServiceRunner._accept_services",
     "service:ServiceRunner._adopt_services",
     "service:service",
     "meta_runner:MetaRunner.run",
     "meta_runner:MetaRunner._manage_runners",
     "python:load_configuration",
     "yaml:load_configuration"],
      Gen.pinned n = true := by decide

end Cobald.Props.C13

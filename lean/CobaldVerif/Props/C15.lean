/-
C15 — FactoryPool spawns and releases just enough children.
-/
import CobaldVerif.Model.Factory
import CobaldVerif.Generated.Src
import CobaldVerif.Generated.SrcFactory
import Mathlib.Tactic.Linarith
import Mathlib.Tactic.Ring
import Mathlib.Data.List.Perm.Basic
import Mathlib.Data.List.Nodup
import Mathlib.Algebra.Order.Field.Rat

namespace Cobald.Props.C15
open Cobald Cobald.Factory

theorem sumD_append (a b : List Child) : sumD (a ++ b) = sumD a + sumD b := by
  simp [sumD]

theorem sumD_cons (c : Child) (l : List Child) : sumD (c :: l) = c.demand + sumD l := by
  simp [sumD]

/-! ### reaping -/

/-- children with no demand left are released; released children have demand 0 -/
theorem no_demand_reaped (st : St) :
    (∀ c ∈ (reap st).hatchery, 0 < c.demand) ∧
    (∀ c ∈ (reap st).mortuary, c ∈ st.mortuary ∨ c.demand = 0) := by
  constructor
  · intro c hc
    have := (List.mem_filter.mp hc).2
    simpa using this
  · intro c hc
    simp only [reap, List.mem_append, List.mem_map] at hc
    rcases hc with h | ⟨d, _, rfl⟩
    · exact Or.inl h
    · exact Or.inr rfl

/-- zeroing the children without demand never lowers the total demand -/
theorem sumD_reap_ge (st : St) : sumD st.all ≤ sumD (reap st).all := by
  have key : ∀ l : List Child, sumD l ≤ sumD (l.filter (fun c => ¬ c.demand ≤ 0)) +
      sumD ((l.filter (fun c => c.demand ≤ 0)).map (fun c => { c with demand := 0 })) := by
    intro l
    induction l with
    | nil => simp [sumD]
    | cons c l ih =>
      by_cases h : c.demand ≤ 0
      · simp only [List.filter_cons, h, not_true_eq_false, decide_false, decide_true, if_true,
          Bool.false_eq_true, if_false, List.map_cons, sumD_cons]
        linarith
      · simp only [List.filter_cons, h, not_false_eq_true, decide_true, decide_false, if_true,
          Bool.false_eq_true, if_false, sumD_cons]
        linarith
  simp only [St.all, reap, sumD_append]
  have := key st.hatchery
  linarith

/-! ### growing -/

/-- what the spawn loop does: it only appends fresh children with positive demand; if it ended
by itself (not by running out of fuel) the new demands cover what was missing, and would not
without the child spawned last -/
theorem growLoop_spec (factory : Nat → Child) : ∀ (fuel : Nat) (st st' : St) (missing : Rat),
    growLoop factory fuel st missing = some st' →
    ∃ new : List Child, st'.hatchery = st.hatchery ++ new ∧ st'.mortuary = st.mortuary ∧
      st'.demand = st.demand ∧ st'.spawned = st.spawned + new.length ∧ (∀ c ∈ new, 0 < c.demand) ∧
      (new.length < fuel → missing - sumD new ≤ 0 ∧ (new ≠ [] → 0 < missing - sumD new.dropLast))
  | 0, st, st', missing, h => by
      simp only [growLoop, Option.some.injEq] at h
      subst h
      exact ⟨[], by simp, rfl, rfl, rfl, by simp, by simp⟩
  | fuel + 1, st, st', missing, h => by
      simp only [growLoop] at h
      split at h
      · rename_i hm
        simp only [Option.some.injEq] at h
        subst h
        exact ⟨[], by simp, rfl, rfl, rfl, by simp, fun _ => ⟨by simpa [sumD] using hm, by simp⟩⟩
      · rename_i hm
        split at h
        · simp at h
        · rename_i hd
          obtain ⟨new, h1, h2, h3, h4, h5, h6⟩ := growLoop_spec factory fuel _ st' _ h
          have hpos : 0 < ({ factory st.spawned with id := 1000 + st.spawned } : Child).demand := by
            simpa using hd
          refine ⟨{ factory st.spawned with id := 1000 + st.spawned } :: new, ?_, h2, h3, ?_, ?_, ?_⟩
          · simpa [List.append_assoc] using h1
          · simp only [h4, List.length_cons]; omega
          · intro c hc
            rcases List.mem_cons.mp hc with rfl | hc
            · exact hpos
            · exact h5 c hc
          · intro hlen
            have hlen' : new.length < fuel := by simpa using hlen
            obtain ⟨g1, g2⟩ := h6 hlen'
            constructor
            · rw [sumD_cons]; linarith
            · intro _
              by_cases hn : new = []
              · subst hn
                simpa [sumD] using not_le.mp hm
              · have := g2 hn
                rw [List.dropLast_cons_of_ne_nil hn, sumD_cons]
                linarith

/-- **growing covers the request, minimally**: after a growing adjustment the children's
demands sum to at least the requested demand, and the children present before plus all
spawned ones but the last do not reach it -/
theorem grow_covers (factory : Nat → Child) (fuel : Nat) (st st' : St) (target : Rat)
    (h : grow factory fuel st target = some st') :
    ∃ new : List Child, (∀ c ∈ new, 0 < c.demand) ∧ st'.spawned = st.spawned + new.length ∧
      (new.length < fuel →
        target ≤ sumD st'.all ∧ (new ≠ [] → sumD st.all + sumD new.dropLast < target)) := by
  unfold grow at h
  cases hg : growLoop factory fuel st (target - sumD st.all) with
  | none => simp [hg] at h
  | some s1 =>
    simp only [hg, Option.map_some, Option.some.injEq] at h
    subst h
    obtain ⟨new, h1, h2, _, h4, h5, h6⟩ := growLoop_spec factory fuel st s1 _ hg
    refine ⟨new, h5, by simpa [reap] using h4, ?_⟩
    intro hlen
    obtain ⟨g1, g2⟩ := h6 hlen
    have hs1 : sumD s1.all = sumD st.all + sumD new := by
      simp only [St.all, h1, h2, sumD_append]; ring
    constructor
    · have := sumD_reap_ge s1
      linarith
    · intro hn
      have := g2 hn
      linarith

/-! ### shrinking -/

/-- the children the release pass of `_shrink` picks from the hit list -/
def passReleased : Rat → List Child → List Child
  | _, [] => []
  | excess, c :: rest =>
    if excess ≤ 0 then []
    else if c.demand ≤ excess then c :: passReleased (excess - c.demand) rest
    else passReleased excess rest

def passExcess : Rat → List Child → Rat
  | excess, [] => excess
  | excess, c :: rest =>
    if excess ≤ 0 then excess
    else if c.demand ≤ excess then passExcess (excess - c.demand) rest
    else passExcess excess rest

/-- the pass is exactly: release the picked children, one after the other -/
theorem shrinkPass_eq : ∀ (hit : List Child) (st : St) (excess : Rat),
    shrinkPass st excess hit = (passReleased excess hit).foldl (fun s c => release s c.id) st
  | [], st, excess => by simp [shrinkPass, passReleased]
  | c :: rest, st, excess => by
      simp only [shrinkPass, passReleased]
      split_ifs
      · rfl
      · simp [shrinkPass_eq rest]
      · exact shrinkPass_eq rest st excess

/-- **a child is released only if the remaining active demand still covers the request**:
the released demands never exceed the excess (hit-list demand minus request) -/
theorem shrink_safe : ∀ (hit : List Child) (excess : Rat), (∀ c ∈ hit, 0 ≤ c.demand) →
    passExcess excess hit = excess - sumD (passReleased excess hit) ∧
    (0 ≤ excess → 0 ≤ passExcess excess hit) ∧ passExcess excess hit ≤ max excess 0 ∧
    (excess ≤ 0 → passReleased excess hit = [])
  | [], excess, _ => by simp [passExcess, passReleased, sumD]
  | c :: rest, excess, h => by
      have hc := h c (by simp)
      have hrest : ∀ d ∈ rest, 0 ≤ d.demand := fun d hd => h d (by simp [hd])
      simp only [passExcess, passReleased]
      split_ifs with h1 h2
      · refine ⟨by simp [sumD], fun h0 => h0, by simp [h1], fun _ => rfl⟩
      · obtain ⟨a, b, c', _⟩ := shrink_safe rest (excess - c.demand) hrest
        refine ⟨by rw [a, sumD_cons]; ring, fun _ => b (by linarith), ?_, fun h0 => absurd h0 h1⟩
        have : max (excess - c.demand) 0 ≤ max excess 0 := max_le_max (by linarith) le_rfl
        exact le_trans c' this
      · obtain ⟨a, b, c', _⟩ := shrink_safe rest excess hrest
        exact ⟨a, b, c', fun h0 => absurd h0 h1⟩

/-- **no child that could still be released is kept**: every hit-list child the pass did not
release and that still has demand needs more than the remaining excess -/
theorem shrink_maximal : ∀ (hit : List Child) (excess : Rat), (∀ c ∈ hit, 0 ≤ c.demand) →
    ∀ c ∈ hit, c ∉ passReleased excess hit → 0 < c.demand → passExcess excess hit < c.demand
  | [], _, _ => by simp
  | d :: rest, excess, h => by
      intro c hc hnr hpos
      have hd := h d (by simp)
      have hrest : ∀ x ∈ rest, 0 ≤ x.demand := fun x hx => h x (by simp [hx])
      simp only [passExcess, passReleased] at hnr ⊢
      split_ifs at hnr ⊢ with h1 h2
      · linarith
      · have hcr : c ∈ rest := by
          rcases List.mem_cons.mp hc with rfl | hcr
          · exact absurd (List.mem_cons_self) hnr
          · exact hcr
        exact shrink_maximal rest _ hrest c hcr (fun hx => hnr (List.mem_cons_of_mem _ hx)) hpos
      · rcases List.mem_cons.mp hc with rfl | hcr
        · have := (shrink_safe rest excess hrest).2.2.1
          have hmax : max excess 0 = excess := max_eq_left (le_of_lt (not_le.mp h1))
          rw [hmax] at this
          linarith [not_le.mp h2]
        · exact shrink_maximal rest _ hrest c hcr hnr hpos

/-- released children have demand 0 and leave the hatchery -/
theorem released_zero (st : St) (i : Nat) :
    (∀ c ∈ (release st i).hatchery, c.id ≠ i) ∧
    (∀ c ∈ (release st i).mortuary, c ∈ st.mortuary ∨ (c.id = i ∧ c.demand = 0)) := by
  constructor
  · intro c hc
    have := (List.mem_filter.mp hc).2
    simpa using this
  · intro c hc
    simp only [release, List.mem_append, List.mem_map] at hc
    rcases hc with h | ⟨d, hd, rfl⟩
    · exact Or.inl h
    · have := (List.mem_filter.mp hd).2
      exact Or.inr ⟨by simpa using this, rfl⟩

/-! ### children are only ever created by the factory -/

theorem filter_len (p : Child → Bool) (l : List Child) :
    (l.filter p).length + (l.filter (fun c => !p c)).length = l.length := by
  induction l with
  | nil => rfl
  | cons c l ih => cases h : p c <;> simp [List.filter_cons, h] <;> omega

theorem release_length (st : St) (i : Nat) : (release st i).all.length = st.all.length := by
  simp only [St.all, release, List.length_append, List.length_map]
  have := filter_len (fun c => decide (c.id = i)) st.hatchery
  have e : (st.hatchery.filter (fun c => decide (c.id ≠ i))) = st.hatchery.filter (fun c => !decide (c.id = i)) := by
    congr 1; funext c; simp
  rw [e]
  omega

theorem reap_length (st : St) : (reap st).all.length = st.all.length := by
  simp only [St.all, reap, List.length_append, List.length_map]
  have := filter_len (fun c => decide (c.demand ≤ 0)) st.hatchery
  have e : (st.hatchery.filter (fun c => decide (¬ c.demand ≤ 0))) = st.hatchery.filter (fun c => !decide (c.demand ≤ 0)) := by
    congr 1; funext c
    by_cases h : c.demand ≤ 0 <;> simp [h]
  rw [e]
  omega

theorem only_factory_creates_grow (factory : Nat → Child) (fuel : Nat) (st st' : St) (target : Rat)
    (h : grow factory fuel st target = some st') :
    st'.all.length = st.all.length + (st'.spawned - st.spawned) := by
  unfold grow at h
  cases hg : growLoop factory fuel st (target - sumD st.all) with
  | none => simp [hg] at h
  | some s1 =>
    simp only [hg, Option.map_some, Option.some.injEq] at h
    subst h
    obtain ⟨new, h1, h2, _, h4, _, _⟩ := growLoop_spec factory fuel st s1 _ hg
    rw [reap_length]
    have : (reap s1).spawned = s1.spawned := rfl
    rw [this, h4]
    simp only [St.all, h1, h2, List.length_append]
    omega

theorem only_factory_creates_shrink (st : St) (target : Rat) (order : List Nat) :
    (shrink st target order).all.length = st.all.length ∧ (shrink st target order).spawned = st.spawned := by
  unfold shrink
  simp only
  rw [reap_length, shrinkPass_eq]
  generalize passReleased _ _ = rel
  have : ∀ (rel : List Child) (s : St), ((rel.foldl (fun s c => release s c.id) s).all.length = s.all.length) ∧
      (rel.foldl (fun s c => release s c.id) s).spawned = s.spawned := by
    intro rel
    induction rel with
    | nil => intro s; simp
    | cons c rel ih =>
      intro s
      simp only [List.foldl_cons]
      have := ih (release s c.id)
      rw [release_length] at this
      exact ⟨this.1, this.2⟩
  have h := this rel st
  exact ⟨h.1, by simpa [reap] using h.2⟩

/-! ### identity invariants: never both active and released, never active again -/

def ids (l : List Child) : List Nat := l.map (·.id)

/-- every child object exists once, and identities handed out by the factory are fresh -/
structure WF (st : St) : Prop where
  nodup : (ids st.all).Nodup
  bound : ∀ c ∈ st.all, c.id < 1000 + st.spawned

theorem ids_filter_split (p : Child → Bool) (l : List Child) (g : Child → Child) (hg : ∀ c, (g c).id = c.id) :
    (ids (l.filter (fun c => !p c)) ++ ids ((l.filter p).map g)).Perm (ids l) := by
  induction l with
  | nil => simp [ids]
  | cons c l ih =>
    cases h : p c
    · simp only [List.filter_cons, h, Bool.not_false, if_true, Bool.false_eq_true, if_false, ids, List.map_cons,
        List.cons_append]
      exact List.Perm.cons _ ih
    · simp only [List.filter_cons, h, Bool.not_true, Bool.false_eq_true, if_false, if_true, ids, List.map_cons, hg]
      exact (List.perm_middle).trans (List.Perm.cons _ ih)

theorem perm_move (a b m h : List Nat) (hp : (a ++ b).Perm h) : (a ++ (m ++ b)).Perm (h ++ m) := by
  have h1 : (a ++ (m ++ b)).Perm (a ++ (b ++ m)) := List.Perm.append_left _ List.perm_append_comm
  have h2 : (a ++ (b ++ m)) = (a ++ b) ++ m := (List.append_assoc a b m).symm
  rw [h2] at h1
  exact h1.trans (List.Perm.append_right m hp)

theorem wf_release (st : St) (i : Nat) (h : WF st) : WF (release st i) := by
  have hp := ids_filter_split (fun c => decide (c.id = i)) st.hatchery (fun c => { c with demand := 0 }) (fun _ => rfl)
  have e : (st.hatchery.filter (fun c => decide (c.id ≠ i))) = st.hatchery.filter (fun c => !decide (c.id = i)) := by
    congr 1; funext c; simp
  constructor
  · have : (ids (release st i).all).Perm (ids st.all) := by
      simp only [St.all, release, ids, List.map_append, e] at hp ⊢
      exact perm_move _ _ _ _ hp
    exact (this.nodup_iff).mpr h.nodup
  · intro c hc
    simp only [St.all, release, List.mem_append, List.mem_map] at hc
    have hs : (release st i).spawned = st.spawned := rfl
    rw [hs]
    rcases hc with hc | hc | ⟨d, hd, rfl⟩
    · exact h.bound c (List.mem_append_left _ (List.mem_filter.mp hc).1)
    · exact h.bound c (List.mem_append_right _ hc)
    · exact h.bound d (List.mem_append_left _ (List.mem_filter.mp hd).1)

theorem wf_reap (st : St) (h : WF st) : WF (reap st) := by
  have hp := ids_filter_split (fun c => decide (c.demand ≤ 0)) st.hatchery (fun c => { c with demand := 0 }) (fun _ => rfl)
  have e : (st.hatchery.filter (fun c => decide (¬ c.demand ≤ 0))) = st.hatchery.filter (fun c => !decide (c.demand ≤ 0)) := by
    congr 1; funext c
    by_cases h : c.demand ≤ 0 <;> simp [h]
  constructor
  · have : (ids (reap st).all).Perm (ids st.all) := by
      simp only [St.all, reap, ids, List.map_append, e] at hp ⊢
      exact perm_move _ _ _ _ hp
    exact (this.nodup_iff).mpr h.nodup
  · intro c hc
    simp only [St.all, reap, List.mem_append, List.mem_map] at hc
    have hs : (reap st).spawned = st.spawned := rfl
    rw [hs]
    rcases hc with hc | hc | ⟨d, hd, rfl⟩
    · exact h.bound c (List.mem_append_left _ (List.mem_filter.mp hc).1)
    · exact h.bound c (List.mem_append_right _ hc)
    · exact h.bound d (List.mem_append_left _ (List.mem_filter.mp hd).1)

theorem wf_growLoop (factory : Nat → Child) : ∀ (fuel : Nat) (st st' : St) (missing : Rat),
    WF st → growLoop factory fuel st missing = some st' → WF st'
  | 0, st, st', _, h, hg => by simp only [growLoop, Option.some.injEq] at hg; subst hg; exact h
  | fuel + 1, st, st', missing, h, hg => by
      simp only [growLoop] at hg
      split at hg
      · simp only [Option.some.injEq] at hg; subst hg; exact h
      · split at hg
        · simp at hg
        · apply wf_growLoop factory fuel _ st' _ _ hg
          constructor
          · simp only [St.all, ids, List.map_append, List.map_cons, List.map_nil]
            have hperm : ∀ (a m : List Nat) (x : Nat), (a ++ [x] ++ m).Perm (x :: (a ++ m)) := by
              intro a m x
              rw [List.append_assoc]
              exact (List.perm_middle)
            apply ((hperm _ _ _).nodup_iff).mpr
            apply List.nodup_cons.mpr
            refine ⟨?_, by simpa [St.all, ids] using h.nodup⟩
            intro hmem
            rw [← List.map_append] at hmem
            obtain ⟨c, hc, he⟩ := List.mem_map.mp hmem
            have := h.bound c hc
            omega
          · intro c hc
            simp only [St.all, List.mem_append, List.mem_cons, List.mem_nil_iff, or_false] at hc
            rcases hc with (hc | rfl) | hc
            · have := h.bound c (List.mem_append_left _ hc); simp only; omega
            · simp
            · have := h.bound c (List.mem_append_right _ hc); simp only; omega

theorem wf_foldl_release (rel : List Child) : ∀ (s : St), WF s → WF (rel.foldl (fun s c => release s c.id) s) := by
  induction rel with
  | nil => intro s h; exact h
  | cons c rel ih => intro s h; exact ih _ (wf_release s c.id h)

/-- the invariant holds after every adjustment -/
theorem wf_adjust (factory : Nat → Child) (fuel : Nat) (st st' : St) (order : List Nat) (h : WF st)
    (ha : adjust factory fuel st order = some st') : WF st' := by
  unfold adjust at ha
  split at ha
  · simp only [Option.some.injEq] at ha
    subst ha
    unfold shrink
    simp only
    rw [shrinkPass_eq]
    exact wf_reap _ (wf_foldl_release _ _ h)
  · unfold grow at ha
    cases hg : growLoop factory fuel st (st.demand - sumD st.all) with
    | none => simp [hg] at ha
    | some s1 =>
      simp only [hg, Option.map_some, Option.some.injEq] at ha
      subst ha
      exact wf_reap _ (wf_growLoop factory fuel st s1 _ h hg)

/-- **never both active and released** -/
theorem disjoint (st : St) (h : WF st) : ∀ c ∈ st.hatchery, ∀ d ∈ st.mortuary, c.id ≠ d.id := by
  intro c hc d hd
  have := h.nodup
  simp only [St.all, ids, List.map_append] at this
  exact (List.nodup_append.mp this).2.2 c.id (List.mem_map_of_mem hc) d.id (List.mem_map_of_mem hd)

/-- **released children are never active again**: an adjustment only adds children the factory
just created (fresh identities) to the active set -/
theorem active_only_by_spawn (factory : Nat → Child) (fuel : Nat) (st st' : St) (order : List Nat)
    (ha : adjust factory fuel st order = some st') :
    ∀ c ∈ st'.hatchery, c.id ∈ ids st.hatchery ∨ 1000 + st.spawned ≤ c.id := by
  have hrel : ∀ (rel : List Child) (s : St), ∀ c ∈ (rel.foldl (fun s c => release s c.id) s).hatchery, c ∈ s.hatchery := by
    intro rel
    induction rel with
    | nil => intro s c hc; exact hc
    | cons r rel ih =>
      intro s c hc
      have := ih (release s r.id) c hc
      exact (List.mem_filter.mp this).1
  unfold adjust at ha
  split at ha
  · simp only [Option.some.injEq] at ha
    subst ha
    intro c hc
    left
    unfold shrink at hc
    simp only at hc
    rw [shrinkPass_eq] at hc
    have h1 := (List.mem_filter.mp hc).1
    exact List.mem_map_of_mem (hrel _ _ c h1)
  · unfold grow at ha
    cases hg : growLoop factory fuel st (st.demand - sumD st.all) with
    | none => simp [hg] at ha
    | some s1 =>
      simp only [hg, Option.map_some, Option.some.injEq] at ha
      subst ha
      intro c hc
      have h1 := (List.mem_filter.mp hc).1
      -- every child appended by the loop has an identity from 1000 + spawned on
      have key : ∀ (fuel : Nat) (st s1 : St) (missing : Rat), growLoop factory fuel st missing = some s1 →
          ∀ c ∈ s1.hatchery, c ∈ st.hatchery ∨ 1000 + st.spawned ≤ c.id := by
        intro fuel
        induction fuel with
        | zero => intro st s1 m h c hc; simp only [growLoop, Option.some.injEq] at h; subst h; exact Or.inl hc
        | succ fuel ih =>
          intro st s1 m h c hc
          simp only [growLoop] at h
          split at h
          · simp only [Option.some.injEq] at h; subst h; exact Or.inl hc
          · split at h
            · simp at h
            · rcases ih _ s1 _ h c hc with h2 | h2
              · simp only [List.mem_append, List.mem_cons, List.mem_nil_iff, or_false] at h2
                rcases h2 with h2 | rfl
                · exact Or.inl h2
                · right; simp
              · right; simp only at h2; omega
      rcases key fuel st s1 _ hg c h1 with h2 | h2
      · exact Or.inl (List.mem_map_of_mem h2)
      · exact Or.inr h2

/-! ### aggregates -/

/-- supply is the sum over all children, utilisation and allocation the mean over those that
have supply (1 if none) -/
theorem aggregates (st : St) (f : Child → Rat) :
    supply st = ((st.hatchery ++ st.mortuary).map (·.supply)).sum ∧
    ((st.all.filter (fun c => 0 < c.supply)) = [] → fitness st f = 1) ∧
    ((st.all.filter (fun c => 0 < c.supply)) ≠ [] →
      fitness st f = ((st.all.filter (fun c => 0 < c.supply)).map f).sum / (st.all.filter (fun c => 0 < c.supply)).length) := by
  refine ⟨rfl, ?_, ?_⟩
  · intro h; simp [fitness, h]
  · intro h
    have : (st.all.filter (fun c => 0 < c.supply)).length ≠ 0 := by simpa using h
    simp [fitness, this]

/-! ### non-vacuity: a history that grows, shrinks with a tie, and reaps -/

def fac : Nat → Child := fun _ => ⟨0, 1, 1, 1, 2⟩
def s0 : St := init [⟨0, 2, 1/2, 1/2, 2⟩, ⟨1, 1, 1, 1, 2⟩]

example : ((grow fac 100 { s0 with demand := 7 } 7).map (fun s => (s.hatchery.map (·.id), s.spawned))) =
    some ([0, 1, 1000, 1001], 2) := by decide +kernel
example : passReleased 3 [⟨0, 2, 1/2, 1/2, 2⟩, ⟨1, 1, 1, 1, 2⟩] = [⟨0, 2, 1/2, 1/2, 2⟩] := by decide +kernel

/-! ### the decision in `FactoryPool.run` as it stands in the source

`Generated/Src.lean` is re-emitted from the text of `composite/factory.py` on every run: the loop
sleeps one interval first, freezes supply and demand, and shrinks towards the demand when the
condition below holds, grows towards it otherwise. -/

/-- an adjustment shrinks exactly when the source's condition holds, and grows otherwise -/
theorem gen_adjust_eq (factory : Nat → Child) (fuel : Nat) (st : St) (order : List Nat) :
    adjust factory fuel st order =
      if Gen.factoryShrinks (supply st) st.demand = true then some (shrink st st.demand order)
      else grow factory fuel st st.demand := by
  unfold adjust Gen.factoryShrinks
  by_cases h : st.demand < supply st <;> simp [h]

/-! ### `_shrink`, `_grow`, `_reap_children` and the aggregates as written in the source
(`Generated/SrcFactory.lean`) -/

/-- the release pass of `_shrink` as written in the source is the model's -/
theorem gen_shrink_pass_eq : ∀ (hit : List Child) (st : St) (excess : Rat),
    Gen.Factory.shrinkPass st excess hit = shrinkPass st excess hit := by
  intro hit
  induction hit with
  | nil => intros; rfl
  | cons c rest ih => intro st excess; simp only [Gen.Factory.shrinkPass, shrinkPass, ih]

/-- `_shrink` as written in the source: hit list sorted by the source's key, the source's excess, the
source's release pass, then the reaping pass with the source's condition -/
theorem gen_shrink_eq (st : St) (target : Rat) (order : List Nat) :
    shrink st target order =
      (let hit := sortStable Gen.Factory.shrinkKey (inOrder st order)
       reap (Gen.Factory.shrinkPass st (Gen.Factory.shrinkExcess hit target) hit)) := by
  unfold shrink Gen.Factory.shrinkExcess
  simp only [gen_shrink_pass_eq]
  rfl

/-- `_reap_children` releases exactly the hatchery children the source's condition selects -/
theorem gen_reap_eq (st : St) :
    reap st = { st with hatchery := st.hatchery.filter (fun c => !Gen.Factory.reapCond c),
                        mortuary := st.mortuary ++ (st.hatchery.filter (fun c => Gen.Factory.reapCond c)).map (fun c => { c with demand := 0 }) } := by
  unfold reap Gen.Factory.reapCond
  simp only [St.mk.injEq, true_and]
  refine ⟨?_, trivial⟩
  apply List.filter_congr
  intro c _
  by_cases h : c.demand ≤ 0 <;> simp [h]

/-- the spawn loop of `_grow` goes on exactly while the source's condition holds -/
theorem gen_grow_continues (factory : Nat → Child) (fuel : Nat) (st : St) (missing : Rat) :
    (¬ Gen.Factory.growContinues missing → growLoop factory (fuel + 1) st missing = some st) ∧
    (Gen.Factory.growContinues missing → growLoop factory (fuel + 1) st missing =
      (let c : Child := { factory st.spawned with id := 1000 + st.spawned }
       if c.demand ≤ 0 then none
       else growLoop factory fuel { st with hatchery := st.hatchery ++ [c], spawned := st.spawned + 1 } (missing - c.demand))) := by
  unfold Gen.Factory.growContinues
  constructor
  · intro h; have : missing ≤ 0 := not_lt.mp h; simp [growLoop, this]
  · intro h; have : ¬ missing ≤ 0 := not_le.mpr h; simp [growLoop, this]

/-- supply, utilisation and allocation as written in the source are the model's -/
theorem gen_aggregates_eq (st : St) :
    Gen.Factory.supply st = supply st ∧ Gen.Factory.utilisation st = fitness st (·.util) ∧
    Gen.Factory.allocation st = fitness st (·.alloc) ∧ Gen.Factory.releaseShape = true := by
  refine ⟨rfl, ?_, ?_, rfl⟩
  · unfold Gen.Factory.utilisation fitness
    by_cases h : (st.all.filter (fun c => decide (0 < c.supply))).length = 0 <;> simp [h]
  · unfold Gen.Factory.allocation fitness
    by_cases h : (st.all.filter (fun c => decide (0 < c.supply))).length = 0 <;> simp [h]
end Cobald.Props.C15

/-
C06 — Standardiser always keeps the forwarded demand within its limits.
Property theorems only (helper lemmas live in Lemmas/Standardiser.lean).
Every theorem is for all accepted parameters `p` (`p.ok` = what the constructor enforces),
all states `st` (any supply, any history) and all finite written values `v`.
-/
import CobaldVerif.Lemmas.Standardiser
import CobaldVerif.Generated.Src
import CobaldVerif.Generated.SrcStandardiser

namespace Cobald.Props.C06
open Cobald Cobald.ERat Cobald.Standardiser

/-- the demand that reaches the target lies within [minimum, maximum] -/
theorem fwd_mem_minmax (p : Params) (hp : p.ok) (st : St) (v : Rat) :
    p.min ≤ (write p st v).pool.demand ∧ (write p st v).pool.demand ≤ p.max := by
  simp only [write, fwd]
  split_ifs <;> exact ⟨clamp_ge _ hp.1, clamp_le _ hp.1⟩

/-- … and within [supply - backlog, supply + surplus] unless minimum/maximum force otherwise:
it leaves the window only by sitting on `minimum` with the whole window below it, or on
`maximum` with the whole window above it -/
def WindowOrForced (p : Params) (s : Rat) (d : ERat) : Prop :=
  (winLo p s ≤ d ∧ d ≤ winHi p s) ∨ (d = p.min ∧ winHi p s < p.min) ∨ (d = p.max ∧ p.max < winLo p s)

theorem cd_window_or_forced (p : Params) (hp : p.ok) (s x : Rat) : WindowOrForced p s (cd p s x) := by
  have hw := win_le p hp s
  have hm := hp.1
  unfold WindowOrForced cd clamp
  by_cases c1 : winHi p s < p.min <;> by_cases c2 : p.max < winLo p s <;> split_ifs <;>
    first
      | (left; constructor <;> order)
      | (right; left; constructor <;> order)
      | (right; right; constructor <;> order)

theorem fwd_window_or_forced (p : Params) (hp : p.ok) (st : St) (v : Rat) :
    WindowOrForced p st.pool.supply (write p st v).pool.demand := by
  simp only [write, fwd]
  split_ifs <;> exact cd_window_or_forced p hp _ _

/-- rounding down to a multiple of the granularity -/
theorem floor_spec (v g : Rat) (hg : 0 < g) :
    (∃ k : Int, floorTo v g = k * g) ∧ floorTo v g ≤ v ∧ v < floorTo v g + g :=
  ⟨floorTo_multiple v g, floorTo_le v g hg, lt_floorTo_add v g hg⟩

/-- when no limit interferes the forwarded demand is the written value rounded down to a
multiple of the granularity (granularity ≠ 1) -/
theorem fwd_floor_when_free (p : Params) (st : St) (v : Rat) (hg : p.g ≠ 1)
    (h1 : p.min ≤ fin (floorTo v p.g)) (h2 : fin (floorTo v p.g) ≤ p.max)
    (h3 : winLo p st.pool.supply ≤ fin (floorTo v p.g)) (h4 : fin (floorTo v p.g) ≤ winHi p st.pool.supply) :
    (write p st v).pool.demand = fin (floorTo v p.g) := by
  simp only [write, fwd, hg, ne_eq, not_false_eq_true, if_true, cd]
  rw [clamp_id h3 h4, clamp_id h1 h2]

/-- with the default granularity 1 (no granularity limit) the value is forwarded as limited -/
theorem fwd_g1 (p : Params) (st : St) (v : Rat) (hg : p.g = 1) :
    (write p st v).pool.demand = cd p st.pool.supply v ∧
    (p.min ≤ fin v → fin v ≤ p.max → winLo p st.pool.supply ≤ fin v → fin v ≤ winHi p st.pool.supply →
      (write p st v).pool.demand = fin v) := by
  simp only [write, fwd, hg, ne_eq, not_true_eq_false, if_false, cd, true_and]
  intro h1 h2 h3 h4
  rw [clamp_id h3 h4, clamp_id h1 h2]

/-- the read-back after a write is less than one granule from the target's demand … -/
theorem readback_near (p : Params) (hp : p.ok) (s v : Rat) :
    farApart (cd p s v) (fwd p s v) p.g = false := by
  have hg : 0 < p.g := hp.2.2.2
  unfold fwd
  split_ifs
  · rw [cd_eq p hp, cd_eq p hp]
    exact clamp_near (eff_le p hp s) _ _ _ hg (floorTo_near v p.g hg)
  · exact farApart_self _ _ hg

/-- … and is the limited but unrounded value -/
theorem readback_eq (p : Params) (hp : p.ok) (st : St) (v : Rat) :
    Standardiser.read p (write p st v) = (write p st v, cd p st.pool.supply v) := by
  unfold Standardiser.read
  have := readback_near p hp st.pool.supply v
  simp only [write] at *
  simp [this]

/-- the read-back obeys the same limits -/
theorem readback_limits (p : Params) (hp : p.ok) (st : St) (v : Rat) :
    (p.min ≤ (Standardiser.read p (write p st v)).2 ∧ (Standardiser.read p (write p st v)).2 ≤ p.max) ∧
    WindowOrForced p st.pool.supply (Standardiser.read p (write p st v)).2 := by
  rw [readback_eq p hp]
  exact ⟨⟨clamp_ge _ hp.1, clamp_le _ hp.1⟩, cd_window_or_forced p hp _ _⟩

/-- history form: in *any* state (after any sequence of writes, reads, supply changes and
outside changes of the target's demand) the value a read returns is less than one granule
away from the target's demand at that moment -/
theorem read_near_always (p : Params) (hp : p.ok) (st : St) :
    farApart (Standardiser.read p st).2 (Standardiser.read p st).1.pool.demand p.g = false := by
  have hg : 0 < p.g := hp.2.2.2
  unfold Standardiser.read
  split_ifs with h
  · exact farApart_self _ _ hg
  · simpa using h

theorem read_near_after_run (p : Params) (hp : p.ok) (st : St) (ops : List Op) :
    farApart (Standardiser.read p (run p st ops)).2 (Standardiser.read p (run p st ops)).1.pool.demand p.g = false :=
  read_near_always p hp _

/-- supply, utilisation and allocation are passed through unchanged by every operation of
the decorator itself -/
theorem passthrough (p : Params) (st : St) (v : Rat) :
    getSupply (write p st v) = st.pool.supply ∧ getUtil (write p st v) = st.pool.util ∧
    getAlloc (write p st v) = st.pool.alloc ∧
    getSupply (Standardiser.read p st).1 = st.pool.supply ∧ getUtil (Standardiser.read p st).1 = st.pool.util ∧
    getAlloc (Standardiser.read p st).1 = st.pool.alloc := by
  simp only [getSupply, getUtil, getAlloc, write, Standardiser.read]
  split_ifs <;> simp

/-- `n` increments of 1 have the same effect on the demand read back as one increment of `n`
(constant supply, no outside change in between; the read-back values are finite) -/
theorem increments_eq_single (p : Params) (hp : p.ok) (st : St) (v0 : Rat) (n : Nat)
    (hfin : (cd p st.pool.supply v0).isFin = true) :
    (Standardiser.read p (incrN p (write p st v0) 1 n)).2 =
      (Standardiser.read p (incr p (write p st v0) n)).2 := by
  have hle := eff_le p hp st.pool.supply
  rw [cd_eq p hp] at hfin
  have hall := clamp_fin_all hle v0 hfin
  obtain ⟨x0, hx0⟩ := hall v0
  have hx0lo : effLo p st.pool.supply ≤ fin x0 := hx0 ▸ clamp_ge _ hle
  have hx0hi : fin x0 ≤ effHi p st.pool.supply := hx0 ▸ clamp_le _ hle
  have hww : ∀ v w, write p (write p st v) w = write p st w := by intro v w; simp [write]
  have hincr : ∀ v k x, cd p st.pool.supply v = fin x → incr p (write p st v) k = write p st (x + k) := by
    intro v k x hx
    unfold incr
    rw [readback_eq p hp, hx]
    exact hww _ _
  -- the state after m increments of 1
  have key : ∀ m : Nat, ∃ w, incrN p (write p st v0) 1 m = write p st w ∧
      cd p st.pool.supply w = cd p st.pool.supply (x0 + m) := by
    intro m
    induction m with
    | zero =>
      refine ⟨v0, rfl, ?_⟩
      rw [cd_eq p hp, cd_eq p hp, hx0]
      simp [clamp_id hx0lo hx0hi]
    | succ m ih =>
      obtain ⟨w, hw, hcw⟩ := ih
      obtain ⟨y, hy⟩ := hall (x0 + m)
      rw [cd_eq p hp _ (x0 + (m : Rat))] at hcw
      refine ⟨y + 1, ?_, ?_⟩
      · simp only [incrN]
        rw [hw]
        exact hincr w 1 y (hcw.trans hy)
      · rw [cd_eq p hp, cd_eq p hp]
        have := clamp_shift hle x0 m 1 y (by positivity) (by norm_num) hx0lo hx0hi hy
        rw [this]; push_cast; ring_nf
  obtain ⟨w, hw, hcw⟩ := key n
  rw [hw, readback_eq p hp, hincr v0 n x0 (by rw [cd_eq p hp]; exact hx0), readback_eq p hp]
  exact hcw

/-! ### non-vacuity: the hypotheses are met by concrete, non-trivial instances -/

def exP : Params := { min := fin (2/3), max := fin 40, g := 3/2, backlog := fin 7, surplus := fin (5/2) }
def exSt : St := init { supply := 10, demand := fin 0, util := 1/2, alloc := 1/2 }

example : exP.ok := by decide +kernel
-- a write of 100/7 is floored to 27/2, then limited by the window [3, 25/2]
example : (write exP exSt (100/7)).pool.demand = fin (25/2) := by decide +kernel
example : (Standardiser.read exP (write exP exSt (100/7))).2 = fin (25/2) := by decide +kernel
-- the free case: 8 is floored to 15/2 and no limit interferes
example : exP.g ≠ 1 ∧ exP.min ≤ fin (floorTo 8 exP.g) ∧ fin (floorTo 8 exP.g) ≤ exP.max ∧
    winLo exP exSt.pool.supply ≤ fin (floorTo 8 exP.g) ∧ fin (floorTo 8 exP.g) ≤ winHi exP exSt.pool.supply := by
  decide +kernel
example : (cd exP exSt.pool.supply 5).isFin = true := by decide +kernel
example : (Standardiser.read exP (incrN exP (write exP exSt 5) 1 4)).2 = fin 9 := by decide +kernel

/-! ### the source's `_clamp`

`Generated/Src.lean` is re-emitted from the text of `decorator/standardiser.py` on every run. -/

/-- `_clamp` as written in the source is the model's `clamp` (on which every theorem above rests) -/
theorem gen_clamp_eq (low v high : ERat) : Gen.clamp low v high = clamp low v high := rfl

/-- `_floor(n, base)` (`n // base * base`) as written in the source is the model's `floorTo` -/
theorem gen_floor_eq (n g : Rat) : Gen.floor n g = floorTo n g := rfl

/-! ### the source's `_clamp_demand`, demand setter, demand getter and constructor checks
(`Generated/SrcStandardiser.lean`) -/

/-- `_clamp_demand` as written in the source is the model's `cd` -/
theorem gen_clamp_demand_eq (p : Params) (s v : Rat) : Gen.Standardiser.clampDemand p s v = cd p s v := rfl

/-- the demand setter as written in the source stores and forwards what the model's `write` does -/
theorem gen_write_eq (p : Params) (st : St) (v : Rat) :
    (write p st v).stored = Gen.Standardiser.stored p st.pool.supply v ∧
    (write p st v).pool.demand = Gen.Standardiser.forwarded p st.pool.supply v ∧
    (write p st v).pool.supply = st.pool.supply := ⟨rfl, rfl, rfl⟩

/-- the demand getter as written in the source is the model's `read` -/
theorem gen_read_eq (p : Params) (st : St) :
    Standardiser.read p st = ({ st with stored := (Gen.Standardiser.read p st.stored st.pool.demand).1 },
                 (Gen.Standardiser.read p st.stored st.pool.demand).2) := by
  unfold Standardiser.read Gen.Standardiser.read
  split <;> simp_all

/-- the constructor enforces exactly `Params.ok` -/
theorem gen_ok_iff (p : Params) : Gen.Standardiser.ok p ↔ p.ok := Iff.rfl
/-- **end to end, about the text of the source**: for parameters the constructor's own checks accept, what the
demand setter of `standardiser.py` (as regenerated on this run) forwards to the target lies within
[minimum, maximum], and within the supply window unless minimum / maximum force it out -/
theorem gen_forwarded_in_limits (p : Params) (hp : Gen.Standardiser.ok p) (s v : Rat) :
    p.min ≤ Gen.Standardiser.forwarded p s v ∧ Gen.Standardiser.forwarded p s v ≤ p.max ∧
    WindowOrForced p s (Gen.Standardiser.forwarded p s v) := by
  have hp' : p.ok := (gen_ok_iff p).mp hp
  let st : St := { pool := { supply := s, demand := fin 0, util := 0, alloc := 0 }, stored := fin 0 }
  have h1 := fwd_mem_minmax p hp' st v
  have h2 := fwd_window_or_forced p hp' st v
  have e := (gen_write_eq p st v).2.1
  rw [e] at h1 h2
  exact ⟨h1.1, h1.2, h2⟩
/-! ### every supply, the infinite ones included -/

/-- at a finite supply the extended definitions are the ordinary ones -/
theorem cdE_fin (p : Params) (s v : Rat) : cdE p (fin s) v = cd p s v := by
  unfold cdE cd winLoE winHiE winLo winHi clampO
  simp only [Option.getD_some, decide_eq_true_eq]
  rfl

theorem fwdE_fin (p : Params) (s v : Rat) : fwdE p (fin s) v = fwd p s v := by
  unfold fwdE fwd; simp only [cdE_fin]

/-- whatever supply the pool reports - finite or infinite - the forwarded demand lies within
[minimum, maximum] -/
theorem fwdE_mem_minmax (p : Params) (hp : p.ok) (s : ERat) (v : Rat) :
    p.min ≤ fwdE p s v ∧ fwdE p s v ≤ p.max := by
  unfold fwdE cdE
  split_ifs <;> exact ⟨clamp_ge _ hp.1, clamp_le _ hp.1⟩

/-- with an infinite supply and the default (infinite) backlog the window imposes nothing from
below: a value that minimum / maximum admit is forwarded as it is (granularity 1) -/
theorem fwdE_pinf_free (p : Params) (v : Rat) (hg : p.g = 1) (hb : p.backlog = pinf)
    (h1 : p.min ≤ fin v) (h2 : fin v ≤ p.max) : fwdE p pinf v = fin v := by
  unfold fwdE cdE winLoE winHiE clampO
  simp only [hg, hb, ne_eq, not_true_eq_false, if_false]
  cases hs : p.surplus <;> simp [clamp_id h1 h2]

end Cobald.Props.C06

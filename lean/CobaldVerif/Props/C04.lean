/-
C04 — A `>>` chain builds exactly the nested pipeline, however grouped or curried.
-/
import CobaldVerif.Generated.Src
import CobaldVerif.Lemmas.Partial

namespace Cobald.Props.C04
open Cobald Cobald.Partial

/-- **every grouping gives the hand-nested pipeline**: an expression whose in-order leaves are
non-leaf templates `hs` followed by one tail (a pool instance, a pool template or a curried
pool template) evaluates, for every parenthesisation of the `>>` operators, to the object
nested by hand; the tail is constructed first (if it is a template), then `hs` last to
first, each exactly once; each element receives the next one as its target together with its
own positional and keyword arguments (`Obj.built t (some target)`) -/
theorem chain_assoc (e : Expr) :
    ∀ (hs : List Item) (tl : Item) (o : Obj) (l0 : Log),
      leaves e = hs ++ [tl] → hs ≠ [] → (∀ i ∈ hs, isHead i = true) → tailObj tl = some (o, l0) →
      eval e = some (.obj (nest (tmplsOf hs) o), l0 ++ (tmplsOf hs).reverse) := by
  induction e with
  | leaf i =>
    intro hs tl o l0 hl hne
    cases hs with
    | nil => exact absurd rfl hne
    | cons a as => simp [leaves] at hl
  | shift l r _ ihr =>
    intro hs tl o l0 hl _ hh ht
    simp only [leaves] at hl
    obtain ⟨hs2, hr, hhs⟩ := split_last _ _ _ _ (leaves_ne_nil r) hl
    have hheads_l : ∀ i ∈ leaves l, isHead i = true := fun i hi => hh i (by simp [hhs, hi])
    have hheads_2 : ∀ i ∈ hs2, isHead i = true := fun i hi => hh i (by simp [hhs, hi])
    obtain ⟨a, ea, na, fa, oa⟩ := eval_heads l hheads_l
    by_cases h2 : hs2 = []
    · subst h2
      have : r = .leaf tl := leaves_singleton r tl (by simpa using hr)
      subst this
      cases tl with
      | bind p ts => simp [tailObj] at ht
      | obj x =>
        simp only [tailObj, Option.some.injEq, Prod.mk.injEq] at ht
        obtain ⟨rfl, rfl⟩ := ht
        simp [eval, ea, rshift_obj a x na oa, fa, hhs]
      | tmpl t =>
        by_cases hlf : t.leaf = true
        · simp only [tailObj, hlf, if_true, Option.some.injEq, Prod.mk.injEq] at ht
          obtain ⟨rfl, rfl⟩ := ht
          simp [eval, ea, rshift_leaf a t hlf na oa, fa, hhs]
        · simp [tailObj, hlf] at ht
    · have er := ihr hs2 tl o l0 hr h2 hheads_2 ht
      simp [eval, ea, er, rshift_obj a _ na oa, fa, hhs, tmplsOf_append, nest_append,
        List.append_assoc]

/-- a single template bound to its tail (chain of length one) -/
theorem chain_single (t : Tmpl) (tl : Item) (o : Obj) (l0 : Log) (ht : t.leaf = false)
    (h : tailObj tl = some (o, l0)) :
    eval (.shift (.leaf (.tmpl t)) (.leaf tl)) = some (.obj (.built t (some o)), l0 ++ [t]) := by
  have := chain_assoc (.shift (.leaf (.tmpl t)) (.leaf tl)) [.tmpl t] tl o l0 (by simp [leaves])
    (by simp) (by simp [isHead, ht]) h
  simpa [tmplsOf, headT, nest] using this

/-! ### the eager signature check -/

theorem kwOK_mono (s : Sig) (n n' : Nat) (k : String) (h : s.kwOK (n + n') k = true) : s.kwOK n k = true := by
  unfold Sig.kwOK at *
  simp only [Bool.and_eq_true, Bool.not_eq_true', Bool.or_eq_true, List.contains_eq_mem,
    decide_eq_false_iff_not, decide_eq_true_eq, List.mem_map] at *
  obtain ⟨h1, h2⟩ := h
  constructor
  · rintro ⟨p, hp, rfl⟩
    apply h1
    refine ⟨p, ?_, rfl⟩
    have : s.pos.take n = (s.pos.take (n + n')).take n := by rw [List.take_take]; simp
    rw [this] at hp
    exact List.mem_of_mem_take hp
  · rcases h2 with (⟨p, hp, rfl⟩ | h2) | h2
    · left; left
      refine ⟨p, ?_, rfl⟩
      have : s.pos.drop (n + n') = (s.pos.drop n).drop n' := by rw [List.drop_drop]
      rw [this] at hp
      exact List.mem_of_mem_drop hp
    · left; right; exact h2
    · right; exact h2

/-- **arguments that can bind are never rejected**: if some completion of the supplied
positionals and keywords is a valid call, the partial arguments pass the check -/
theorem bindable_accepted (s : Sig) (n n' : Nat) (kw kw' : List String)
    (h : s.callBinds (n + n') (kw ++ kw') = true) : s.bindPartial n kw = true := by
  unfold Sig.callBinds Sig.bindPartial at *
  simp only [Bool.and_eq_true, Bool.or_eq_true, decide_eq_true_eq, List.all_eq_true] at *
  obtain ⟨⟨⟨h1, h2⟩, _⟩, _⟩ := h
  constructor
  · rcases h1 with h1 | h1
    · left; omega
    · right; exact h1
  · intro k hk
    exact kwOK_mono s n n' k (h2 k (List.mem_append_left _ hk))

/-- the completion used below: every still unfilled parameter without default, by keyword -/
def missing (s : Sig) (n : Nat) (kw : List String) : List String :=
  (((s.pos.drop n) ++ s.kwOnly).filter (fun p => !p.hasDefault && !kw.contains p.name)).map (·.name)

/-- **arguments that can never bind are rejected** (contrapositive): whatever passes the check
can be completed to a valid call — by supplying the missing parameters by keyword.
`(s.names).Nodup`: parameter names of a Python signature are distinct -/
theorem accepted_bindable (s : Sig) (n : Nat) (kw : List String) (hnd : s.names.Nodup)
    (h : s.bindPartial n kw = true) :
    s.callBinds (n + 0) (kw ++ missing s n kw) = true := by
  unfold Sig.callBinds
  simp only [Nat.add_zero, Bool.and_eq_true, List.all_eq_true, Bool.or_eq_true, List.contains_eq_mem,
    decide_eq_true_eq]
  unfold Sig.bindPartial at h ⊢
  simp only [Bool.and_eq_true, List.all_eq_true] at h ⊢
  have hmiss : ∀ k ∈ missing s n kw, k ∈ ((s.pos.drop n) ++ s.kwOnly).map (·.name) := by
    intro k hk
    obtain ⟨p, hp, rfl⟩ := List.mem_map.mp hk
    exact List.mem_map_of_mem (List.mem_filter.mp hp).1
  refine ⟨⟨⟨h.1, ?_⟩, ?_⟩, ?_⟩
  · intro k hk
    rcases List.mem_append.mp hk with hk | hk
    · exact h.2 k hk
    · -- a missing parameter is a remaining named parameter, never one filled positionally
      have hm := hmiss k hk
      unfold Sig.kwOK
      simp only [Bool.and_eq_true, Bool.not_eq_true', Bool.or_eq_true, List.contains_eq_mem,
        decide_eq_false_iff_not, decide_eq_true_eq]
      constructor
      · intro hfilled
        -- names are distinct: `take n` and `drop n ++ kwOnly` are disjoint
        have hsplit : s.names = (s.pos.take n).map (·.name) ++ ((s.pos.drop n ++ s.kwOnly).map (·.name)) := by
          unfold Sig.names
          have e := List.take_append_drop n s.pos
          have e2 : s.pos.map (·.name) = (s.pos.take n).map (·.name) ++ (s.pos.drop n).map (·.name) := by
            rw [← List.map_append, e]
          rw [e2, List.map_append, List.append_assoc]
        rw [hsplit] at hnd
        exact (List.nodup_append.mp hnd).2.2 k hfilled k hm rfl
      · rw [List.map_append, List.mem_append] at hm
        rcases hm with hm | hm
        · left; left; exact hm
        · left; right; exact hm
  · intro p hp
    by_cases hd : p.hasDefault = true
    · left; exact hd
    · right
      by_cases hk : p.name ∈ kw
      · exact List.mem_append_left _ hk
      · apply List.mem_append_right
        unfold missing
        apply List.mem_map.mpr
        refine ⟨p, List.mem_filter.mpr ⟨List.mem_append_left _ hp, ?_⟩, rfl⟩
        simp [hd, hk]
  · intro p hp
    by_cases hd : p.hasDefault = true
    · left; exact hd
    · right
      by_cases hk : p.name ∈ kw
      · exact List.mem_append_left _ hk
      · apply List.mem_append_right
        unfold missing
        apply List.mem_map.mpr
        refine ⟨p, List.mem_filter.mpr ⟨List.mem_append_right _ hp, ?_⟩, rfl⟩
        simp [hd, hk]

/-- passing the target by call is always rejected -/
theorem target_rejected (sigOf : Nat → Sig) (t : Tmpl) (a : Arg) :
    ((t.kwargs.map (·.1)).contains "target" = true → t.check sigOf = false) ∧
    (t.leaf = false → t.args = a :: t.args.tail → a.isPool = true → t.check sigOf = false) := by
  constructor
  · intro h; unfold Tmpl.check; rw [h]; simp
  · intro hl ha hp
    unfold Tmpl.check
    rw [ha]
    simp [hl, hp]

/-- too many positionals, or an unknown keyword, are rejected at once -/
theorem excess_rejected (s : Sig) (n : Nat) (kw : List String) :
    (s.varPos = false → s.pos.length < n → s.bindPartial n kw = false) ∧
    (∀ k ∈ kw, s.varKw = false → k ∉ s.names → s.bindPartial n kw = false) := by
  constructor
  · intro hv hn
    simp [Sig.bindPartial, hv, Nat.not_le.mpr hn]
  · intro k hk hv hnot
    have : s.kwOK n k = false := by
      unfold Sig.kwOK Sig.names at *
      simp only [List.mem_append, not_or] at hnot
      have h1 : ((s.pos.drop n).map (·.name)).contains k = false := by
        simp only [List.contains_eq_mem, decide_eq_false_iff_not]
        intro hc
        obtain ⟨p, hp, rfl⟩ := List.mem_map.mp hc
        exact hnot.1 (List.mem_map_of_mem (List.mem_of_mem_drop hp))
      have h2 : (s.kwOnly.map (·.name)).contains k = false := by
        simpa using hnot.2
      rw [h1, h2, hv]; simp
    simp only [Sig.bindPartial, Bool.and_eq_false_iff]
    right
    rw [List.all_eq_false]
    exact ⟨k, hk, by simp [this]⟩

/-! ### currying -/

/-- the check runs at creation and at every curry call (eagerly) -/
theorem eager (sigOf : Nat → Sig) (t t' : Tmpl) (args : List Arg) (kwargs : List (String × Arg))
    (h : t.call sigOf args kwargs = some t') : t'.check sigOf = true ∧
      t' = { ctor := t.ctor, args := t.args ++ args, kwargs := t.kwargs ++ kwargs, leaf := t.leaf } := by
  unfold Tmpl.call Tmpl.new at h
  split at h
  · simp at h
  · simp only at h
    split at h
    · rename_i hc
      simp only [Option.some.injEq] at h
      subst h
      exact ⟨hc, rfl⟩
    · simp at h

/-- splitting the arguments over two calls gives the same template as supplying them at once -/
theorem curry_split (sigOf : Nat → Sig) (t t1 t2 : Tmpl) (a1 a2 : List Arg) (k1 k2 : List (String × Arg))
    (h1 : t.call sigOf a1 k1 = some t1) (h2 : t1.call sigOf a2 k2 = some t2) :
    t.call sigOf (a1 ++ a2) (k1 ++ k2) = some t2 := by
  obtain ⟨_, e1⟩ := eager sigOf t t1 a1 k1 h1
  obtain ⟨c2, e2⟩ := eager sigOf t1 t2 a2 k2 h2
  have d1 : k1.any (fun kv => (t.kwargs.map (·.1)).contains kv.1) = false := by
    unfold Tmpl.call at h1
    split at h1
    · simp at h1
    · rename_i h; simpa using h
  have d2 : k2.any (fun kv => (t1.kwargs.map (·.1)).contains kv.1) = false := by
    unfold Tmpl.call at h2
    split at h2
    · simp at h2
    · rename_i h; simpa using h
  subst e1
  have hnodup : (k1 ++ k2).any (fun kv => (t.kwargs.map (·.1)).contains kv.1) = false := by
    rw [List.any_append, d1]
    simp only [Bool.false_or]
    rw [List.any_eq_false] at d2 ⊢
    intro kv hkv
    have := d2 kv hkv
    simp only [List.map_append, List.contains_eq_mem, List.mem_append, decide_eq_true_eq, not_or] at this ⊢
    exact this.1
  unfold Tmpl.call Tmpl.new
  simp only [hnodup, Bool.false_eq_true, if_false]
  have : ({ ctor := t.ctor, args := t.args ++ (a1 ++ a2), kwargs := t.kwargs ++ (k1 ++ k2), leaf := t.leaf } : Tmpl) = t2 := by
    rw [e2]; simp [List.append_assoc]
  rw [this, c2]
  simp

/-- a keyword supplied twice over the calls is a TypeError -/
theorem duplicate_rejected (sigOf : Nat → Sig) (t : Tmpl) (args : List Arg) (kwargs : List (String × Arg))
    (k : String) (a : Arg) (hk : (k, a) ∈ kwargs) (hdup : k ∈ t.kwargs.map (·.1)) :
    t.call sigOf args kwargs = none := by
  unfold Tmpl.call
  have : kwargs.any (fun kv => (t.kwargs.map (·.1)).contains kv.1) = true := by
    rw [List.any_eq_true]
    refine ⟨(k, a), hk, ?_⟩
    simp only [List.contains_eq_mem, decide_eq_true_eq]
    exact hdup
  rw [if_pos this]

/-! ### non-vacuity -/

def c  : Item := .tmpl ⟨0, [⟨1, false⟩], [("k", ⟨9, false⟩)], false⟩
def d1 : Item := .tmpl ⟨1, [⟨2, false⟩], [], false⟩
def d2 : Item := .tmpl ⟨1, [⟨3, false⟩], [], false⟩
def p  : Item := .obj (.pool 7)
def pt : Item := .tmpl ⟨5, [], [], true⟩

open Expr in
example :
    let L := leaf
    [ eval (shift (shift (shift (L c) (L d1)) (L d2)) (L p)),
      eval (shift (L c) (shift (L d1) (shift (L d2) (L p)))),
      eval (shift (shift (L c) (L d1)) (shift (L d2) (L pt))),
      eval (shift (shift (L c) (shift (L d1) (L d2))) (L pt)),
      eval (shift (L c) (shift (shift (L d1) (L d2)) (L p))) ].map (fun r => r.isSome) = [true, true, true, true, true] := by
  decide

-- the suite's signature `(target, a, b, c=3, *, kwa=2, kwb=3)`
def exSig : Sig := ⟨[⟨"target", false⟩, ⟨"a", false⟩, ⟨"b", false⟩, ⟨"c", true⟩], false, [⟨"kwa", true⟩, ⟨"kwb", true⟩], false⟩
example : exSig.names.Nodup := by decide
example : exSig.bindPartial 2 ["kwa"] = true ∧ exSig.bindPartial 5 [] = false ∧
    exSig.bindPartial 2 ["a"] = false ∧ exSig.bindPartial 1 ["zz"] = false := by decide
example : exSig.callBinds 2 (["kwa"] ++ missing exSig 2 ["kwa"]) = true := by decide

/-! ### the source text the model was transcribed from

`cobald/interfaces/_partial.py`: `Partial` (construction with the eager signature check, currying, `>>`, `__construct__`) and `PartialBind` - the definitions `Tmpl`, `rshift`, `bindPartial`, `curry` of `Model/Partial.lean` were transcribed from them.
`Gen.runtimePins` (recomputed on every run) says for each of these functions whether its normalised
text is still the text of `harness/vh/pins.json`; a changed function breaks this theorem and the
correspondence streams are then the search for a failing input. -/

theorem gen_source_text :
    ∀ n ∈ ["partial:Partial.__init__",
     "partial:Partial._check_signature",
     "partial:Partial._signature",
     "partial:Partial.__call__",
     "partial:Partial.__construct__",
     "partial:Partial.__rshift__",
     "partial:PartialBind.__init__",
     "partial:PartialBind.__rshift__"],
      Gen.pinned n = true := by decide

end Cobald.Props.C04

/-
C07 — Composite pools conserve demand and aggregate their children faithfully.
All theorems are for arbitrary child lists (any length) over exact rationals.
-/
import CobaldVerif.Lemmas.Composite
import CobaldVerif.Generated.SrcComposite

namespace Cobald.Props.C07
open Cobald Cobald.Composite

/-- after a demand write the children's demands are exactly the shares -/
theorem children_get_shares (k : Kind) (st : St) (D : Rat) :
    (setDemand k st D).children.map (·.demand) = shares k st.children D := by
  simp only [setDemand]
  exact demands_setChildDemands _ _ (shares_length k _ D)

/-- conservation: with at least one child the shares sum to exactly `D` -/
theorem shares_sum (k : Kind) (cs : List Child) (D : Rat) (hne : cs ≠ []) :
    (shares k cs D).sum = D := by
  have hlen : (cs.length : Rat) ≠ 0 := by
    have : cs.length ≠ 0 := by simpa using hne
    exact_mod_cast this
  unfold shares
  cases k with
  | uniform => simp only; rw [sum_map_const]; field_simp
  | weighted a =>
    simp only
    split_ifs with hW
    · rw [sum_map_const]; field_simp
    · rw [sum_map_mul_div]
      unfold totalWeight sumOf at hW ⊢
      field_simp

/-- the children's demands sum to the written demand -/
theorem demand_conserved (k : Kind) (st : St) (D : Rat) (hne : st.children ≠ []) :
    ((setDemand k st D).children.map (·.demand)).sum = D := by
  rw [children_get_shares, shares_sum k _ D hne]

/-- weighted shares are proportional to the weights -/
theorem share_weighted (a : Attr) (cs : List Child) (D : Rat) (hW : totalWeight a cs ≠ 0) :
    shares (.weighted a) cs D = cs.map (fun c => D * c.get a / totalWeight a cs) := by
  simp [shares, hW]

theorem share_proportional (a : Attr) (cs : List Child) (D : Rat) (hW : totalWeight a cs ≠ 0)
    (i j : Nat) (hi : i < cs.length) (hj : j < cs.length) :
    (shares (.weighted a) cs D)[i]'(by rw [shares_length]; exact hi) * cs[j].get a =
    (shares (.weighted a) cs D)[j]'(by rw [shares_length]; exact hj) * cs[i].get a := by
  simp only [share_weighted a cs D hW, List.getElem_map]
  ring

/-- equal shares for the uniform composite and when all weights vanish -/
theorem share_uniform (k : Kind) (cs : List Child) (D : Rat)
    (h : k = .uniform ∨ ∃ a, k = .weighted a ∧ totalWeight a cs = 0) :
    shares k cs D = cs.map (fun _ => D / cs.length) := by
  rcases h with rfl | ⟨a, rfl, hW⟩ <;> simp [shares, *]

/-- each share lies between 0 and D (non-negative weights, D ≥ 0) -/
theorem share_bounds (k : Kind) (cs : List Child) (D : Rat) (hD : 0 ≤ D)
    (hw : ∀ a, k = .weighted a → ∀ c ∈ cs, 0 ≤ c.get a) :
    ∀ s ∈ shares k cs D, 0 ≤ s ∧ s ≤ D := by
  intro s hs
  have uni : ∀ s ∈ cs.map (fun _ => D / (cs.length : Rat)), 0 ≤ s ∧ s ≤ D := by
    intro s hs
    obtain ⟨c, hc, rfl⟩ := List.mem_map.mp hs
    have hpos : (1 : Rat) ≤ cs.length := by
      have : 1 ≤ cs.length := List.length_pos_of_mem hc
      exact_mod_cast this
    constructor
    · exact div_nonneg hD (by linarith)
    · rw [div_le_iff₀ (by linarith)]; nlinarith
  unfold shares at hs
  cases k with
  | uniform => exact uni s hs
  | weighted a =>
    simp only at hs
    split_ifs at hs with hW
    · exact uni s hs
    · obtain ⟨c, hc, rfl⟩ := List.mem_map.mp hs
      have hwa := hw a rfl
      have hWnn : 0 ≤ totalWeight a cs := sum_map_nonneg cs _ hwa
      have hWpos : 0 < totalWeight a cs := lt_of_le_of_ne hWnn (Ne.symm hW)
      have hcW : c.get a ≤ totalWeight a cs := le_sum_of_mem cs _ hwa c hc
      have hc0 := hwa c hc
      constructor
      · exact div_nonneg (mul_nonneg hD hc0) hWnn
      · rw [div_le_iff₀ hWpos]; nlinarith

/-- the composite reads back exactly `D` … -/
theorem demand_readback (k : Kind) (st : St) (D : Rat) : (setDemand k st D).demand = D := rfl

/-- … whatever happens to the children afterwards -/
theorem demand_readback_history (k : Kind) (st : St) (D : Rat) (ops : List Op)
    (h : ∀ o ∈ ops, ∀ D', o ≠ .setDemand D') : (run k (setDemand k st D) ops).demand = D := by
  suffices ∀ s : St, s.demand = D → (run k s ops).demand = D from this _ rfl
  induction ops with
  | nil => intro s hs; simpa [run] using hs
  | cons o ops ih =>
    intro s hs
    simp only [run, List.foldl_cons]
    apply ih (fun o' ho' => h o' (by simp [ho']))
    cases o with
    | setDemand D' => exact absurd rfl (h _ (by simp) D')
    | _ => simpa [step] using hs

/-- supply is the sum of the children's supplies -/
theorem supply_sum (st : St) : supply st = (st.children.map (·.supply)).sum := rfl

/-- utilisation / allocation stay within any range that contains all the children's values
(uniform: at least one child; weighted: non-negative weights that do not all vanish) -/
theorem fitness_in_range (k : Kind) (f : Attr) (st : St) (m M : Rat)
    (hr : ∀ c ∈ st.children, m ≤ c.get f ∧ c.get f ≤ M)
    (hk : (k = .uniform ∧ st.children ≠ []) ∨
          ∃ a, k = .weighted a ∧ totalWeight a st.children ≠ 0 ∧ ∀ c ∈ st.children, 0 ≤ c.get a) :
    m ≤ fitness k f st ∧ fitness k f st ≤ M := by
  rcases hk with ⟨rfl, hne⟩ | ⟨a, rfl, hW, hw⟩
  · have hlen : st.children.length ≠ 0 := by simpa using hne
    have hpos : (0 : Rat) < st.children.length := by
      have : 0 < st.children.length := Nat.pos_of_ne_zero hlen
      exact_mod_cast this
    simp only [fitness, hlen, if_false, sumOf]
    have h1 := sum_map_le st.children (fun _ => m) (·.get f) (fun c hc => (hr c hc).1)
    have h2 := sum_map_le st.children (·.get f) (fun _ => M) (fun c hc => (hr c hc).2)
    rw [sum_map_const] at h1 h2
    constructor
    · rw [le_div_iff₀ hpos]; linarith
    · rw [div_le_iff₀ hpos]; linarith
  · have hWnn : 0 ≤ totalWeight a st.children := sum_map_nonneg _ _ hw
    have hWpos : 0 < totalWeight a st.children := lt_of_le_of_ne hWnn (Ne.symm hW)
    simp only [fitness, hW, if_false, sumOf]
    have h1 := sum_map_le st.children (fun c => m * c.get a) (fun c => c.get f * c.get a)
      (fun c hc => mul_le_mul_of_nonneg_right (hr c hc).1 (hw c hc))
    have h2 := sum_map_le st.children (fun c => c.get f * c.get a) (fun c => M * c.get a)
      (fun c hc => mul_le_mul_of_nonneg_right (hr c hc).2 (hw c hc))
    rw [sum_map_mul_const] at h1 h2
    unfold totalWeight sumOf at hWpos ⊢
    constructor
    · rw [le_div_iff₀ hWpos]; linarith
    · rw [div_le_iff₀ hWpos]; linarith

/-- the documented fallbacks, and only those -/
theorem fitness_fallbacks (k : Kind) (f : Attr) (st : St) :
    (st.children = [] → fitness k f st = 1) ∧
    (∀ a, k = .weighted a → totalWeight a st.children = 0 →
      (0 < supply st → fitness k f st = 0) ∧ (¬ 0 < supply st → fitness k f st = 1)) := by
  constructor
  · intro h
    cases k with
    | uniform => simp [fitness, h]
    | weighted a => simp [fitness, h, totalWeight, sumOf, supply]
  · rintro a rfl hW
    simp only [fitness, hW, if_true]
    constructor <;> intro h <;> simp [h]

/-! ### the model is what the source says (regenerated on every run)

`Generated/SrcComposite.lean` is re-emitted from the text of `composite/uniform.py` and
`composite/weighted.py` by `harness/vh/translate.py` (the demand setter's loop, the `supply`,
`utilisation`, `allocation` getters with their `ZeroDivisionError` fallbacks, `_total_weight`,
`_undefined_fitness`, the initial demand of `__init__`).  These theorems equate the regenerated
definitions with the hand-written model the theorems above are about. -/

theorem gen_shares_uniform (cs : List Child) (D : Rat) :
    Gen.Composite.uniformShares cs D = shares .uniform cs D := rfl

theorem gen_shares_weighted (a : Attr) (cs : List Child) (D : Rat) :
    Gen.Composite.weightedShares a cs D = shares (.weighted a) cs D := by
  unfold Gen.Composite.weightedShares shares totalWeight
  by_cases h : sumOf (fun c => c.get a) cs = 0 <;> simp [h]

theorem gen_supply (st : St) :
    Gen.Composite.uniformSupply st.children = supply st ∧ Gen.Composite.weightedSupply st.children = supply st :=
  ⟨rfl, rfl⟩

theorem gen_init (cs : List Child) :
    Gen.Composite.uniformInitDemand cs = (init cs).demand ∧ Gen.Composite.weightedInitDemand cs = (init cs).demand :=
  ⟨rfl, rfl⟩

theorem gen_fitness_uniform (st : St) :
    Gen.Composite.uniformUtilisation st.children = fitness .uniform .util st ∧
    Gen.Composite.uniformAllocation st.children = fitness .uniform .alloc st := by
  unfold Gen.Composite.uniformUtilisation Gen.Composite.uniformAllocation fitness
  by_cases h : st.children.length = 0 <;> simp [h, Child.get]

theorem gen_fitness_weighted (a : Attr) (st : St) :
    Gen.Composite.weightedUtilisation a st.children = fitness (.weighted a) .util st ∧
    Gen.Composite.weightedAllocation a st.children = fitness (.weighted a) .alloc st := by
  unfold Gen.Composite.weightedUtilisation Gen.Composite.weightedAllocation fitness totalWeight supply
  by_cases h : sumOf (fun c => c.get a) st.children = 0
  · simp [h, Child.get]
  · simp [h, Child.get]

/-- both classes return the stored value from the `demand` getter -/
theorem gen_reads_stored :
    Gen.Composite.uniformReadsStored = true ∧ Gen.Composite.weightedReadsStored = true := ⟨rfl, rfl⟩

/-- **end to end, about the text of the source**: what the demand setters of `uniform.py` and `weighted.py`
hand to the children (as regenerated on this run) sums to the written demand and, for non-negative weights and
demand, keeps every share between 0 and the demand -/
theorem gen_conservation (a : Attr) (cs : List Child) (D : Rat) (hne : cs ≠ []) :
    (Gen.Composite.uniformShares cs D).sum = D ∧ (Gen.Composite.weightedShares a cs D).sum = D := by
  rw [gen_shares_uniform, gen_shares_weighted]
  exact ⟨shares_sum .uniform cs D hne, shares_sum (.weighted a) cs D hne⟩

theorem gen_share_bounds (a : Attr) (cs : List Child) (D : Rat) (hD : 0 ≤ D) (hw : ∀ c ∈ cs, 0 ≤ c.get a) :
    (∀ s ∈ Gen.Composite.uniformShares cs D, 0 ≤ s ∧ s ≤ D) ∧ (∀ s ∈ Gen.Composite.weightedShares a cs D, 0 ≤ s ∧ s ≤ D) := by
  rw [gen_shares_uniform, gen_shares_weighted]
  refine ⟨share_bounds .uniform cs D hD (fun b hb => by cases hb), share_bounds (.weighted a) cs D hD ?_⟩
  intro b hb c hc
  cases hb
  exact hw c hc
/-! ### non-vacuity -/

def ex : St := init [⟨3, 1/2, 1, 0⟩, ⟨6, 1/4, 1/2, 0⟩, ⟨0, 1, 1, 5⟩]

example : ex.children ≠ [] ∧ totalWeight .supply ex.children ≠ 0 ∧ ∀ c ∈ ex.children, 0 ≤ c.get .supply := by
  decide +kernel
example : (setDemand (.weighted .supply) ex 9).children.map (·.demand) = [3, 6, 0] := by decide +kernel
example : fitness (.weighted .supply) .util ex = 1/3 := by decide +kernel

end Cobald.Props.C07

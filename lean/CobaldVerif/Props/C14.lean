/-
C14 — Config sections are validated, then digested once each in constraint order.
-/
import CobaldVerif.Lemmas.Sections
import CobaldVerif.Lemmas.SectionsGen

namespace Cobald.Props.C14
open Cobald Cobald.Sections

theorem mem_dedupS' (l : List String) : ∀ a, a ∈ dedupS l ↔ a ∈ l := by
  induction l with
  | nil => simp [dedupS]
  | cons b l ih =>
    intro a
    simp only [dedupS]
    split_ifs with h
    · rw [ih] at h
      rw [ih a]
      constructor
      · intro h'; exact List.mem_cons_of_mem _ h'
      · intro h'; rcases List.mem_cons.mp h' with rfl | h'
        · exact h
        · exact h'
    · simp [ih a]

theorem mem_dedupS (a : String) (l : List String) : a ∈ dedupS l ↔ a ∈ l := mem_dedupS' l a

theorem nodup_dedupS (l : List String) : (dedupS l).Nodup := by
  induction l with
  | nil => simp [dedupS]
  | cons b l ih =>
    simp only [dedupS]
    split_ifs with h
    · exact ih
    · exact List.nodup_cons.mpr ⟨h, ih⟩

/-- the extra (dependency-only) items of toposort's preparation -/
def extras (d : Deps) : List String :=
  (dedupS ((d.map (fun (k, ds) => (k, ds.filter (· ≠ k)))).flatMap (·.2))).filter
    (· ∉ (d.map (fun (k, ds) => (k, ds.filter (· ≠ k)))).map (·.1))

theorem keys_normalise_eq (d : Deps) : keys (normalise d) = keys d ++ extras d := by
  simp [keys, normalise, extras, Function.comp_def]

theorem keys_normalise (d : Deps) (hnd : (keys d).Nodup) : (keys (normalise d)).Nodup := by
  rw [keys_normalise_eq]
  apply List.Nodup.append hnd
  · exact (nodup_dedupS _).filter _
  · intro a ha hb
    have := (List.mem_filter.mp hb).2
    simp only [decide_eq_true_eq] at this
    apply this
    simpa [keys, Function.comp_def] using ha

/-- **soundness of the ordering**: every section appears exactly once in the layers, and a
section that another one depends on sits in a strictly earlier layer — hence before it in every
order the library may choose inside the layers -/
theorem toposort_sound (d : Deps) (layers : List (List String)) (hnd : (keys d).Nodup)
    (h : toposort d = some layers) :
    layers.flatten.Perm (keys (normalise d)) ∧
    ∀ x dx, (x, dx) ∈ d → ∀ y ∈ dx, y ≠ x → LayerBefore y x layers := by
  unfold toposort at h
  have hs := peel_sound _ _ layers (keys_normalise d hnd) h
  refine ⟨hs.1, ?_⟩
  intro x dx hx y hy hne
  apply hs.2 x (dx.filter (· ≠ x))
  · unfold normalise
    apply List.mem_append_left
    exact List.mem_map.mpr ⟨(x, dx), hx, rfl⟩
  · exact List.mem_filter.mpr ⟨hy, by simpa using hne⟩
  · -- every dependency is a key of the normalised table
    rw [keys_normalise_eq]
    by_cases hk : y ∈ keys d
    · exact List.mem_append_left _ hk
    · apply List.mem_append_right
      unfold extras
      apply List.mem_filter.mpr
      constructor
      · rw [mem_dedupS]
        apply List.mem_flatMap.mpr
        refine ⟨(x, dx.filter (· ≠ x)), List.mem_map.mpr ⟨(x, dx), hx, rfl⟩, ?_⟩
        exact List.mem_filter.mpr ⟨hy, by simpa using hne⟩
      · simpa [keys, Function.comp_def] using hk

/-- the order of calls satisfies every `after` and `before` constraint between installed plugins -/
theorem order_respects (ps : List Plugin) (hnd : (ps.map (·.name)).Nodup) (layers : List (List String))
    (h : toposort (dependencies ps) = some layers) (p q : Plugin) (hp : p ∈ ps) (hq : q ∈ ps)
    (hne : p.name ≠ q.name) :
    (q.name ∈ p.after → LayerBefore q.name p.name layers) ∧
    (q.name ∈ p.before → LayerBefore p.name q.name layers) := by
  have hk : keys (dependencies ps) = ps.map (·.name) := by
    simp [keys, dependencies, Function.comp_def]
  have hs := toposort_sound (dependencies ps) layers (by rw [hk]; exact hnd) h
  constructor
  · intro ha
    apply hs.2 p.name _ (List.mem_map.mpr ⟨p, hp, rfl⟩) q.name _ (Ne.symm hne)
    rw [mem_dedupS]
    apply List.mem_append_left
    exact List.mem_filter.mpr ⟨ha, by simpa using List.mem_map_of_mem (f := (·.name)) hq⟩
  · intro hb
    apply hs.2 q.name _ (List.mem_map.mpr ⟨q, hq, rfl⟩) p.name _ hne
    rw [mem_dedupS]
    apply List.mem_append_right
    exact List.mem_map.mpr ⟨p, List.mem_filter.mpr ⟨hp, by simpa using hb⟩, rfl⟩

/-- **completeness of the ordering**: an acyclic table is always ordered - `toposort` (and hence
`load_section_plugins`) raises its circular-dependency error only when there is a cycle. Acyclic:
some rank strictly decreases along every dependency on another key -/
theorem toposort_complete (d : Deps) (rank : String → Nat)
    (hacyc : ∀ kd ∈ d, ∀ y ∈ kd.2, y ≠ kd.1 → rank y < rank kd.1) : (toposort d).isSome = true := by
  unfold toposort
  apply peel_complete rank _ _ (Nat.le_succ _)
  · -- ranked
    intro kd hkd y hy
    unfold normalise at hkd
    rcases List.mem_append.mp hkd with h | h
    · obtain ⟨kd0, hkd0, rfl⟩ := List.mem_map.mp h
      have hy' := List.mem_filter.mp hy
      exact hacyc kd0 hkd0 y hy'.1 (by simpa using hy'.2)
    · obtain ⟨k, _, rfl⟩ := List.mem_map.mp h
      simp at hy
  · -- closed
    intro kd hkd y hy
    rw [keys_normalise_eq]
    unfold normalise at hkd
    rcases List.mem_append.mp hkd with h | h
    · by_cases hk : y ∈ keys d
      · exact List.mem_append_left _ hk
      · apply List.mem_append_right
        unfold extras
        apply List.mem_filter.mpr
        constructor
        · rw [mem_dedupS]
          exact List.mem_flatMap.mpr ⟨kd, h, hy⟩
        · simpa [keys, Function.comp_def] using hk
    · obtain ⟨k, _, rfl⟩ := List.mem_map.mp h
      simp at hy

/-- for section plugins: if the before/after constraints between installed plugins are acyclic
(a rank exists that every constraint respects), the plugins are ordered - no spurious failure -/
theorem order_exists (ps : List Plugin) (rank : String → Nat)
    (hafter : ∀ p ∈ ps, ∀ a ∈ p.after, a ∈ ps.map (·.name) → a ≠ p.name → rank a < rank p.name)
    (hbefore : ∀ p ∈ ps, ∀ q ∈ ps, p.name ∈ q.before → q.name ≠ p.name → rank q.name < rank p.name) :
    (pluginLayers ps).isSome = true := by
  unfold pluginLayers
  have := toposort_complete (dependencies ps) rank ?_
  · cases h : toposort (dependencies ps) with
    | some ls => simp
    | none => rw [h] at this; simp at this
  · intro kd hkd y hy hne
    unfold dependencies at hkd
    obtain ⟨p, hp, rfl⟩ := List.mem_map.mp hkd
    simp only at hy hne ⊢
    rw [mem_dedupS] at hy
    rcases List.mem_append.mp hy with h | h
    · have h' := List.mem_filter.mp h
      exact hafter p hp y h'.1 (by simpa using h'.2) hne
    · obtain ⟨q, hq, rfl⟩ := List.mem_map.mp h
      have hq' := List.mem_filter.mp hq
      exact hbefore p hp q hq'.1 (by simpa using hq'.2) hne

/-- constraints naming plugins that are not installed never enter the table -/
theorem absent_ignored (ps : List Plugin) (x : String) (dx : List String)
    (h : (x, dx) ∈ dependencies ps) : ∀ y ∈ dx, y ∈ ps.map (·.name) := by
  intro y hy
  obtain ⟨p, _, he⟩ := List.mem_map.mp h
  simp only [Prod.mk.injEq] at he
  obtain ⟨_, rfl⟩ := he
  rw [mem_dedupS] at hy
  rcases List.mem_append.mp hy with h1 | h2
  · simpa using (List.mem_filter.mp h1).2
  · obtain ⟨q, hq, rfl⟩ := List.mem_map.mp h2
    exact List.mem_map_of_mem (List.mem_filter.mp hq).1

/-- a "strictly earlier layer" means earlier in *every* flattening that permutes inside layers -/
theorem layerBefore_any_order (y x : String) (layers : List (List String)) (h : LayerBefore y x layers) :
    ∀ (perms : List (List String)), List.Forall₂ List.Perm perms layers →
      ∃ a b c, perms.flatten = a ++ y :: b ++ x :: c := by
  induction h with
  | here l rest hy hx =>
    intro perms hp
    cases hp with
    | cons hpl hrest =>
      rename_i pl prest
      have hy' : y ∈ pl := (hpl.mem_iff).mpr hy
      have hx' : x ∈ prest.flatten := by
        have : prest.flatten.Perm rest.flatten := by
          clear hx hy hpl hy'
          induction hrest with
          | nil => simp
          | cons h1 _ ih => simp only [List.flatten_cons]; exact h1.append ih
        exact (this.mem_iff).mpr hx
      obtain ⟨a, b, rfl⟩ := List.append_of_mem hy'
      obtain ⟨c, e, he⟩ := List.append_of_mem hx'
      exact ⟨a, b ++ c, e, by simp [he]⟩
  | there l rest _ ih =>
    intro perms hp
    cases hp with
    | cons hpl hrest =>
      rename_i pl prest
      obtain ⟨a, b, c, he⟩ := ih prest hrest
      exact ⟨pl ++ a, b, c, by simp [he]⟩

/-! ### load_configuration -/

/-- an unclaimed section (other than `logging`) fails the load before any plugin has run -/
theorem unknown_section_first (order : List Plugin) (cfg : List String) (returns : String → Bool)
    (k : String) (hk : k ∈ cfg) (hlog : k ≠ "logging") (hun : ∀ p ∈ order, p.name ≠ k) :
    loadConfiguration order cfg returns = (.unknownSections, []) := by
  unfold loadConfiguration
  have : ((cfg.filter (· ≠ "logging")).any (fun k => !(order.any (fun p => p.name == k)))) = true := by
    rw [List.any_eq_true]
    refine ⟨k, List.mem_filter.mpr ⟨hk, by simpa using hlog⟩, ?_⟩
    simp only [Bool.not_eq_true', List.any_eq_false, beq_iff_eq]
    intro p hp
    simpa using hun p hp
  simp only [this, if_true]

/-- the digest loop: what has been called so far is kept, and from any point on every plugin
whose section is present is called once, in order, absent ones are skipped; a required plugin
without section stops the load with an error -/
theorem digestLoop_spec (cfg : List String) (returns : String → Bool) :
    ∀ (order : List Plugin) (log kept : List String),
      (∀ p ∈ order, p.required = true → p.name ∈ cfg) →
      digestLoop cfg returns order log kept =
        (.loaded (kept ++ ((order.filter (fun p => p.name ∈ cfg)).map (·.name)).filter returns),
         log ++ (order.filter (fun p => p.name ∈ cfg)).map (·.name))
  | [], log, kept, _ => by simp [digestLoop]
  | p :: rest, log, kept, h => by
      have hrest := digestLoop_spec cfg returns rest
      by_cases hp : p.name ∈ cfg
      · simp only [digestLoop, hp, if_true, List.filter_cons, decide_true, List.map_cons]
        rw [hrest _ _ (fun q hq => h q (by simp [hq]))]
        by_cases hr : returns p.name = true <;> simp [hr, List.filter_cons]
      · have hnr : p.required = false := by
          by_contra hc
          exact hp (h p (by simp) (by simpa using hc))
        simp only [digestLoop, hp, if_false, hnr, Bool.false_eq_true, List.filter_cons, decide_false]
        exact hrest _ _ (fun q hq => h q (by simp [hq]))

theorem digest_log (order : List Plugin) (cfg : List String) (returns : String → Bool)
    (hknown : ∀ k ∈ cfg, k ≠ "logging" → ∃ p ∈ order, p.name = k)
    (hreq : ∀ p ∈ order, p.required = true → p.name ∈ cfg ∧ p.name ≠ "logging") :
    loadConfiguration order cfg returns =
      (.loaded (((order.filter (fun p => p.name ∈ cfg.filter (· ≠ "logging"))).map (·.name)).filter returns),
       (order.filter (fun p => p.name ∈ cfg.filter (· ≠ "logging"))).map (·.name)) := by
  unfold loadConfiguration
  have : ((cfg.filter (· ≠ "logging")).any (fun k => !(order.any (fun p => p.name == k)))) = false := by
    rw [List.any_eq_false]
    intro k hk
    obtain ⟨hk1, hk2⟩ := List.mem_filter.mp hk
    obtain ⟨p, hp, rfl⟩ := hknown k hk1 (by simpa using hk2)
    have hany : (order.any (fun q => q.name == p.name)) = true := List.any_eq_true.mpr ⟨p, hp, by simp⟩
    simp [hany]
  simp only [this, Bool.false_eq_true, if_false]
  rw [digestLoop_spec]
  · simp
  · intro p hp hr
    have := hreq p hp hr
    exact List.mem_filter.mpr ⟨this.1, by simpa using this.2⟩

/-- a required plugin whose section is missing makes loading fail -/
theorem required_missing (cfg : List String) (returns : String → Bool) :
    ∀ (order : List Plugin) (log kept : List String) (p : Plugin), p ∈ order → p.required = true →
      p.name ∉ cfg → ∃ s log', digestLoop cfg returns order log kept = (.missingRequired s, log')
  | [], _, _, p, hp, _, _ => by simp at hp
  | q :: rest, log, kept, p, hp, hr, hn => by
      by_cases hq : q.name ∈ cfg
      · have hpr : p ∈ rest := by
          rcases List.mem_cons.mp hp with rfl | h
          · exact absurd hq hn
          · exact h
        simp only [digestLoop, hq, if_true]
        exact required_missing cfg returns rest _ _ p hpr hr hn
      · by_cases hqr : q.required = true
        · exact ⟨q.name, log, by simp [digestLoop, hq, hqr]⟩
        · have hpr : p ∈ rest := by
            rcases List.mem_cons.mp hp with rfl | h
            · exact absurd hr hqr
            · exact h
          simp only [digestLoop, hq, if_false, hqr]
          exact required_missing cfg returns rest _ _ p hpr hr hn

/-! ### non-vacuity -/

def exPs : List Plugin :=
  [⟨"c", false, [], ["a", "zz"]⟩, ⟨"a", true, ["b", "zz"], []⟩, ⟨"b", false, [], []⟩]

example : toposort (dependencies exPs) = some [["a"], ["c", "b"]] := by decide
example : (exPs.map (·.name)).Nodup := by decide
-- the premises of `order_exists` hold for these plugins with the rank a < b, c
def exRank (n : String) : Nat := if n = "a" then 0 else 1
example : (∀ p ∈ exPs, ∀ a ∈ p.after, a ∈ exPs.map (·.name) → a ≠ p.name → exRank a < exRank p.name) ∧
    (∀ p ∈ exPs, ∀ q ∈ exPs, p.name ∈ q.before → q.name ≠ p.name → exRank q.name < exRank p.name) := by
  decide

/-! ### the source's loops (`Generated/SrcSections.lean`, regenerated on every run from
`core/config.py load_section_plugins` and `config/mapping.py load_configuration`) -/

/-- **the table the source builds is the model's table**: same keys in the same order, and for every key the
same set of dependencies -/
theorem gen_dependencies_equiv (ps : List Plugin) :
    (Gen.Sections.dependencies ps).map (·.1) = (dependencies ps).map (·.1) ∧
    ∀ k x, Has (Gen.Sections.dependencies ps) k x ↔ Has (dependencies ps) k x := by
  have hkeys : ∀ (F : Plugin → List String), (ps.map (fun p => (p.name, F p))).map (·.1) = ps.map (·.name) := by
    intro F; rw [List.map_map]; rfl
  constructor
  · rw [gen_dependencies_fold]
    have : ∀ (es : List (String × String)) (d : Deps),
        (es.foldl (fun d e => Gen.Sections.addDep d e.1 e.2) d).map (·.1) = d.map (·.1) := by
      intro es; induction es with
      | nil => intro d; rfl
      | cons e es ih => intro d; rw [List.foldl_cons, ih, keys_addDep]
    rw [this, hkeys]
    unfold dependencies
    exact (hkeys _).symm
  · intro k x
    rw [gen_dependencies_fold, has_foldl_addDep, hkeys, has_table, mem_edges]
    unfold dependencies
    rw [has_table]
    constructor
    · rintro (⟨p, hp, hk, hx⟩ | ⟨⟨q, hq, hb, -, hqx⟩, hkn⟩)
      · refine ⟨p, hp, hk, ?_⟩
        rw [mem_dedupS]; exact List.mem_append_left _ hx
      · obtain ⟨p, hp, hpk⟩ := List.mem_map.mp hkn
        refine ⟨p, hp, hpk, ?_⟩
        rw [mem_dedupS]; apply List.mem_append_right
        refine List.mem_map.mpr ⟨q, List.mem_filter.mpr ⟨hq, ?_⟩, hqx⟩
        have : p.name = k := hpk
        rw [this]; exact decide_eq_true hb
    · rintro ⟨p, hp, hk, hx⟩
      rw [mem_dedupS] at hx
      rcases List.mem_append.mp hx with hx | hx
      · exact .inl ⟨p, hp, hk, hx⟩
      · obtain ⟨q, hq, hqx⟩ := List.mem_map.mp hx
        have hq' := List.mem_filter.mp hq
        have hb : p.name ∈ q.before := of_decide_eq_true hq'.2
        refine .inr ⟨⟨q, hq'.1, hk ▸ hb, ?_, hqx⟩, ?_⟩
        · exact hk ▸ List.mem_map.mpr ⟨p, hp, rfl⟩
        · exact hk ▸ List.mem_map.mpr ⟨p, hp, rfl⟩
/-- the digest loop of `load_configuration` as written in the source is the model's -/
theorem gen_digest_eq (cfg : List String) (returns : String → Bool) : ∀ (order : List Plugin) (log kept : List String),
    Gen.Sections.digestLoop cfg returns order log kept = digestLoop cfg returns order log kept := by
  intro order
  induction order with
  | nil => intros; rfl
  | cons p rest ih => intro log kept; simp only [Gen.Sections.digestLoop, digestLoop, ih]

/-- `load_configuration` as written in the source: the one built-in section is taken out first, any other
section without a plugin ends loading before a plugin is called, then the digest loop runs -/
theorem gen_load_eq (order : List Plugin) (cfg : List String) (returns : String → Bool) :
    loadConfiguration order cfg returns =
      (let cfg' := cfg.filter (· ≠ Gen.Sections.builtinSection)
       if Gen.Sections.unknownCheck order cfg' then (.unknownSections, [])
       else Gen.Sections.digestLoop cfg' returns order [] []) := by
  unfold loadConfiguration Gen.Sections.unknownCheck Gen.Sections.builtinSection
  simp only [gen_digest_eq]

/-- what the model's table says, read off the plugins: `x` is a dependency of `k` iff `k` is installed and
either lists the installed `x` in `after`, or the installed plugin `x` lists `k` in `before` -/
theorem has_dependencies (ps : List Plugin) (k x : String) :
    Has (dependencies ps) k x ↔
      ∃ p ∈ ps, p.name = k ∧ ((x ∈ p.after ∧ x ∈ ps.map (·.name)) ∨ ∃ q ∈ ps, k ∈ q.before ∧ q.name = x) := by
  unfold dependencies
  rw [has_table]
  constructor
  · rintro ⟨p, hp, hk, hx⟩
    refine ⟨p, hp, hk, ?_⟩
    rw [mem_dedupS] at hx
    rcases List.mem_append.mp hx with hx | hx
    · have := List.mem_filter.mp hx
      exact .inl ⟨this.1, of_decide_eq_true this.2⟩
    · obtain ⟨q, hq, hqx⟩ := List.mem_map.mp hx
      have hq' := List.mem_filter.mp hq
      exact .inr ⟨q, hq'.1, hk ▸ of_decide_eq_true hq'.2, hqx⟩
  · rintro ⟨p, hp, hk, h⟩
    refine ⟨p, hp, hk, ?_⟩
    rw [mem_dedupS]
    rcases h with ⟨ha, hn⟩ | ⟨q, hq, hb, hqx⟩
    · exact List.mem_append_left _ (List.mem_filter.mpr ⟨ha, decide_eq_true hn⟩)
    · exact List.mem_append_right _ (List.mem_map.mpr ⟨q, List.mem_filter.mpr ⟨hq, decide_eq_true (hk ▸ hb)⟩, hqx⟩)

/-- **end to end for the source's loops**: whatever layers `toposort` finds for the table that the two loops of
`load_section_plugins` build, they put every installed plugin after the installed plugins it names in `after` and
before those it names in `before` -/
theorem gen_order_respects (ps : List Plugin) (hnd : (ps.map (·.name)).Nodup) (layers : List (List String))
    (h : toposort (Gen.Sections.dependencies ps) = some layers) (p q : Plugin) (hp : p ∈ ps) (hq : q ∈ ps)
    (hne : p.name ≠ q.name) :
    (q.name ∈ p.after → LayerBefore q.name p.name layers) ∧
    (q.name ∈ p.before → LayerBefore p.name q.name layers) := by
  have heq := gen_dependencies_equiv ps
  have hk : keys (Gen.Sections.dependencies ps) = ps.map (·.name) := by
    unfold keys; rw [heq.1]; simp [dependencies, Function.comp_def]
  have hs := toposort_sound (Gen.Sections.dependencies ps) layers (by rw [hk]; exact hnd) h
  constructor
  · intro ha
    have : Has (Gen.Sections.dependencies ps) p.name q.name :=
      (heq.2 _ _).mpr ((has_dependencies ps _ _).mpr ⟨p, hp, rfl, .inl ⟨ha, List.mem_map.mpr ⟨q, hq, rfl⟩⟩⟩)
    obtain ⟨ds, hm, hx⟩ := this
    exact hs.2 p.name ds hm q.name hx (Ne.symm hne)
  · intro hb
    have : Has (Gen.Sections.dependencies ps) q.name p.name :=
      (heq.2 _ _).mpr ((has_dependencies ps _ _).mpr ⟨q, hq, rfl, .inr ⟨p, hp, hb, rfl⟩⟩)
    obtain ⟨ds, hm, hx⟩ := this
    exact hs.2 q.name ds hm p.name hx hne

/-- ... and if the constraints between installed plugins are acyclic, `toposort` does find layers for the table the
loops build: no spurious circular-dependency error -/
theorem gen_order_exists (ps : List Plugin) (rank : String → Nat)
    (hafter : ∀ p ∈ ps, ∀ a ∈ p.after, a ∈ ps.map (·.name) → a ≠ p.name → rank a < rank p.name)
    (hbefore : ∀ p ∈ ps, ∀ q ∈ ps, p.name ∈ q.before → q.name ≠ p.name → rank q.name < rank p.name) :
    (toposort (Gen.Sections.dependencies ps)).isSome = true := by
  apply toposort_complete _ rank
  intro kd hkd y hy hne
  have : Has (dependencies ps) kd.1 y := ((gen_dependencies_equiv ps).2 _ _).mp ⟨kd.2, hkd, hy⟩
  obtain ⟨p, hp, hk, h⟩ := (has_dependencies ps _ _).mp this
  rcases h with ⟨ha, hn⟩ | ⟨q, hq, hb, hqx⟩
  · rw [← hk]; exact hafter p hp y ha hn (by rw [hk]; exact hne)
  · rw [← hk, ← hqx]; exact hbefore p hp q hq (by rw [hk]; exact hb) (by rw [hk, hqx]; exact hne)
end Cobald.Props.C14

/-
C08 — Controllers move demand only in the documented direction and amount.
-/
import CobaldVerif.Lemmas.Controllers
import CobaldVerif.Generated.Src
import CobaldVerif.Generated.SrcControllers
import Mathlib.Tactic.Ring

namespace Cobald.Props.C08
open Cobald Cobald.Controllers

/-! ### LinearController -/

def delta (c : Linear) (i : Rat) (p : Pool) : Rat := (linearStep c i p).demand - p.demand

/-- a step changes demand by at most rate × interval -/
theorem linear_bound (c : Linear) (i : Rat) (p : Pool) (hc : c.ok) (hi : 0 ≤ i) :
    |delta c i p| ≤ c.rate * i := by
  have h : 0 ≤ i * c.rate := mul_nonneg hi hc.1.le
  unfold delta linearStep
  split_ifs <;> simp <;> (try rw [abs_of_nonneg h]) <;> linarith

/-- downwards only (and then exactly) if utilisation is below low_utilisation -/
theorem linear_down_iff (c : Linear) (i : Rat) (p : Pool) (hc : c.ok) (hi : 0 < i) :
    delta c i p < 0 ↔ p.util < c.low := by
  have h : 0 < i * c.rate := mul_pos hi hc.1
  unfold delta linearStep
  split_ifs with h1 h2 <;> simp [h1] <;> linarith

/-- upwards only if allocation is above high_allocation -/
theorem linear_up_only (c : Linear) (i : Rat) (p : Pool) (hc : c.ok) (hi : 0 ≤ i) :
    0 < delta c i p → c.high < p.alloc := by
  have h : 0 ≤ i * c.rate := mul_nonneg hi hc.1.le
  unfold delta linearStep
  split_ifs with h1 h2 <;> simp <;> intro h' <;> first | exact h2 | linarith

/-- by exactly rate × interval when exactly one of the two conditions holds -/
theorem linear_exact (c : Linear) (i : Rat) (p : Pool) :
    (p.util < c.low ∧ ¬ c.high < p.alloc → delta c i p = -(c.rate * i)) ∧
    (¬ p.util < c.low ∧ c.high < p.alloc → delta c i p = c.rate * i) := by
  unfold delta linearStep
  constructor <;> rintro ⟨h1, h2⟩ <;> simp [h1, h2] <;> ring

/-- not at all when neither holds -/
theorem linear_none (c : Linear) (i : Rat) (p : Pool) (h1 : ¬ p.util < c.low) (h2 : ¬ c.high < p.alloc) :
    linearStep c i p = p := by
  simp [linearStep, h1, h2]

/-- nothing but demand is touched -/
theorem linear_frame (c : Linear) (i : Rat) (p : Pool) :
    (linearStep c i p).supply = p.supply ∧ (linearStep c i p).util = p.util ∧
    (linearStep c i p).alloc = p.alloc := by
  unfold linearStep; split_ifs <;> simp

/-- any sequence of steps, with arbitrary changes of supply/utilisation/allocation in between:
after `n` steps demand has moved by at most n × rate × interval -/
theorem linear_n_steps (c : Linear) (i : Rat) (hc : c.ok) (hi : 0 ≤ i)
    (envs : List (Pool → Pool)) (henv : ∀ e ∈ envs, ∀ p, (e p).demand = p.demand) (p : Pool) :
    |(envs.foldl (fun q e => linearStep c i (e q)) p).demand - p.demand| ≤ envs.length * (c.rate * i) := by
  induction envs generalizing p with
  | nil => simp
  | cons e es ih =>
    simp only [List.foldl_cons, List.length_cons]
    have h1 := ih (fun e' he' => henv e' (by simp [he'])) (linearStep c i (e p))
    have h2 := linear_bound c i (e p) hc hi
    have h3 := henv e (by simp) p
    unfold delta at h2
    rw [h3] at h2
    have := abs_sub_le (List.foldl (fun q e => linearStep c i (e q)) (linearStep c i (e p)) es).demand
      (linearStep c i (e p)).demand p.demand
    push_cast
    linarith

/-! ### RelativeSupplyController -/

theorem relsupply_cases (c : RelSupply) (p : Pool) :
    (p.util < c.low → (relStep c p).demand = p.supply * c.lowScale) ∧
    (¬ p.util < c.low → c.high < p.alloc → (relStep c p).demand = p.supply * c.highScale) ∧
    (¬ p.util < c.low → ¬ c.high < p.alloc → (relStep c p).demand = p.supply) := by
  unfold relStep
  refine ⟨fun h => ?_, fun h1 h2 => ?_, fun h1 h2 => ?_⟩ <;> simp [*]

/-! ### Stepwise -/

/-- the lookup finds the rule with the greatest supply threshold not above the current supply,
whatever the declaration order of the rules -/
theorem getRule_greatest (base : RuleId) (rules : List (Rat × RuleId)) (l : Lookup)
    (hc : compile base rules = some l) (hnd : (rules.map (·.1)).Nodup) (s : Rat) (hs : 0 ≤ s)
    (t : Rat) (r : RuleId) (hm : (t, r) ∈ rules) (hts : t ≤ s)
    (hmax : ∀ y ∈ rules, y.1 ≤ s → y.1 ≤ t) : getRule l s = some r := by
  unfold compile at hc
  simp only at hc
  split_ifs at hc
  cases hc
  rw [getRule_mkRanges 0 base _ s hs (strict_sortRules rules hnd)]
  congr 1
  exact select_greatest base _ s (strict_sortRules rules hnd) t r ((mem_sortRules _ _).mpr hm) hts
    (fun y hy => hmax y ((mem_sortRules _ _).mp hy))

/-- … else the base rule -/
theorem getRule_base (base : RuleId) (rules : List (Rat × RuleId)) (l : Lookup)
    (hc : compile base rules = some l) (hnd : (rules.map (·.1)).Nodup) (s : Rat) (hs : 0 ≤ s)
    (hnone : ∀ y ∈ rules, s < y.1) : getRule l s = some base := by
  unfold compile at hc
  simp only at hc
  split_ifs at hc
  cases hc
  rw [getRule_mkRanges 0 base _ s hs (strict_sortRules rules hnd)]
  congr 1
  exact select_none base _ s (fun y hy => hnone y ((mem_sortRules _ _).mp hy))

/-- a negative supply finds no rule at all (the real code then raises) -/
theorem getRule_neg (base : RuleId) (l : Lookup) (hc : compile base [] = some l) (s : Rat) (hs : s < 0) :
    getRule l s = none := by
  simp [compile, sortRules, mkRanges, rangesOk] at hc
  subst hc
  simp [getRule, not_le.mpr hs]

/-- exactly one rule is applied per step; `None` leaves demand untouched -/
theorem stepwise_once (l : Lookup) (rule : RuleId → Pool → Rat → Option Rat) (i : Rat) (p p' : Pool)
    (r : RuleId) (h : stepwiseStep l rule i p = some (p', r)) :
    getRule l p.supply = some r ∧
    (rule r p i = none → p' = p) ∧ (∀ d, rule r p i = some d → p' = { p with demand := d }) := by
  unfold stepwiseStep at h
  split at h
  · simp at h
  · rename_i r0 hr
    split at h <;> simp at h <;> obtain ⟨rfl, rfl⟩ := h <;> simp_all

/-! ### DemandSwitch -/

/-- the step is delegated to the controller with the greatest demand threshold not above the
current demand … -/
theorem switch_select (dflt : CtlId) (slaves : List (Rat × CtlId)) (hnd : (slaves.map (·.1)).Nodup)
    (demand : Rat) (t : Rat) (c : CtlId) (hm : (t, c) ∈ slaves) (ht : t ≤ demand)
    (hmax : ∀ y ∈ slaves, y.1 ≤ demand → y.1 ≤ t) :
    switchSelect dflt (sortRules slaves) demand = c :=
  select_greatest dflt _ demand (strict_sortRules slaves hnd) t c ((mem_sortRules _ _).mpr hm) ht
    (fun y hy => hmax y ((mem_sortRules _ _).mp hy))

/-- … else to the default -/
theorem switch_default (dflt : CtlId) (slaves : List (Rat × CtlId)) (demand : Rat)
    (hnone : ∀ y ∈ slaves, demand < y.1) : switchSelect dflt (sortRules slaves) demand = dflt :=
  select_none dflt _ demand (fun y hy => hnone y ((mem_sortRules _ _).mp hy))

/-- exactly one controller acts, on the switch's own target -/
theorem switch_once (dflt : CtlId) (slaves : List (Rat × CtlId)) (act : CtlId → Rat → Pool → Pool)
    (i : Rat) (p : Pool) :
    switchStep dflt slaves act i p =
      (act (switchSelect dflt (sortRules slaves) p.demand) i p, switchSelect dflt (sortRules slaves) p.demand) := rfl

/-! ### non-vacuity -/

example : compile 0 [(10, 1), (5/2, 2), (100, 3)] = some [(0, some (5/2), 0), (5/2, some 10, 2), (10, some 100, 1), (100, none, 3)] := by
  decide +kernel
example : getRule [(0, some (5/2), 0), (5/2, some 10, 2), (10, some 100, 1), (100, none, 3)] 10 = some 1 := by
  decide +kernel
example : ([(10, 1), (5/2, 2), (100, 3)] : List (Rat × Nat)).map (·.1) |>.Nodup := by decide +kernel
example : delta ⟨1/2, 1/2, 3⟩ 2 ⟨10, 7, 1/4, 1⟩ = -6 := by decide +kernel
example : (⟨1/2, 1/2, 3⟩ : Linear).ok := by decide +kernel

/-! ### the source's `regulate` methods

`Generated/Src.lean` is re-emitted from the text of `controller/linear.py` and
`controller/relative_supply.py` on every run. -/

/-- `LinearController.regulate` as written in the source is the model's `linearStep` -/
theorem gen_linear_eq (c : Linear) (interval : Rat) (p : Pool) :
    Gen.linearRegulate p.util p.alloc p.demand c.low c.high c.rate interval = (linearStep c interval p).demand ∧
    (linearStep c interval p).supply = p.supply ∧ (linearStep c interval p).util = p.util ∧
    (linearStep c interval p).alloc = p.alloc := by
  unfold Gen.linearRegulate linearStep
  split <;> (try split) <;> simp

/-- `RelativeSupplyController.regulate` as written in the source is the model's `relStep` -/
theorem gen_relsupply_eq (c : RelSupply) (p : Pool) :
    Gen.relSupplyRegulate p.util p.alloc p.supply p.demand c.low c.high c.lowScale c.highScale = (relStep c p).demand := by
  unfold Gen.relSupplyRegulate relStep
  split <;> (try split) <;> simp

/-! ### the source's selection loops (`Generated/SrcControllers.lean`, from `controller/switch.py`
and `controller/stepwise.py`) -/

/-- `DemandSwitch.regulate` as written in the source selects the model's controller -/
theorem gen_switch_select_eq (dflt : CtlId) (sorted : List (Rat × CtlId)) (demand : Rat) :
    Gen.Controllers.switchSelect dflt sorted demand = switchSelect dflt sorted demand := rfl

/-- `RangeSelector.get_rule` as written in the source is the model's `getRule` -/
theorem gen_get_rule_eq (l : Lookup) (s : Rat) : Gen.Controllers.getRule l s = getRule l s := by
  induction l with
  | nil => rfl
  | cons x rest ih =>
    obtain ⟨low, high, r⟩ := x
    simp only [Gen.Controllers.getRule, getRule, ih]

/-- `_compile_lookup` starts the ranges at the model's first lower bound, and the constructor / `run`
have the modelled shape (slaves sorted, everyone bound to the switch's target; one lookup, one rule
call, one conditional write per period) -/
theorem gen_shapes :
    (∀ base rules, compile base rules =
      (let l := mkRanges Gen.Controllers.compileFirstLow base (sortRules rules); if rangesOk l then some l else none)) ∧
    Gen.Controllers.switchCtorShape = true ∧ Gen.Controllers.stepwiseRunShape = true :=
  ⟨fun _ _ => rfl, rfl, rfl⟩
end Cobald.Props.C08

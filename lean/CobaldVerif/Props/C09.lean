/-
C09 — Periodic services act once per interval, for as long as they run.
The clock contract of trio (a sleep of d ends d later, the body takes no virtual time) is an
assumption of the model (Model/Periodic.lean); under it:
-/
import CobaldVerif.Model.Periodic
import CobaldVerif.Generated.Src
import CobaldVerif.Props.C08
import Mathlib.Data.Rat.Floor
import Mathlib.Tactic.FieldSimp

namespace Cobald.Props.C09
open Cobald Cobald.Controllers Cobald.Periodic

/-- one step immediately, then exactly one per interval (act-first loops); the first after one
interval for the sleep-first loop of FactoryPool -/
theorem wake_times (pre : Bool) (i : Rat) (k : Nat) :
    actTime false i 0 = 0 ∧ actTime true i 0 = i ∧ actTime pre i (k + 1) = actTime pre i k + i := by
  refine ⟨by simp [actTime], by simp [actTime], ?_⟩
  unfold actTime; push_cast; ring

/-- the loop has no exit: for every n there is an (n+1)-th action, later than the n-th -/
theorem runs_forever (pre : Bool) (i : Rat) (hi : 0 < i) (n : Nat) : actTime pre i n < actTime pre i (n + 1) := by
  rw [(wake_times pre i n).2.2]; linarith

/-- the number of actions up to time T: the k-th action (k = 0, 1, …) of an act-first loop has
happened by T iff k ≤ ⌊T / interval⌋, i.e. ⌊T/interval⌋ + 1 actions in [0, T] -/
theorem count_in_span (i T : Rat) (hi : 0 < i) (k : Nat) :
    actTime false i k ≤ T ↔ (k : Int) ≤ ⌊T / i⌋ := by
  unfold actTime
  simp only [Bool.false_eq_true, if_false, add_zero]
  rw [Int.le_floor, le_div_iff₀ hi]
  simp

theorem count_in_span_pre (i T : Rat) (hi : 0 < i) (k : Nat) :
    actTime true i k ≤ T ↔ ((k : Int) + 1) ≤ ⌊T / i⌋ := by
  unfold actTime
  simp only [if_true]
  rw [Int.le_floor, le_div_iff₀ hi]
  push_cast
  rfl

/-! ### LinearController: drift bound -/

theorem abs_sub_seq (d : Nat → Rat) (B : Rat) (hB : ∀ k, |d (k + 1) - d k| ≤ B) :
    ∀ m n, m ≤ n → |d n - d m| ≤ ((n : Rat) - m) * B := by
  intro m n hmn
  induction n with
  | zero =>
    have : m = 0 := by omega
    subst this; simp
  | succ n ih =>
    by_cases h : m = n + 1
    · subst h; simp
    · have hmn' : m ≤ n := by omega
      have h1 := ih hmn'
      have h2 := hB n
      have h3 := abs_sub_le (d (n + 1)) (d n) (d m)
      push_cast
      linarith

/-- every entry of a LinearController trace differs from its predecessor by at most
rate × interval (environment actions never touch demand) -/
theorem linear_trace_bound (c : Linear) (i : Rat) (hc : c.ok) (hi : 0 ≤ i) :
    ∀ (es : List Ev) (p : Pool),
      List.IsChain (fun a b : Pool => |b.demand - a.demand| ≤ c.rate * i) (p :: runCtl (linearStep c i) p es) := by
  intro es
  induction es with
  | nil => intro p; simp [runCtl]
  | cons e es ih =>
    intro p
    have hB : 0 ≤ c.rate * i := mul_nonneg hc.1.le hi
    cases e with
    | step =>
      simp only [runCtl]
      refine List.IsChain.cons_cons ?_ (ih _)
      exact C08.linear_bound c i p hc hi
    | env f x =>
      simp only [runCtl]
      refine List.IsChain.cons_cons ?_ (ih _)
      unfold setPool
      split <;> simpa using hB
    | write x =>
      simp only [runCtl]
      refine List.IsChain.cons_cons ?_ (ih _)
      simpa using hB

/-- **drift**: if d k is the demand after the k-th step (d 0 after the immediate first one),
demand changes by at most rate × (span + interval) over any time span [t1, t2] — the demand at
time t being the one after the last step at or before t -/
theorem linear_drift (d : Nat → Rat) (rate i : Rat) (hr : 0 < rate) (hi : 0 < i)
    (hstep : ∀ k, |d (k + 1) - d k| ≤ rate * i) (t1 t2 : Rat) (h0 : 0 ≤ t1) (h12 : t1 ≤ t2) :
    |d ⌊t2 / i⌋.toNat - d ⌊t1 / i⌋.toNat| ≤ rate * ((t2 - t1) + i) := by
  have hf1 : 0 ≤ ⌊t1 / i⌋ := Int.floor_nonneg.mpr (div_nonneg h0 hi.le)
  have hmono : ⌊t1 / i⌋ ≤ ⌊t2 / i⌋ := Int.floor_le_floor (div_le_div_of_nonneg_right h12 hi.le)
  have hf2 : 0 ≤ ⌊t2 / i⌋ := le_trans hf1 hmono
  have hmn : ⌊t1 / i⌋.toNat ≤ ⌊t2 / i⌋.toNat := Int.toNat_le_toNat hmono
  have h := abs_sub_seq d (rate * i) hstep _ _ hmn
  have c1 : ((⌊t1 / i⌋.toNat : Nat) : Rat) = (⌊t1 / i⌋ : Rat) := by
    have := Int.toNat_of_nonneg hf1
    exact_mod_cast congrArg (fun z : Int => (z : Rat)) this
  have c2 : ((⌊t2 / i⌋.toNat : Nat) : Rat) = (⌊t2 / i⌋ : Rat) := by
    have := Int.toNat_of_nonneg hf2
    exact_mod_cast congrArg (fun z : Int => (z : Rat)) this
  rw [c1, c2] at h
  have e1 : (⌊t2 / i⌋ : Rat) ≤ t2 / i := Int.floor_le _
  have e2 : t1 / i < (⌊t1 / i⌋ : Rat) + 1 := Int.lt_floor_add_one _
  have hdiff : ((⌊t2 / i⌋ : Rat) - ⌊t1 / i⌋) ≤ (t2 - t1) / i + 1 := by
    have : t2 / i - t1 / i = (t2 - t1) / i := by ring
    linarith
  have hri : 0 ≤ rate * i := (mul_pos hr hi).le
  calc |d ⌊t2 / i⌋.toNat - d ⌊t1 / i⌋.toNat| ≤ ((⌊t2 / i⌋ : Rat) - ⌊t1 / i⌋) * (rate * i) := h
    _ ≤ ((t2 - t1) / i + 1) * (rate * i) := mul_le_mul_of_nonneg_right hdiff hri
    _ = rate * ((t2 - t1) + i) := by field_simp

/-! ### Buffer -/

/-- at every window boundary the target's demand becomes the value most recently written -/
theorem buffer_flush (b : BufSt) : (bufStep b).target = b.stored ∧ (bufStep b).stored = b.stored := by
  unfold bufStep
  split_ifs with h
  · simp
  · push_neg at h; simp [h]

/-- between boundaries nothing is forwarded: a write only changes the stored value -/
theorem buffer_quiet (b : BufSt) (x : Rat) (es : List Ev) :
    (runBuf b (.write x :: es)).head? = some { b with stored := x } := by
  simp [runBuf]

/-- history form: after any timed history, the target's demand is the value the buffer held at
the last boundary (or the initial one if no boundary has passed) -/
theorem buffer_history : ∀ (es : List Ev) (b : BufSt),
    (runBuf b es).getLast? = none ∨
    ∃ s, (runBuf b es).getLast? = some s ∧
      ((∀ e ∈ es, e matches .step → False) → s.target = b.target) := by
  intro es
  induction es with
  | nil => intro b; left; simp [runBuf]
  | cons e es ih =>
    intro b
    right
    cases e with
    | step =>
      simp only [runBuf]
      rcases ih (bufStep b) with h | ⟨s, hs, _⟩
      · have : runBuf (bufStep b) es = [] := by simpa using h
        exact ⟨bufStep b, by simp [this], fun h => absurd (h .step (by simp) rfl) id⟩
      · exact ⟨s, by rw [List.getLast?_cons_of_ne_nil] <;> [exact hs; (intro h; simp [h] at hs)],
          fun h => absurd (h .step (by simp) rfl) id⟩
    | env f x =>
      simp only [runBuf]
      rcases ih b with h | ⟨s, hs, hq⟩
      · have : runBuf b es = [] := by simpa using h
        exact ⟨b, by simp [this], fun _ => rfl⟩
      · exact ⟨s, by rw [List.getLast?_cons_of_ne_nil] <;> [exact hs; (intro h; simp [h] at hs)],
          fun h => hq (fun e he => h e (by simp [he]))⟩
    | write x =>
      simp only [runBuf]
      rcases ih { b with stored := x } with h | ⟨s, hs, hq⟩
      · have : runBuf { b with stored := x } es = [] := by simpa using h
        exact ⟨{ b with stored := x }, by simp [this], fun _ => rfl⟩
      · exact ⟨s, by rw [List.getLast?_cons_of_ne_nil] <;> [exact hs; (intro h; simp [h] at hs)],
          fun h => hq (fun e he => h e (by simp [he]))⟩

/-! ### non-vacuity -/

example : actTime false (5/2) 4 = 10 ∧ actTime true (5/2) 4 = 25/2 := by decide +kernel
example : (runBuf ⟨3, 3⟩ [.write 7, .write 9, .step, .write 1]).map (·.target) = [3, 3, 9, 9] := by decide +kernel
example : (⟨1/2, 1/2, 3⟩ : Linear).ok := by decide +kernel

/-! ### the shape of the `run` loops as they stand in the source

`Generated/Src.lean` is re-emitted from the text of the six `run` methods on every run: each is one
endless loop with exactly one sleep of one period per iteration, placed last (act, then sleep) or
first (sleep, then act).  The theorems above are instantiated accordingly (`actTime pre …`), and the
driver of the correspondence reads `pre` from these constants. -/

/-- the controllers and the Buffer act first and then sleep; the FactoryPool sleeps first -/
theorem gen_loop_shapes :
    Gen.sleepsFirstLinear = false ∧ Gen.sleepsFirstRel = false ∧ Gen.sleepsFirstSwitch = false ∧
    Gen.sleepsFirstStepwise = false ∧ Gen.sleepsFirstBuffer = false ∧ Gen.sleepsFirstFactory = true := by
  decide

end Cobald.Props.C09

/-
C17 — Monitoring output is well-formed and lossless.
The round trip is against the reference decoder `decodeLine` of Model/LineProtocol.lean.
-/
import CobaldVerif.Lemmas.LineProtocol
import CobaldVerif.Generated.Src
import Mathlib.Data.Rat.Floor
import Mathlib.Tactic.Linarith
import Mathlib.Tactic.FieldSimp

namespace Cobald.Props.C17
open Cobald Cobald.LP

/-- exactly what the line protocol can express (the property's exclusions): no trailing
backslash in the name, tag keys, tag values and field keys; unquoted values (numbers,
booleans, the timestamp) are free of separators and do not start with a quote; a field key
does not start with a line break. String field values are unrestricted. -/
structure WF (r : Rec) : Prop where
  name : noTrailBS r.name = true
  tags : tagsOK r.tags
  fields : fieldsOK r.fields
  ts : ∀ t, r.ts = some t → tokOK t

theorem encTags_head_S2 (T : List (List Char × List Char)) (rest : List Char) :
    ∀ c r, encTags T ++ ' ' :: rest = c :: r → c ∈ S2 := by
  intro c r h
  cases T with
  | nil => simp [encTags] at h; rw [← h.1]; decide
  | cons kv T' => obtain ⟨k, v⟩ := kv; simp [encTags] at h; rw [← h.1]; decide

theorem readTs_enc (ts : Option (List Char)) (h : ∀ t, ts = some t → tokOK t) :
    readTs (encTs ts ++ ['\n']) = some ts := by
  cases ts with
  | none => simp [encTs, readTs]
  | some t =>
    have := readTok_tok t ['\n'] (h t rfl) (by intro c r hc; simp at hc; rw [← hc.1]; simp)
    simp [encTs, readTs, this]

theorem parseFieldSet_enc (F : List (List Char × FVal)) (hF : fieldsOK F) (ts : Option (List Char)) :
    parseFieldSet (encFields F ++ (encTs ts ++ ['\n'])) = some (F, encTs ts ++ ['\n']) := by
  have hends : endsFields (encTs ts ++ ['\n']) := by
    intro c r h
    cases ts with
    | none => simp [encTs] at h; rw [← h.1]; simp
    | some t => simp [encTs] at h; rw [← h.1]; simp
  by_cases hne : F = []
  · subst hne
    cases ts with
    | none => simp [encFields, encTs, parseFieldSet]
    | some t => simp [encFields, encTs, parseFieldSet]
  · have hhead := encFields_head F hne hF (encTs ts ++ ['\n'])
    have hlen : F.length ≤ (encFields F ++ (encTs ts ++ ['\n'])).length + 1 := by
      have := length_encFields F
      simp only [List.length_append]; omega
    have hp := parseFields_enc F _ (encTs ts ++ ['\n']) hne hF hends hlen
    generalize hl : encFields F ++ (encTs ts ++ ['\n']) = l at *
    cases l with
    | nil => simpa [parseFieldSet] using hp
    | cons c r =>
      have := hhead c r rfl
      unfold parseFieldSet
      split
      · rename_i h; exact absurd (List.cons.inj h).1 this.1
      · rename_i h; exact absurd (List.cons.inj h).1 this.2
      · exact hp

/-- **round trip**: every well-formed record decodes to exactly itself — name, tags, fields
with their string / non-string class and text, and the timestamp -/
theorem line_roundtrip (r : Rec) (h : WF r) : decodeLine (encodeLine r) = some r := by
  unfold decodeLine encodeLine
  have s1 : scan S2 (esc S2 r.name ++ (encTags r.tags ++ ' ' :: (encFields r.fields ++ (encTs r.ts ++ ['\n'])))) =
      (r.name, encTags r.tags ++ ' ' :: (encFields r.fields ++ (encTs r.ts ++ ['\n']))) :=
    scan_esc S2 bs_not_S2 r.name _ h.name (encTags_head_S2 r.tags _)
  have s2 := parseTags_enc r.tags
    ((encTags r.tags ++ ' ' :: (encFields r.fields ++ (encTs r.ts ++ ['\n']))).length + 1)
    (encFields r.fields ++ (encTs r.ts ++ ['\n'])) h.tags
    (by have := length_encTags r.tags; simp only [List.length_append]; omega)
  have s3 := parseFieldSet_enc r.fields h.fields r.ts
  have s4 := readTs_enc r.ts h.ts
  simp only [List.append_assoc, List.cons_append] at *
  simp only [s1, s2, s3, s4]

/-! ### `line_protocol` sorts, then encodes -/

theorem mem_insertByKey {α} (x y : List Char × α) (l : List (List Char × α)) :
    y ∈ insertByKey x l ↔ y = x ∨ y ∈ l := by
  induction l with
  | nil => simp [insertByKey]
  | cons z zs ih =>
    simp only [insertByKey]
    split_ifs <;> simp [ih] <;> tauto

theorem mem_sortByKey {α} (y : List Char × α) (l : List (List Char × α)) : y ∈ sortByKey l ↔ y ∈ l := by
  induction l with
  | nil => simp [sortByKey]
  | cons z zs ih => simp [sortByKey, mem_insertByKey, ih]

/-- what `line_protocol` emits decodes to the record with tags and fields ordered by key:
nothing is lost, nothing added -/
theorem lineProtocol_roundtrip (name : List Char) (tags : List (List Char × List Char))
    (fields : List (List Char × FVal)) (ts : Option (List Char))
    (h : WF { name := name, tags := tags, fields := fields, ts := ts }) :
    decodeLine (lineProtocol name tags fields ts) =
      some { name := name, tags := sortByKey tags, fields := sortByKey fields, ts := ts } ∧
    (∀ kv, kv ∈ sortByKey tags ↔ kv ∈ tags) ∧ (∀ kv, kv ∈ sortByKey fields ↔ kv ∈ fields) := by
  refine ⟨?_, fun kv => mem_sortByKey kv tags, fun kv => mem_sortByKey kv fields⟩
  apply line_roundtrip
  exact { name := h.name
          tags := fun kv hkv => h.tags kv ((mem_sortByKey kv tags).mp hkv)
          fields := fun kv hkv => h.fields kv ((mem_sortByKey kv fields).mp hkv)
          ts := h.ts }

/-! ### a single newline-terminated line -/

/-! ### the escaping chains as they stand in the source

`Generated/Src.lean` is re-emitted by `harness/vh/translate.py` from the text of
`monitor/format_line.py` on every run: the `.replace(a, b)` chains of `escape_key`, `escape_field`
and of the measurement name, in the order in which the code applies them. -/

/-- `escape_key` as written in the source is the model's `esc S3` -/
theorem gen_escape_key (s : List Char) : replSeq Gen.escapeKeyPairs s = esc S3 s := by
  rw [replSeq_eq_onePass _ _ (by decide)]
  exact onePass_escPairs S3 s

/-- the escaping of the measurement name as written in the source is `esc S2` -/
theorem gen_escape_name (s : List Char) : replSeq Gen.escapeNamePairs s = esc S2 s := by
  rw [replSeq_eq_onePass _ _ (by decide)]
  exact onePass_escPairs S2 s

/-- `escape_field`'s chain (backslashes first, then quotes) is the model's `escQ` -/
theorem gen_escape_field (s : List Char) : replSeq Gen.escapeFieldPairs s = escQ s := by
  rw [replSeq_eq_onePass _ _ (by decide), escQ_eq_esc]
  exact onePass_escPairs ['\\', '"'] s

/-- tags and fields are emitted in the order of their keys (code points, as Python's `sorted`),
whatever order the record or the defaults had them in -/
theorem keys_sorted (tags : List (List Char × List Char)) (fields : List (List Char × FVal)) :
    KeySorted (sortByKey tags) ∧ KeySorted (sortByKey fields) :=
  ⟨sortByKey_sorted tags, sortByKey_sorted fields⟩

def noNL (t : List Char) : Prop := '\n' ∉ t

theorem noNL_cons (c : Char) (t : List Char) : noNL (c :: t) ↔ '\n' ≠ c ∧ noNL t := by
  simp [noNL]

theorem noNL_append (a b : List Char) : noNL (a ++ b) ↔ noNL a ∧ noNL b := by
  simp [noNL]

theorem noNL_esc (S : List Char) (t : List Char) (h : noNL t) : noNL (esc S t) := by
  induction t with
  | nil => simp [esc, noNL]
  | cons c t ih =>
    rw [noNL_cons] at h
    simp only [esc]
    split_ifs
    · rw [noNL_cons, noNL_cons]; exact ⟨by decide, h.1, ih h.2⟩
    · rw [noNL_cons]; exact ⟨h.1, ih h.2⟩

theorem noNL_escQ (t : List Char) (h : noNL t) : noNL (escQ t) := by
  induction t with
  | nil => simp [escQ, noNL]
  | cons c t ih =>
    rw [noNL_cons] at h
    simp only [escQ]
    split_ifs
    · rw [noNL_cons, noNL_cons]; exact ⟨by decide, h.1, ih h.2⟩
    · rw [noNL_cons]; exact ⟨h.1, ih h.2⟩

def fvalText : FVal → List Char
  | .str s => s
  | .tok t => t

structure NoLineBreaks (r : Rec) : Prop where
  name : noNL r.name
  tags : ∀ kv ∈ r.tags, noNL kv.1 ∧ noNL kv.2
  fields : ∀ kv ∈ r.fields, noNL kv.1 ∧ noNL (fvalText kv.2)
  ts : ∀ t, r.ts = some t → noNL t

theorem noNL_encField (v : FVal) (h : noNL (fvalText v)) : noNL (encField v) := by
  cases v with
  | str s =>
    have := noNL_escQ s h
    have hnil : noNL [] := by simp [noNL]
    simp [encField, noNL_cons, noNL_append, this, hnil]
  | tok t => exact h

theorem noNL_encTags (T : List (List Char × List Char)) (h : ∀ kv ∈ T, noNL kv.1 ∧ noNL kv.2) :
    noNL (encTags T) := by
  induction T with
  | nil => simp [encTags, noNL]
  | cons kv T ih =>
    obtain ⟨k, v⟩ := kv
    have hkv := h (k, v) (by simp)
    have h1 := noNL_esc S3 k hkv.1
    have h2 := noNL_esc S3 v hkv.2
    have h3 := ih (fun kv hk => h kv (by simp [hk]))
    simp [encTags, noNL_cons, noNL_append, h1, h2, h3]

theorem noNL_encFields : ∀ (F : List (List Char × FVal)), (∀ kv ∈ F, noNL kv.1 ∧ noNL (fvalText kv.2)) →
    noNL (encFields F)
  | [], _ => by simp [encFields, noNL]
  | [(k, v)], h => by
      have hkv := h (k, v) (by simp)
      have h1 := noNL_esc S3 k hkv.1
      have h2 := noNL_encField v hkv.2
      simp [encFields, noNL_cons, noNL_append, h1, h2]
  | (k, v) :: kv2 :: F, h => by
      have hkv := h (k, v) (by simp)
      have h1 := noNL_esc S3 k hkv.1
      have h2 := noNL_encField v hkv.2
      have h3 := noNL_encFields (kv2 :: F) (fun kv hk => h kv (by simp [hk]))
      simp [encFields, noNL_cons, noNL_append, h1, h2, h3]

/-- the output is `body ++ "\n"` with no line break inside `body` -/
theorem single_line (r : Rec) (h : NoLineBreaks r) :
    ∃ body, encodeLine r = body ++ ['\n'] ∧ '\n' ∉ body := by
  refine ⟨esc S2 r.name ++ encTags r.tags ++ ' ' :: encFields r.fields ++ encTs r.ts, by simp [encodeLine], ?_⟩
  have h1 := noNL_esc S2 r.name h.name
  have h2 := noNL_encTags r.tags h.tags
  have h3 := noNL_encFields r.fields h.fields
  have h4 : noNL (encTs r.ts) := by
    cases hts : r.ts with
    | none => simp [encTs, noNL]
    | some t => have := h.ts t hts; simp [encTs, noNL_cons, this]
  show noNL _
  simp [noNL_cons, noNL_append, h1, h2, h3, h4]

/-! ### the formatter: tags / fields split and timestamp -/

theorem lookup_setKey_same {α} (k : List Char) (v : α) (l : List (List Char × α)) :
    lookup k (setKey k v l) = some v := by
  induction l with
  | nil => simp [setKey, lookup]
  | cons x xs ih =>
    obtain ⟨k', v'⟩ := x
    simp only [setKey]
    split_ifs with h
    · simp [lookup]
    · simp [lookup, h, ih]

theorem lookup_setKey_other {α} (k k' : List Char) (v : α) (l : List (List Char × α)) (h : k' ≠ k) :
    lookup k' (setKey k v l) = lookup k' l := by
  induction l with
  | nil => simp [setKey, lookup, Ne.symm h]
  | cons x xs ih =>
    obtain ⟨k2, v2⟩ := x
    simp only [setKey]
    split_ifs with h2
    · subst h2; simp [lookup, Ne.symm h]
    · simp only [lookup]; split_ifs <;> simp_all

/-- `dict.update` with a mapping whose keys are distinct: updated keys win, others are kept -/
theorem lookup_update {α} (upd : List (List Char × α)) (hnd : (upd.map (·.1)).Nodup)
    (acc : List (List Char × α)) (k : List Char) :
    lookup k (upd.foldl (fun a kv => setKey kv.1 kv.2 a) acc) =
      (lookup k upd).or (lookup k acc) := by
  induction upd generalizing acc with
  | nil => simp [lookup]
  | cons x xs ih =>
    obtain ⟨k1, v1⟩ := x
    simp only [List.map_cons, List.nodup_cons] at hnd
    simp only [List.foldl_cons, lookup]
    rw [ih hnd.2]
    by_cases hk : k1 = k
    · subst hk
      have : lookup k1 xs = none := by
        clear ih
        induction xs with
        | nil => rfl
        | cons y ys ihy =>
          obtain ⟨k2, v2⟩ := y
          simp only [List.map_cons, List.mem_cons, not_or, List.nodup_cons] at hnd
          simp only [lookup]
          rw [if_neg (Ne.symm hnd.1.1)]
          exact ihy ⟨hnd.1.2, hnd.2.2⟩
      simp [this, lookup_setKey_same]
    · simp only [hk, if_false]
      rw [lookup_setKey_other _ _ _ _ (Ne.symm hk)]

/-- fields are exactly the record items that are neither whitelisted nor log-record attributes;
tags are the defaults overridden by the whitelisted record items, rendered as text -/
theorem split_tags_fields (defaults : List (List Char × List Char)) (whitelist attrs : List (List Char))
    (args : List (List Char × FVal)) (hnd : (args.map (·.1)).Nodup) :
    (∀ kv, kv ∈ (splitRecord defaults whitelist attrs args).2 ↔
        kv ∈ args ∧ kv.1 ∉ whitelist ∧ kv.1 ∉ attrs) ∧
    (∀ k, lookup k (splitRecord defaults whitelist attrs args).1 =
        (lookup k ((args.filter (fun kv => kv.1 ∈ whitelist)).map (fun kv => (kv.1, tagText kv.2)))).or
          (lookup k defaults)) := by
  constructor
  · intro kv; simp [splitRecord, List.mem_filter]
  · intro k
    simp only [splitRecord]
    apply lookup_update
    have : ((args.filter (fun kv => kv.1 ∈ whitelist)).map (fun kv => (kv.1, tagText kv.2))).map (·.1) =
        (args.filter (fun kv => kv.1 ∈ whitelist)).map (·.1) := by simp [List.map_map, Function.comp_def]
    rw [this]
    exact (List.Sublist.map _ List.filter_sublist).nodup hnd

/-- the record time is rounded down to a multiple of the resolution -/
theorem timestamp_floor (created : Rat) (res : Int) (hres : 0 < res) :
    (∃ k : Int, floorTs created res = k * res) ∧ (floorTs created res : Rat) ≤ created ∧
    created < (floorTs created res : Rat) + res := by
  have hr : (0 : Rat) < res := by exact_mod_cast hres
  unfold floorTs
  refine ⟨⟨_, rfl⟩, ?_, ?_⟩
  · have h : ((created / res).floor : Rat) ≤ created / res := Int.floor_le (created / (res : Rat))
    push_cast
    calc ((created / res).floor : Rat) * res ≤ created / res * res := mul_le_mul_of_nonneg_right h hr.le
      _ = created := by field_simp
  · have h : created / res < ((created / res).floor : Rat) + 1 := Int.lt_floor_add_one (created / (res : Rat))
    have h2 : created / res * res < (((created / res).floor : Rat) + 1) * res := mul_lt_mul_of_pos_right h hr
    have e : created / res * res = created := by field_simp
    push_cast
    linarith

/-! ### JSON: defaults < time < message < data -/

theorem json_merge {α} (defaults time message data : List (List Char × α))
    (h1 : (defaults.map (·.1)).Nodup) (h2 : (time.map (·.1)).Nodup)
    (h3 : (message.map (·.1)).Nodup) (h4 : (data.map (·.1)).Nodup) (k : List Char) :
    lookup k (mergeLayers [defaults, time, message, data]) =
      (lookup k data).or ((lookup k message).or ((lookup k time).or (lookup k defaults))) := by
  simp only [mergeLayers, List.foldl_cons, List.foldl_nil]
  rw [lookup_update data h4, lookup_update message h3, lookup_update time h2, lookup_update defaults h1]
  simp [lookup]

/-! ### non-vacuity -/

def ex : Rec :=
  { name := ['m', ',', ' ', '=', '\\', 'x'],
    tags := [(['k', ',', '=', ' '], ['v', '\\', ',', 'w']), (['t'], ['4', '9'])],
    fields := [(['a', ' ', 'b'], .str ['i', 't', '\'', 's', ' ', '"', 'q', '"', ' ', '\\']),
               (['n'], .tok ['2', '9', '8']), (['o', 'k'], .tok ['T', 'r', 'u', 'e'])],
    ts := some ['1', '7', '0', '0'] }

example : WF ex := by
  refine ⟨by decide, ?_, ?_, ?_⟩
  · intro kv h; simp [ex] at h; rcases h with rfl | rfl <;> decide
  · intro kv h; simp [ex] at h
    rcases h with rfl | rfl | rfl <;> refine ⟨by decide, by decide, ?_⟩ <;> simp [fvalOK, tokOK]
  · intro t h; simp [ex] at h; subst h; simp [tokOK]
example : decodeLine (encodeLine ex) = some ex := by decide +kernel

/-! ### the source text the model was transcribed from

`cobald/monitor/format_line.py` and `format_json.py`: how a line is assembled (name, sorted tags, a space, sorted fields, the optional time stamp, a newline), which arguments of a record become tags and fields, and the JSON document of a record - beside the three escape functions, which are translated.
`Gen.runtimePins` (recomputed on every run) says for each of these functions whether its normalised
text is still the text of `harness/vh/pins.json`; a changed function breaks this theorem and the
correspondence streams are then the search for a failing input. -/

theorem gen_source_text :
    ∀ n ∈ ["format_line:escape_key",
     "format_line:escape_field",
     "format_line:line_protocol",
     "format_line:LineProtocolFormatter.__init__",
     "format_line:LineProtocolFormatter.format",
     "format_json:JsonFormatter.__init__",
     "format_json:JsonFormatter.format"],
      Gen.pinned n = true := by decide

end Cobald.Props.C17

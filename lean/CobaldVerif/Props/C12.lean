/-
C12 — Runtime lifecycle: exclusive accept, shutdown always completes, restart possible.
-/
import CobaldVerif.Lemmas.RuntimeProgress
import CobaldVerif.Generated.Src

namespace Cobald.Props.C12
open Cobald Cobald.Runtime

/-- **at most one runner accepts at a time**: the guard is held exactly while a run is starting
or up; a second accept is not enabled then -/
theorem guard_mutex (s : St) (hr : Reach s) :
    (s.guard ≠ none ↔ (s.phase = .launching ∨ s.phase = .up)) ∧
    (s.guard ≠ none → ∀ r, step s (.acceptBegin r) = none) := by
  have inv := (inv_reach s hr).b
  constructor
  · rw [Ne, inv.guard_phase]
    cases s.phase <;> simp [Phase.restartable]
  · intro hg r
    simp [step, hg]

/-- a concurrent accept raises RuntimeError and leaves the active runner undisturbed: the whole
state is unchanged -/
theorem reject_frame (s s' : St) (r : Nat) (h : step s (.acceptReject r) = some s') :
    s' = s ∧ s.guard ≠ none := by
  simp only [step] at h
  split at h
  · rename_i hg
    simp only [Option.some.injEq] at h
    exact ⟨h.symm, hg⟩
  · simp at h

/-- **the guard is released however accept ends** — returned, RuntimeError or a raw BaseException -/
theorem guard_released (s : St) (hr : Reach s) (r : Res) (he : s.phase = .ended r) : s.guard = none := by
  rw [(inv_reach s hr).b.guard_phase, he]
  rfl

/-- **a new runner can accept again** after accept has ended in any way, with fresh latches,
runner tasks and flags -/
theorem restart (s : St) (hr : Reach s) (r : Res) (he : s.phase = .ended r) (rid : Nat) :
    ∃ s', step s (.acceptBegin rid) = some s' ∧ s'.phase = .launching ∧ s'.guard = some rid ∧
      (∀ f, s'.latch f = .opened ∧ s'.rtask f = .running) ∧ s'.gather = .pending ∧ s'.stopReq = false := by
  have hg := guard_released s hr r he
  simp [step, hg, he, Phase.restartable]

/-- once the runner is up a stop request is always accepted, and it enables the closing of
every runner -/
theorem shutdown_enabled (s : St) (hup : s.phase = .up) :
    ∃ s', step s .shutdownCall = some s' ∧ s'.stopReq = true ∧ s'.phase = .up ∧
      ∀ f, (step s' (.close f)).isSome = true := by
  refine ⟨{ s with stopReq := true }, by simp [step, hup], rfl, hup, fun f => ?_⟩
  simp [step, hup, St.closing]

/-- a stop request alone ends the run normally: with every latch closed by the stop, the runner
tasks end without error, `gather` completes and the only result the run may end with is a
normal return -/
theorem shutdown_returns (s : St) (r : Res) (hc : s.gather = .completed) (h : (step s (.endRun r)).isSome = true) :
    r = .returned := by
  simp only [step, St.resultOK, hc] at h
  split at h
  · split at h
    · rename_i hr; simpa using hr
    · simp at h
  · simp at h

/-- the `exclusive` guard as it stands in the source of `runners/guard.py` (checked on the syntax
tree on every run, `Generated/Src.lean`): the call is made iff a non-blocking acquire succeeds, the
guard is released in the `finally` of exactly that call, the other branch only raises RuntimeError.
That is what `acceptBegin` / `acceptReject` / the `guard := none` of every `endRun` model. -/
theorem gen_guard_shape : Gen.guardShape = true := by decide

/-- **shutdown always completes**: after a stop request, once the coroutine payloads have unwound
(they can: `C02.cancellation_deliverable`), at most 8 closing steps end the run call - by a normal
return when no failure had been recorded (`clean`), whatever thread payloads are doing -/
theorem shutdown_completes (s : St) (hr : Reach s) (hup : s.phase = .up) (hstop : s.stopReq = true) (hq : s.coQuiet) :
    (∃ es s' r, (es.all Ev.closingEv = true) ∧ run s es = some s' ∧ s'.phase = .ended r ∧ es.length ≤ 8) ∧
    (s.clean → ∃ es s', (es.all Ev.closingEv = true) ∧ run s es = some s' ∧ s'.phase = .ended .returned ∧ es.length ≤ 8) :=
  ⟨closing_terminates s hr hup (Or.inl hstop) hq, fun hcl => closing_returns s hr hup (Or.inl hstop) hq hcl⟩

/-- a KeyboardInterrupt has the same effect -/
theorem interrupt_completes (s : St) (hr : Reach s) (hup : s.phase = .up) (hi : s.gather = .interrupted) (hq : s.coQuiet) :
    ∃ es s' r, (es.all Ev.closingEv = true) ∧ run s es = some s' ∧ s'.phase = .ended r ∧ es.length ≤ 8 :=
  closing_terminates s hr hup (Or.inr (by simp [hi])) hq

/-- shutdown() on a runner that is not running (before accept, after the run has ended in any
way) returns at once and changes nothing -/
theorem shutdown_idle (s : St) (h : s.phase.restartable = true) : step s .shutdownCall = some s := by
  cases hp : s.phase <;> simp_all [step, Phase.restartable]

/-! ### non-vacuity: accept, rejected concurrent accept, shutdown, accept again -/

def trace : List Ev :=
  [.acceptBegin 0, .launch, .flush, .acceptReject 1, .shutdownCall, .close .aio, .close .trio, .close .thr,
   .rtaskEnd .aio, .rtaskEnd .trio, .rtaskEnd .thr, .gatherDone, .endRun .returned, .acceptBegin 1, .launch]
example : ((run St.init trace).map (fun s => (s.phase, s.guard))) = some (.up, some 1) := by decide +kernel
example : (run St.init (trace.take 3 ++ [.acceptBegin 1])).isNone = true := by decide +kernel

-- the hypotheses of `shutdown_completes` hold right after the stop request
example : ((run St.init (trace.take 5)).map (fun s => (s.phase, s.stopReq, decide s.coQuiet))) = some (.up, true, true) := by
  decide +kernel

/-- **overlapping shutdown requests are one request**: a second `shutdown()` - from the same or from
another thread, at any moment at which the first one was possible - is always possible too and
leaves the runtime in the very state the first one left it in -/
theorem shutdown_twice (s s' : St) (h : step s .shutdownCall = some s') :
    step s' .shutdownCall = some s' := by
  simp only [step] at h ⊢
  by_cases hup : s.phase = .up
  · simp only [hup, if_true] at h
    cases h
    simp
  · simp only [hup, if_false] at h
    by_cases hr : s.phase.restartable
    · simp only [hr, if_true] at h
      cases h
      simp [hup, hr]
    · simp [hr] at h
/-! ### the runtime glue as written in the source

The model of this property was transcribed from these functions (the life cycle: `accept` (behind the `exclusive()` guard, whose shape is pinned separately), `shutdown`, the acceptor payload with its `running` / `_is_shutdown` events, start and stop of the runners - the events `acceptBegin`, `acceptRejected`, `shutdownCall`, `close`, `endRun` of the LTS and the phases of a run).
`Gen.runtimePins` is recomputed on every run: the normalised text of every function of the runner
modules (docstrings, annotations and logging statements dropped) is compared with the text the
model was last transcribed from (`harness/vh/pins.json`). A changed function breaks this theorem;
the scenario families are then the search for a failing history. -/

theorem gen_runtime_text :
    ∀ n ∈ ["service:ServiceRunner.__init__",
     "service:ServiceRunner.accept",
     "service:ServiceRunner.shutdown",
     "service:ServiceRunner._accept_services",
     "meta_runner:MetaRunner.__init__",
     "meta_runner:MetaRunner.run",
     "meta_runner:MetaRunner.stop",
     "meta_runner:MetaRunner._launch_runners",
     "meta_runner:MetaRunner._aclose_runners",
     "base_runner:BaseRunner.__init__",
     "base_runner:BaseRunner.run",
     "base_runner:BaseRunner.stop"],
      Gen.pinned n = true := by decide

end Cobald.Props.C12

/-
C02 — Termination cancels every coroutine payload and finishes its cleanup first.
-/
import CobaldVerif.Generated.Src
import CobaldVerif.Lemmas.RuntimeProgress

namespace Cobald.Props.C02
open Cobald Cobald.Runtime

/-- **when the run call has ended — for whatever reason — no coroutine payload is still
executing**: each one has finished, or was cancelled and has finished its cleanup (`unwound`),
or never started -/
theorem ended_all_unwound (s : St) (hr : Reach s) (r : Res) (he : s.phase = .ended r) (p : Nat)
    (hco : (s.fl p).isCo = true) : s.coBusy p = false := by
  have inv := (inv_reach s hr).c
  cases hb : s.coBusy p with
  | false => rfl
  | true =>
    have := inv.co_busy_up p hco hb
    rw [he] at this
    simp at this

/-- a coroutine payload is only ever unwound through its framework's cancellation, which the
runtime triggers by closing the runner: `unwound` is not enabled while the runner is open -/
theorem cancel_through_framework (s s' : St) (p : Nat) (h : step s (.unwound p) = some s') :
    s.pay p = .running ∧ (s.fl p).isCo = true ∧ s.latch (s.fl p) ≠ .opened ∧ s'.pay p = .unwound := by
  simp only [step] at h
  split at h
  · rename_i hg
    simp only [Option.some.injEq] at h
    subst h
    exact ⟨hg.1, hg.2.1, hg.2.2, by simp [upd]⟩
  · simp at h

/-- **no coroutine payload executes a further step after the call has ended**: once the run
has ended, neither `start` nor the end of a body nor a cleanup step of a coroutine payload is
enabled any more -/
theorem no_step_after_end (s : St) (hr : Reach s) (r : Res) (he : s.phase = .ended r) (p : Nat)
    (hco : (s.fl p).isCo = true) :
    (∀ t, step s (.start p t) = none) ∧ (∀ o, step s (.bodyEnd p o) = none) ∧ step s (.unwound p) = none := by
  have hb := ended_all_unwound s hr r he p hco
  have hnr : s.pay p ≠ .running := by
    intro h; simp [St.coBusy, h] at hb
  refine ⟨fun t => ?_, fun o => ?_, ?_⟩
  · have hnt : s.fl p ≠ .thr := by intro h; rw [h] at hco; simp [Flav.isCo] at hco
    simp [step, he, hnt]
  · simp [step, hnr]
  · simp [step, hnr]

/-- **blocked thread payloads never prevent termination**: whether the run may end does not
depend on the state of any thread payload -/
theorem threads_dont_block (s : St) (r : Res) (p : Nat) (x : PSt) (hthr : s.fl p = .thr)
    (hg : ∀ q, s.gather = .raised q → q ≠ p) :
    (step s (.endRun r)).isSome = (step { s with pay := upd s.pay p x } (.endRun r)).isSome := by
  have hco : ∀ q, ((s.fl q).isCo && St.coBusy { s with pay := upd s.pay p x } q) = ((s.fl q).isCo && s.coBusy q) := by
    intro q
    by_cases hq : q = p
    · subst hq; simp [hthr, Flav.isCo]
    · simp [St.coBusy, upd, hq]
  have hres : St.resultOK { s with pay := upd s.pay p x } r = s.resultOK r := by
    unfold St.resultOK
    cases hgth : s.gather with
    | raised q =>
      have := hg q hgth
      simp [upd, this]
    | _ => simp
  simp only [step, hres, hco]
  split <;> (try split) <;> simp

/-- every termination trigger leads to the same closing procedure: closing a runner is enabled
by a stop request, by an interrupt and by a failure alike -/
theorem closing_uniform (s : St) (f : Flav) (hup : s.phase = .up)
    (h : s.stopReq = true ∨ s.gather = .interrupted ∨ ∃ p, s.gather = .raised p) :
    (step s (.close f)).isSome = true := by
  have hc : s.closing := by
    unfold St.closing
    rcases h with h | h | ⟨p, h⟩
    · exact Or.inl h
    · right; rw [h]; simp
    · right; rw [h]; simp
  simp [step, hup, hc]

/-- **blocked threads never prevent termination**: the condition under which the closing steps
end the run mentions coroutine payloads only - whatever state a thread payload is in, it is the
same condition … -/
theorem coQuiet_ignores_threads (s : St) (p : Nat) (x : PSt) (hthr : s.fl p = .thr) :
    ({ s with pay := upd s.pay p x } : St).coQuiet ↔ s.coQuiet := by
  unfold St.coQuiet St.coBusy
  simp only [List.all_eq_true, upd_apply]
  constructor <;> intro h q hq <;> have := h q hq <;> by_cases hqp : q = p
  · subst hqp; simp [hthr, Flav.isCo]
  · simpa [hqp] using this
  · subst hqp; simp [hthr, Flav.isCo]
  · simpa [hqp] using this

/-- … and under it the run call ends after at most 8 closing steps -/
theorem termination_despite_threads (s : St) (hr : Reach s) (hup : s.phase = .up) (hc : s.closing) (hq : s.coQuiet) :
    ∃ es s' r, (es.all Ev.closingEv = true) ∧ run s es = some s' ∧ s'.phase = .ended r ∧ es.length ≤ 8 :=
  closing_terminates s hr hup hc hq

/-- **cancellation is always deliverable**: while the run is closing, a coroutine payload that is
still running can be unwound (its runner is closed, then the framework's cancellation exception
arrives), and an outcome that has not been looked at can be processed -/
theorem cancellation_deliverable (s : St) (p : Nat) (hup : s.phase = .up) (hc : s.closing) (hco : (s.fl p).isCo = true) :
    (s.pay p = .running → ∃ s1 s2, step s (.close (s.fl p)) = some s1 ∧ step s1 (.unwound p) = some s2 ∧ s2.pay p = .unwound) ∧
    (∀ o, s.pay p = .ended o → ∃ s', step s (.record p) = some s' ∧ s'.pay p = .done o) :=
  ⟨fun h => unwind_enabled s p hup hc h hco, fun o h => record_enabled s p o h⟩

/-! ### non-vacuity -/

def trace : List Ev :=
  [.acceptBegin 0, .launch, .flush, .adopt 1 .aio, .adopt 2 .trio, .adopt 3 .thr, .start 1 0, .start 2 1, .start 3 2,
   .shutdownCall, .close .trio, .close .aio, .close .thr, .unwound 2, .unwound 1,
   .rtaskEnd .aio, .rtaskEnd .trio, .rtaskEnd .thr, .gatherDone, .endRun .returned]

example : ((run St.init trace).map (fun s => (s.phase, s.pay 1, s.pay 2, s.pay 3))) =
    some (.ended .returned, .unwound, .unwound, .running) := by decide +kernel
-- the run cannot end while a coroutine payload has not finished its cleanup
example : (run St.init ((trace.take 14) ++ [.rtaskEnd .aio, .rtaskEnd .trio, .rtaskEnd .thr, .gatherDone, .endRun .returned])).isNone = true := by
  decide +kernel

-- the hypotheses of `termination_despite_threads` hold with a thread payload still running
example : ((run St.init (trace.take 15)).map (fun s => (s.phase, decide s.closing, decide s.coQuiet, s.pay 3))) =
    some (.up, true, true, .running) := by decide +kernel

/-! ### the runtime glue as written in the source

The model of this property was transcribed from these functions of `cobald/daemon/runners/`
(closing: the events `close`, `unwound`, `rtaskEnd`, `gatherRaise`, `gatherDone`, `endRun` of the LTS and their guards).
`Gen.runtimePins` is recomputed on every run: the normalised text of every function of the runner
modules (docstrings, annotations and logging statements dropped) is compared with the text the
model was last transcribed from (`harness/vh/pins.json`). A changed function breaks this theorem;
the scenario families are then the search for a failing history. -/

theorem gen_runtime_text :
    ∀ n ∈ ["asyncio_runner:AsyncioRunner.aclose",
     "asyncio_runner:AsyncioRunner.manage_payloads",
     "asyncio_runner:AsyncioRunner._monitor_payload",
     "trio_runner:TrioRunner.aclose",
     "trio_runner:TrioRunner._aclose_trio",
     "trio_runner:TrioRunner.manage_payloads",
     "trio_runner:TrioRunner._manage_payloads_trio",
     "trio_runner:TrioRunner._monitor_payload",
     "thread_runner:ThreadRunner.aclose",
     "thread_runner:ThreadRunner.manage_payloads",
     "base_runner:BaseRunner.run",
     "base_runner:BaseRunner.stop",
     "base_runner:BaseRunner.aclose",
     "meta_runner:MetaRunner._manage_runners",
     "meta_runner:MetaRunner._aclose_runners",
     "meta_runner:MetaRunner.stop",
     "meta_runner:MetaRunner.run"],
      Gen.pinned n = true := by decide

end Cobald.Props.C02

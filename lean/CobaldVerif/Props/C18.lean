/-
C18 — YAML loading never instantiates anything that is not a registered plugin.
General theorems about the dispatch model, then theorems about the *regenerated* table of the
loader class that `cobald.daemon.core.config.load` uses (Generated/Tables.lean).
-/
import CobaldVerif.Generated.Src
import CobaldVerif.Generated.Tables

namespace Cobald.Props.C18
open Cobald Cobald.YamlSafe Cobald.Generated

/-! ### any loader -/

mutual
/-- a tag that dispatches to `construct_undefined`, anywhere in the document, makes loading fail -/
theorem undefined_rejected (L : Loader) : ∀ (n : Node) (t : Tag), t ∈ tags n →
    dispatch L t = some .undefined → construct L n = none
  | .scalar t0, t, ht, hd => by
      simp only [tags, List.mem_singleton] at ht; subst ht
      simp [construct, hd]
  | .seq t0 items, t, ht, hd => by
      simp only [tags, List.mem_cons] at ht
      rcases ht with rfl | ht
      · simp [construct, hd]
      · have := undefined_rejected_list L items t ht hd
        simp only [construct]
        split
        · rfl
        · simp [this]
  | .map t0 items, t, ht, hd => by
      simp only [tags, List.mem_cons] at ht
      rcases ht with rfl | ht
      · simp [construct, hd]
      · have := undefined_rejected_pairs L items t ht hd
        simp only [construct]
        split
        · rfl
        · simp [this]
theorem undefined_rejected_list (L : Loader) : ∀ (ns : List Node) (t : Tag), t ∈ tagsList ns →
    dispatch L t = some .undefined → constructList L ns = none
  | [], t, ht, _ => by simp [tagsList] at ht
  | n :: ns, t, ht, hd => by
      simp only [tagsList, List.mem_append] at ht
      simp only [constructList]
      rcases ht with ht | ht
      · simp [undefined_rejected L n t ht hd]
      · have := undefined_rejected_list L ns t ht hd
        split
        · simp [this]
        · rfl
theorem undefined_rejected_pairs (L : Loader) : ∀ (ps : List (Node × Node)) (t : Tag), t ∈ tagsPairs ps →
    dispatch L t = some .undefined → constructPairs L ps = none
  | [], t, ht, _ => by simp [tagsPairs] at ht
  | (k, v) :: ps, t, ht, hd => by
      simp only [tagsPairs, List.mem_append] at ht
      simp only [constructPairs]
      rcases ht with (ht | ht) | ht
      · simp [undefined_rejected L k t ht hd]
      · have := undefined_rejected L v t ht hd
        split
        · simp [this]
        · rfl
      · have := undefined_rejected_pairs L ps t ht hd
        split
        · split
          · simp [this]
          · rfl
        · rfl
end

mutual
/-- only constructors of the loader's tables ever run, and never `construct_undefined` -/
theorem calls_registered (L : Loader) : ∀ (n : Node) (log : List Call), construct L n = some log →
    ∀ c ∈ log, dispatch L c.tag = some c.kind ∧ c.kind ≠ .undefined
  | .scalar t, log, h => by
      simp only [construct] at h
      split at h
      · simp at h
      · rename_i k hne hk
        simp only [Option.some.injEq] at h; subst h
        intro c hc
        simp only [List.mem_singleton] at hc; subst hc
        exact ⟨hk, fun e => hne (by simp only at e; exact e)⟩
      · simp only [Option.some.injEq] at h; subst h; simp
  | .seq t items, log, h => by
      simp only [construct] at h
      split at h
      · simp at h
      · rename_i k hne
        split at h
        · rename_i l hl
          simp only [Option.some.injEq] at h; subst h
          intro c hc
          rcases List.mem_append.mp hc with hc | hc
          · cases hk : dispatch L t with
            | none => simp [hk] at hc
            | some k' =>
              simp only [hk, List.mem_singleton] at hc; subst hc
              exact ⟨hk, fun e => hne (by simp only at e; rw [hk, e])⟩
          · exact calls_registered_list L items l hl c hc
        · simp at h
  | .map t items, log, h => by
      simp only [construct] at h
      split at h
      · simp at h
      · rename_i k hne
        split at h
        · rename_i l hl
          simp only [Option.some.injEq] at h; subst h
          intro c hc
          rcases List.mem_append.mp hc with hc | hc
          · cases hk : dispatch L t with
            | none => simp [hk] at hc
            | some k' =>
              simp only [hk, List.mem_singleton] at hc; subst hc
              exact ⟨hk, fun e => hne (by simp only at e; rw [hk, e])⟩
          · exact calls_registered_pairs L items l hl c hc
        · simp at h
theorem calls_registered_list (L : Loader) : ∀ (ns : List Node) (log : List Call), constructList L ns = some log →
    ∀ c ∈ log, dispatch L c.tag = some c.kind ∧ c.kind ≠ .undefined
  | [], log, h => by simp only [constructList, Option.some.injEq] at h; subst h; simp
  | n :: ns, log, h => by
      simp only [constructList] at h
      split at h
      · rename_i l1 h1
        split at h
        · rename_i l2 h2
          simp only [Option.some.injEq] at h; subst h
          intro c hc
          rcases List.mem_append.mp hc with hc | hc
          · exact calls_registered L n l1 h1 c hc
          · exact calls_registered_list L ns l2 h2 c hc
        · simp at h
      · simp at h
theorem calls_registered_pairs (L : Loader) : ∀ (ps : List (Node × Node)) (log : List Call),
    constructPairs L ps = some log → ∀ c ∈ log, dispatch L c.tag = some c.kind ∧ c.kind ≠ .undefined
  | [], log, h => by simp only [constructPairs, Option.some.injEq] at h; subst h; simp
  | (k, v) :: ps, log, h => by
      simp only [constructPairs] at h
      split at h
      · rename_i l1 h1
        split at h
        · rename_i l2 h2
          split at h
          · rename_i l3 h3
            simp only [Option.some.injEq] at h; subst h
            intro c hc
            rcases List.mem_append.mp hc with hc | hc
            · rcases List.mem_append.mp hc with hc | hc
              · exact calls_registered L k l1 h1 c hc
              · exact calls_registered L v l2 h2 c hc
            · exact calls_registered_pairs L ps l3 h3 c hc
          · simp at h
        · simp at h
      · simp at h
end

/-! ### the loader COBalD uses (regenerated table) -/

def stdTags : List Tag :=
  ["null", "bool", "int", "float", "binary", "timestamp", "omap", "pairs", "set", "str", "seq", "map"].map
    (fun s => "tag:yaml.org,2002:".toList ++ s.toList)

/-- **the table is safe**: no `python/*` tag is registered, there are no prefix (multi)
constructors, unknown tags fall through to `construct_undefined`, every entry is either a
standard SafeConstructor method for a standard tag or a plugin constructor registered under
`!` + an entry-point name of the plugin group -/
theorem table_safe :
    (cobaldLoader.table.all (fun e => !isPythonTag e.1) = true) ∧
    cobaldLoader.multi = [] ∧ cobaldLoader.multiFallback = none ∧
    cobaldLoader.fallback = some .undefined ∧
    (cobaldLoader.table.all (fun e =>
      (e.2 == .std && stdTags.contains e.1) ||
      (e.2 == .plugin && pluginNames.any (fun n => '!' :: n == e.1))) = true) := by
  refine ⟨by decide +kernel, by decide +kernel, by decide +kernel, by decide +kernel, ?_⟩
  decide +kernel

theorem lookup_none_of_all (p : Tag → Bool) (t : Tag) (hp : p t = false) :
    ∀ (l : List (Tag × Kind)), l.all (fun e => p e.1) = true → lookup t l = none
  | [], _ => rfl
  | (k, v) :: r, h => by
      simp only [List.all_cons, Bool.and_eq_true] at h
      simp only [lookup]
      by_cases hk : k = t
      · subst hk; simp [hp] at h
      · simp [hk, lookup_none_of_all p t hp r h.2]

/-- a tag that is not registered falls through to `construct_undefined` -/
theorem unregistered_undefined (t : Tag) (h : lookup t cobaldLoader.table = none) :
    dispatch cobaldLoader t = some .undefined := by
  obtain ⟨_, h2, h3, h4, _⟩ := table_safe
  simp [dispatch, h, h2, h3, h4]

/-- **any document that uses a `python/*` tag anywhere is rejected** (and by
`calls_registered` nothing but registered constructors ever ran) -/
theorem python_tag_rejected (doc : Node) (t : Tag) (ht : t ∈ tags doc) (hp : isPythonTag t = true) :
    construct cobaldLoader doc = none := by
  apply undefined_rejected cobaldLoader doc t ht
  apply unregistered_undefined
  exact lookup_none_of_all (fun x => !isPythonTag x) t (by simp [hp]) _ table_safe.1

/-- … and so is any document that uses an unregistered `!tag` -/
theorem unregistered_tag_rejected (doc : Node) (t : Tag) (ht : t ∈ tags doc)
    (hu : lookup t cobaldLoader.table = none) : construct cobaldLoader doc = none :=
  undefined_rejected cobaldLoader doc t ht (unregistered_undefined t hu)

/-! ### non-vacuity -/

def pyName : Tag := "tag:yaml.org,2002:python/name:os.system".toList
def strTag : Tag := "tag:yaml.org,2002:str".toList
def mapTag : Tag := "tag:yaml.org,2002:map".toList
def exDoc : Node := .map mapTag [(.scalar strTag, .seq ("!LinearController".toList) [.scalar pyName])]
example : construct cobaldLoader exDoc = none := by decide +kernel
example : (construct cobaldLoader (.map mapTag [(.scalar strTag, .map ("!LinearController".toList) [])])).isSome = true := by
  decide +kernel

/-! ### the source text the model was transcribed from

`cobald/daemon/config/yaml.py` and the tag settings of `plugins.py`: what a registered tag's constructor does with its node, and that the document is loaded with the loader class whose tables are regenerated.
`Gen.runtimePins` (recomputed on every run) says for each of these functions whether its normalised
text is still the text of `harness/vh/pins.json`; a changed function breaks this theorem and the
correspondence streams are then the search for a failing input. -/

theorem gen_source_text :
    ∀ n ∈ ["yaml:yaml_constructor",
     "yaml:load_configuration",
     "plugins:yaml_tag",
     "plugins:YAMLTagSettings.fetch",
     "plugins:YAMLTagSettings.mark"],
      Gen.pinned n = true := by decide

end Cobald.Props.C18

/-
C03 — Every adopted payload and every service is started exactly once.
-/
import CobaldVerif.Generated.Src
import CobaldVerif.Lemmas.RuntimeInv

namespace Cobald.Props.C03
open Cobald Cobald.Runtime

/-- **never started twice**: in every reachable state every payload has been started at most
once — whatever the number of payloads, submission times, polling cycles of the service sweep -/
theorem start_le_one (s : St) (hr : Reach s) (p : Nat) : s.starts p ≤ 1 := by
  rcases (inv_reach s hr).c.starts_once p with h | h <;> omega

/-- a payload that is running, has ended or was unwound has been started exactly once; one that
is queued, waiting for the sweep, submitted or discarded has not been started -/
theorem started_iff (s : St) (hr : Reach s) (p : Nat) :
    (s.starts p = 1 ↔ (s.pay p).notStarted = false) ∧ (s.starts p = 0 ↔ (s.pay p).notStarted = true) := by
  rcases (inv_reach s hr).c.starts_once p with ⟨h1, h2⟩ | ⟨h1, h2⟩ <;> simp [h1, h2]

/-- **in the runner of the requested flavour**: a running asyncio payload runs on the event
loop thread, a running trio payload on the trio thread -/
theorem start_flavour (s : St) (hr : Reach s) (p : Nat) (h : s.pay p = .running) :
    (s.fl p = .aio → s.tid p = s.loopTid ∧ s.loopTid ≠ none) ∧
    (s.fl p = .trio → s.tid p = s.trioTid ∧ s.trioTid ≠ none) :=
  ⟨(inv_reach s hr).c.co_thread_aio p h, (inv_reach s hr).c.co_thread_trio p h⟩

/-- **adopt never fails and never waits**: in every phase of the runtime — idle, starting,
running, closing, ended — adopting a fresh payload is enabled and only registers it -/
theorem adopt_total (s : St) (p : Nat) (f : Flav) (h : s.pay p = .absent) :
    ∃ s', step s (.adopt p f) = some s' ∧ (s'.pay p = .queued ∨ s'.pay p = .submitted) ∧
      s'.starts = s.starts ∧ s'.phase = s.phase := by
  simp only [step, h, if_true]
  cases hp : s.phase <;> simp [upd]

/-- **none is lost**: while the runtime is up, a payload that has been handed to its runner can
start (on the one thread of its flavour, or on a fresh thread for a thread payload), the start-up
queue can be flushed as long as it has not been, and a service that has not been adopted yet can be
swept as long as no shutdown was requested and trio is alive -/
theorem start_enabled (s : St) (p : Nat) (hup : s.phase = .up) (hp : s.pay p = .submitted) (t : Nat)
    (ht : s.tidOK (s.fl p) t = true) :
    ∃ s', step s (.start p t) = some s' ∧ s'.pay p = .running ∧ s'.starts p = s.starts p + 1 := by
  have h : step s (.start p t) = some { (s.setFlavTid (s.fl p) t) with pay := upd s.pay p .running, starts := upd s.starts p (s.starts p + 1), tid := upd s.tid p (some t) } := by
    simp only [step, hp, hup, ht, true_or, and_self, if_true]
  exact ⟨_, h, by simp [upd], by simp [upd]⟩

theorem flush_enabled (s : St) (hup : s.phase = .up) (hf : s.flushed = false) :
    ∃ s', step s .flush = some s' ∧ ∀ p, s.pay p = .queued → s'.pay p = .submitted := by
  have h : step s .flush = some { s with flushed := true, pay := fun q => if s.pay q = .queued then .submitted else s.pay q } := by
    simp only [step, hup, hf, and_self, if_true]
  exact ⟨_, h, fun p hp => by simp [hp]⟩

theorem sweep_enabled (s : St) (p : Nat) (hup : s.phase = .up) (hu : s.pay p = .unit) (hs : s.stopReq = false)
    (ht : s.latch .trio = .opened) : ∃ s', step s (.sweep p) = some s' ∧ s'.pay p = .submitted := by
  have h : step s (.sweep p) = some { s with pay := upd s.pay p .submitted } := by
    simp only [step, hup, hu, hs, ht, and_self, if_true]
  exact ⟨_, h, by simp [upd]⟩

/-- the start-up queue is flushed exactly once, and flushing turns every queued payload into a
submitted one (none is lost) -/
theorem flush_all (s s' : St) (h : step s .flush = some s') :
    s.flushed = false ∧ s'.flushed = true ∧ ∀ p, s.pay p = .queued → s'.pay p = .submitted := by
  simp only [step] at h
  split at h
  · rename_i hg
    simp only [Option.some.injEq] at h
    subst h
    exact ⟨hg.2, rfl, fun p hp => by simp [hp]⟩
  · simp at h

/-- several polling cycles do not duplicate a service: the sweep only takes units that have not
been adopted yet, and marks them -/
theorem sweep_once (s s' : St) (p : Nat) (h : step s (.sweep p) = some s') :
    s.pay p = .unit ∧ s'.pay p = .submitted ∧ step s' (.sweep p) = none := by
  simp only [step] at h
  split at h
  · rename_i hg
    simp only [Option.some.injEq] at h
    subst h
    refine ⟨hg.2.1, by simp [upd], ?_⟩
    simp [step, upd]
  · simp at h

/-- only while the runtime is shutting down may a payload be discarded instead of started -/
theorem discard_only_closing (s s' : St) (p : Nat) (h : step s (.discard p) = some s') :
    s.closing ∧ s.pay p = .submitted := by
  simp only [step] at h
  split at h
  · rename_i hg; exact ⟨hg.2, hg.1⟩
  · simp at h

/-! ### non-vacuity -/

def trace : List Ev :=
  [.adopt 1 .aio, .newUnit 2 .trio, .acceptBegin 0, .launch, .flush, .sweep 2, .start 1 0, .start 2 1, .adopt 3 .thr, .start 3 2]
example : ((run St.init trace).map (fun s => [s.starts 1, s.starts 2, s.starts 3])) = some [1, 1, 1] := by decide +kernel
example : (run St.init (trace ++ [.start 1 0])).isNone = true := by decide +kernel

/-! ### the runtime glue as written in the source

The model of this property was transcribed from these functions of `cobald/daemon/runners/`
(registration and start of payloads and services: the events `adopt`, `newUnit`, `flush`, `sweep`, `start` of the LTS and their guards).
`Gen.runtimePins` is recomputed on every run: the normalised text of every function of the runner
modules (docstrings, annotations and logging statements dropped) is compared with the text the
model was last transcribed from (`harness/vh/pins.json`). A changed function breaks this theorem;
the scenario families are then the search for a failing history. -/

theorem gen_runtime_text :
    ∀ n ∈ ["service:ServiceUnit.__init__",
     "service:ServiceUnit.units",
     "service:ServiceUnit.start",
     "service:service",
     "service:ServiceRunner.adopt",
     "service:ServiceRunner._adopt_services",
     "service:ServiceRunner._accept_services",
     "meta_runner:MetaRunner.register_payload",
     "meta_runner:MetaRunner._unqueue_payloads",
     "base_runner:BaseRunner.register_payload",
     "asyncio_runner:AsyncioRunner.register_payload",
     "asyncio_runner:AsyncioRunner._setup_payload",
     "trio_runner:TrioRunner.register_payload",
     "trio_runner:TrioRunner._submit_payload",
     "thread_runner:ThreadRunner.register_payload"],
      Gen.pinned n = true := by decide

end Cobald.Props.C03

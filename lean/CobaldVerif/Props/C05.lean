/-
C05 — A YAML pipeline section builds the chain it describes.
-/
import CobaldVerif.Model.Pipeline
import CobaldVerif.Props.C04
import CobaldVerif.Generated.Src

namespace Cobald.Props.C05
open Cobald Cobald.Partial Cobald.Pipeline

/-- the pipeline the configuration describes: every element constructed from its own template
with the very next object as target; the last one has no target -/
def specObjs : List Tmpl → List Obj
  | [] => []
  | t :: rest => (.built t ((specObjs rest).head?)) :: specObjs rest

theorem construct1_eq (prev : Option Obj) (e : Elem) :
    construct1 prev e = some (.built e.tmpl prev) := by
  cases prev with
  | none => cases e with
    | tag t => by_cases hl : t.leaf = true <;> simp [construct1, hl, mkLeaf, Elem.tmpl]
    | legacy t => simp [construct1, Elem.tmpl]
  | some p => cases e with
    | tag t => simp [construct1, rshift, Elem.tmpl]
    | legacy t => simp [construct1, Elem.tmpl]

theorem walk_spec (fails : Tmpl → Bool) : ∀ (es : List Elem) (done : List Tmpl) (log : Log),
    (∀ e ∈ es, fails e.tmpl = false) →
    walk fails es (specObjs done).head? (specObjs done) log =
      (some (specObjs ((es.reverse.map Elem.tmpl) ++ done)), log ++ es.map Elem.tmpl)
  | [], done, log, _ => by simp [walk]
  | e :: rest, done, log, h => by
      have hf : fails e.tmpl = false := h e (by simp)
      have ih := walk_spec fails rest (e.tmpl :: done) (log ++ [e.tmpl]) (fun x hx => h x (by simp [hx]))
      simp only [walk, hf, Bool.false_eq_true, if_false, construct1_eq]
      have hs : specObjs (e.tmpl :: done) = .built e.tmpl (specObjs done).head? :: specObjs done := rfl
      have hh : (specObjs (e.tmpl :: done)).head? = some (.built e.tmpl (specObjs done).head?) := by simp [hs]
      rw [← hs, ← hh, ih]
      simp [List.append_assoc]

/-- **the result is the described pipeline**: n objects in configuration order, each one's
target the very next object, constructed with exactly the configured arguments, each exactly
once and last to first -/
theorem pipeline_chain (fails : Tmpl → Bool) (elems : List Elem) (h : ∀ e ∈ elems, fails e.tmpl = false) :
    pipeline fails elems = (some (specObjs (elems.map Elem.tmpl)), (elems.map Elem.tmpl).reverse) := by
  have := walk_spec fails elems.reverse [] [] (fun e he => h e (List.mem_reverse.mp he))
  simpa [pipeline, specObjs, List.map_reverse] using this

theorem specObjs_length (ts : List Tmpl) : (specObjs ts).length = ts.length := by
  induction ts with
  | nil => rfl
  | cons t ts ih => simp [specObjs, ih]

/-- target identity: object `i` was built from template `i` with object `i+1` as its target -/
theorem target_is_next (ts : List Tmpl) (i : Nat) (hi : i < ts.length) :
    (specObjs ts)[i]'(by rw [specObjs_length]; exact hi) =
      .built ts[i] ((specObjs ts)[i + 1]?) := by
  induction ts generalizing i with
  | nil => simp at hi
  | cons t ts ih =>
    cases i with
    | zero =>
      simp only [specObjs, List.getElem_cons_zero, Nat.zero_add]
      cases specObjs ts <;> simp
    | succ i =>
      simp only [specObjs, List.getElem_cons_succ]
      have := ih i (by simpa using hi)
      simpa using this

/-- a constructor error surfaces as an error from loading (no list is returned), after
exactly the later elements were constructed -/
theorem walk_error (fails : Tmpl → Bool) : ∀ (pre : List Elem) (e : Elem) (post : List Elem)
    (prev : Option Obj) (acc : List Obj) (log : Log),
    (∀ x ∈ pre, fails x.tmpl = false) → fails e.tmpl = true →
    walk fails (pre ++ e :: post) prev acc log = (none, log ++ pre.map Elem.tmpl)
  | [], e, post, prev, acc, log, _, he => by simp [walk, he]
  | x :: pre, e, post, prev, acc, log, h, he => by
      have hx : fails x.tmpl = false := h x (by simp)
      simp only [List.cons_append, walk, hx, Bool.false_eq_true, if_false, construct1_eq]
      rw [walk_error fails pre e post _ _ _ (fun y hy => h y (by simp [hy])) he]
      simp [List.append_assoc]

theorem pipeline_error (fails : Tmpl → Bool) (before : List Elem) (e : Elem) (after : List Elem)
    (ha : ∀ x ∈ after, fails x.tmpl = false) (he : fails e.tmpl = true) :
    pipeline fails (before ++ e :: after) = (none, (after.map Elem.tmpl).reverse) := by
  unfold pipeline
  have : (before ++ e :: after).reverse = after.reverse ++ e :: before.reverse := by simp
  rw [this]
  have := walk_error fails after.reverse e before.reverse none [] []
    (fun x hx => ha x (List.mem_reverse.mp hx)) he
  simpa [List.map_reverse] using this

/-- **the result equals the pipeline built in Python with `>>`**: for tag elements (templates)
the head object is what any grouping of `t1 >> … >> tn` evaluates to (link to C04) -/
theorem pipeline_eq_rshift (ts : List Tmpl) (tl : Tmpl) (hts : ts ≠ []) (hh : ∀ t ∈ ts, t.leaf = false)
    (hl : tl.leaf = true) (e : Expr) (he : leaves e = ts.map Item.tmpl ++ [.tmpl tl]) :
    (eval e).map (·.1) = (specObjs (ts ++ [tl])).head?.map Item.obj := by
  have hnest : ∀ (ts : List Tmpl), (specObjs (ts ++ [tl])).head? = some (nest ts (mkLeaf tl)) := by
    intro ts
    induction ts with
    | nil => simp [specObjs, nest, mkLeaf]
    | cons t ts ih => simp only [List.cons_append, specObjs, List.head?_cons, nest, ih]
  have htm : ∀ (ts : List Tmpl), tmplsOf (ts.map Item.tmpl) = ts := by
    intro ts
    induction ts with
    | nil => rfl
    | cons t ts ih => simp [tmplsOf, headT, ih]
  have := C04.chain_assoc e (ts.map Item.tmpl) (.tmpl tl) (mkLeaf tl) [tl] he (by simpa using hts)
    (by intro i hi; obtain ⟨t, ht, rfl⟩ := List.mem_map.mp hi; simp [isHead, hh t ht])
    (by simp [tailObj, hl])
  rw [this, hnest, htm]
  rfl

/-! ### non-vacuity -/

def t0 : Tmpl := ⟨0, [], [("interval", ⟨1, false⟩)], false⟩
def t1 : Tmpl := ⟨1, [⟨2, false⟩], [], false⟩
def t2 : Tmpl := ⟨8, [], [], true⟩
example : (pipeline (fun _ => false) [.tag t0, .legacy t1, .tag t2]).2 = [t2, t1, t0] := by decide
example : (pipeline (fun t => t.ctor == 1) [.tag t0, .legacy t1, .tag t2]).2 = [t2] := by decide

/-! ### the walk as written in the source

`Gen.pipelineWalkShape` is re-computed from the syntax tree of
`PipelineTranslator.translate_hierarchy` on every run: only the lookup `structure["pipeline"]` is
guarded by the `except (KeyError, TypeError)` that means "not a pipeline section"; the elements
are walked last to first; the last one is translated without target and constructed if it is still
a template (`construct1 none`); every other one is bound with `>>` if it has one (`.tag`), else
translated with `target=` the previous object (`.legacy`); the result is in configuration order
(`pipeline` = `walk` over the reversed list). -/

theorem gen_pipeline_walk_shape : Gen.pipelineWalkShape = true := rfl

end Cobald.Props.C05

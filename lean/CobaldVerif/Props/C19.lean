/-
C19 — Nested `__type__` mappings translate bottom-up with exact error locations.
All theorems are for every finite tree and every environment (`resolve`, `apply` arbitrary).
-/
import CobaldVerif.Model.Translate
import CobaldVerif.Generated.Src

namespace Cobald.Props.C19
open Cobald Cobald.Translate

/-! ### plain data is left unchanged -/

mutual
def noType : Cfg → Bool
  | .scalar _ => true
  | .list l => noTypeItems l
  | .map m => !hasType m && noTypeEntries m
def noTypeItems : List Cfg → Bool
  | [] => true
  | c :: cs => noType c && noTypeItems cs
def noTypeEntries : List (String × Cfg) → Bool
  | [] => true
  | (_, c) :: rest => noType c && noTypeEntries rest
end

mutual
theorem plain_identity (env : Env) : ∀ (c : Cfg) (w : Path) (log : Log), noType c = true →
    tr env c w log = .ok (embed c, log)
  | .scalar s, w, log, _ => by simp [tr, embed]
  | .list l, w, log, h => by
      have := plain_items env l w 0 log (by simpa [noType] using h)
      simp [tr, embed, this]
  | .map m, w, log, h => by
      have h' : hasType m = false ∧ noTypeEntries m = true := by simpa [noType] using h
      have := plain_entries env m w log h'.2
      simp [tr, embed, this, h'.1]
theorem plain_items (env : Env) : ∀ (l : List Cfg) (w : Path) (i : Nat) (log : Log), noTypeItems l = true →
    trItems env l w i log = .ok (embedItems l, log)
  | [], w, i, log, _ => by simp [trItems, embedItems]
  | c :: cs, w, i, log, h => by
      have h' : noType c = true ∧ noTypeItems cs = true := by simpa [noTypeItems] using h
      simp [trItems, embedItems, plain_items env cs w (i + 1) log h'.2, plain_identity env c _ log h'.1]
theorem plain_entries (env : Env) : ∀ (m : List (String × Cfg)) (w : Path) (log : Log), noTypeEntries m = true →
    trEntries env m w log = .ok (embedEntries m, log)
  | [], w, log, _ => by simp [trEntries, embedEntries]
  | (k, c) :: rest, w, log, h => by
      have h' : noType c = true ∧ noTypeEntries rest = true := by simpa [noTypeEntries] using h
      simp [trEntries, embedEntries, plain_identity env c _ log h'.1, plain_entries env rest w log h'.2]
end

/-! ### the call log follows the documented order; errors carry the exact location -/

def paths (log : Log) : List Path := log.map (·.path)

/-- what a run from `log` over the `__type__` positions `ps` must look like -/
def Good {α : Type} (log : Log) (ps : List Path) : Res α → Prop
  | .ok (_, log') => paths log' = paths log ++ ps
  | .error (p, log') => ∃ pre post, ps = pre ++ p :: post ∧ paths log' = paths log ++ pre

theorem construct_good (env : Env) (w : Path) (vs : List (String × Val)) (log : Log) :
    Good log [w] (construct env w vs log) := by
  unfold construct
  split
  · split
    · exact ⟨[], [], rfl, by simp⟩
    · split
      · exact ⟨[], [], rfl, by simp⟩
      · split
        · simp [Good, paths]
        · exact ⟨[], [], rfl, by simp⟩
  · exact ⟨[], [], rfl, by simp⟩

theorem good_append_left {α β : Type} (log log1 : Log) (p1 p2 : List Path) (r : Res β)
    (h1 : paths log1 = paths log ++ p1) (h2 : Good log1 p2 r) : Good log (p1 ++ p2) r := by
  cases r with
  | ok x => obtain ⟨v, l⟩ := x; simp only [Good] at *; rw [h2, h1, List.append_assoc]
  | error e =>
    obtain ⟨p, l⟩ := e
    obtain ⟨pre, post, he, hl⟩ := h2
    exact ⟨p1 ++ pre, post, by rw [he, List.append_assoc], by rw [hl, h1, List.append_assoc]⟩

theorem good_error_right {α : Type} (log : Log) (p1 p2 : List Path) (e : Path × Log)
    (h : Good log p1 (.error e : Res α)) : ∃ pre post, p1 ++ p2 = pre ++ e.1 :: post ∧ paths e.2 = paths log ++ pre := by
  obtain ⟨p, l⟩ := e
  obtain ⟨pre, post, he, hl⟩ := h
  exact ⟨pre, post ++ p2, by rw [he]; simp, hl⟩

mutual
theorem tr_good (env : Env) : ∀ (c : Cfg) (w : Path) (log : Log), Good log (typePaths c w) (tr env c w log)
  | .scalar s, w, log => by simp [tr, typePaths, Good]
  | .list l, w, log => by
      have := trItems_good env l w 0 log
      simp only [tr, typePaths]
      cases h : trItems env l w 0 log with
      | ok x => obtain ⟨vs, l'⟩ := x; rw [h] at this; exact this
      | error e => obtain ⟨p, l'⟩ := e; rw [h] at this; exact this
  | .map m, w, log => by
      have := trEntries_good env m w log
      simp only [tr, typePaths]
      cases h : trEntries env m w log with
      | error e =>
        rw [h] at this
        obtain ⟨p, l'⟩ := e
        exact good_error_right log _ _ (p, l') this
      | ok x =>
        obtain ⟨vs, log'⟩ := x
        rw [h] at this
        simp only [Good] at this
        by_cases ht : hasType m = true
        · simp only [ht, if_true]
          exact good_append_left (α := Val) log log' _ _ _ this (construct_good env w vs log')
        · simp only [ht, if_false]
          simpa [Good] using this
theorem trItems_good (env : Env) : ∀ (l : List Cfg) (w : Path) (i : Nat) (log : Log),
    Good log (typePathsItems l w i) (trItems env l w i log)
  | [], w, i, log => by simp [trItems, typePathsItems, Good]
  | c :: cs, w, i, log => by
      have h1 := trItems_good env cs w (i + 1) log
      simp only [trItems, typePathsItems]
      cases hr : trItems env cs w (i + 1) log with
      | error e =>
        rw [hr] at h1
        obtain ⟨p, l'⟩ := e
        exact good_error_right log _ _ (p, l') h1
      | ok x =>
        obtain ⟨vs, log1⟩ := x
        rw [hr] at h1
        simp only [Good] at h1
        have h2 := tr_good env c (w ++ [.idx i]) log1
        dsimp only
        cases hc : tr env c (w ++ [.idx i]) log1 with
        | error e =>
          rw [hc] at h2
          dsimp only
          exact good_append_left (α := Val) log log1 _ _ _ h1 h2
        | ok y =>
          obtain ⟨v, log2⟩ := y
          rw [hc] at h2
          have := good_append_left (α := Val) (β := Val) log log1 _ _ (.ok (v, log2)) h1 h2
          dsimp only
          simpa [Good] using this
theorem trEntries_good (env : Env) : ∀ (m : List (String × Cfg)) (w : Path) (log : Log),
    Good log (typePathsEntries m w) (trEntries env m w log)
  | [], w, log => by simp [trEntries, typePathsEntries, Good]
  | (k, c) :: rest, w, log => by
      have h1 := tr_good env c (w ++ [.key k]) log
      simp only [trEntries, typePathsEntries]
      cases hc : tr env c (w ++ [.key k]) log with
      | error e =>
        rw [hc] at h1
        obtain ⟨p, l'⟩ := e
        exact good_error_right log _ _ (p, l') h1
      | ok x =>
        obtain ⟨v, log1⟩ := x
        rw [hc] at h1
        simp only [Good] at h1
        have h2 := trEntries_good env rest w log1
        dsimp only
        cases hr : trEntries env rest w log1 with
        | error e =>
          rw [hr] at h2
          dsimp only
          exact good_append_left (α := Val) log log1 _ _ _ h1 h2
        | ok y =>
          obtain ⟨vs, log2⟩ := y
          rw [hr] at h2
          have := good_append_left (α := Val) (β := List (String × Val)) log log1 _ _ (.ok (vs, log2)) h1 h2
          dsimp only
          simpa [Good] using this
end

/-- on success every `__type__` node was called exactly once, children before parents, later
list items before earlier ones, mapping values in insertion order -/
theorem log_eq_spec (env : Env) (c : Cfg) (v : Val) (log' : Log)
    (h : tr env c [] [] = .ok (v, log')) : paths log' = typePaths c [] := by
  have := tr_good env c [] []
  rw [h] at this
  simpa [Good, paths] using this

theorem each_once (env : Env) (c : Cfg) (v : Val) (log' : Log)
    (h : tr env c [] [] = .ok (v, log')) : log'.length = (typePaths c []).length := by
  have := log_eq_spec env c v log' h
  simpa [paths] using congrArg List.length this

/-- a failure is reported at the path of the first `__type__` node, in evaluation order, whose
factory cannot be resolved or called; exactly the nodes before it were constructed -/
theorem error_path (env : Env) (c : Cfg) (p : Path) (log' : Log)
    (h : tr env c [] [] = .error (p, log')) :
    ∃ pre post, typePaths c [] = pre ++ p :: post ∧ paths log' = pre := by
  have := tr_good env c [] []
  rw [h] at this
  simpa [Good, paths] using this

/-- the factory receives `__args__` as positionals and the remaining items as keywords -/
theorem construct_args (env : Env) (w : Path) (m : List (String × Val)) (log : Log) (v : Val) (log' : Log)
    (h : construct env w m log = .ok (v, log')) :
    ∃ name f args, lookupV "__type__" m = some (.scalar (.str name)) ∧ env.resolve name = some f ∧
      getArgs (eraseKey "__type__" m) = some args ∧
      env.apply f args (eraseKey "__args__" (eraseKey "__type__" m)) log.length = some v ∧
      log' = log ++ [{ path := w, factory := f, args := args,
                       kwargs := eraseKey "__args__" (eraseKey "__type__" m) }] := by
  unfold construct at h
  split at h
  · rename_i name hty
    split at h
    · simp at h
    · rename_i f hres
      split at h
      · simp at h
      · rename_i args hargs
        split at h
        · rename_i v' hap
          simp only [Except.ok.injEq, Prod.mk.injEq] at h
          obtain ⟨rfl, rfl⟩ := h
          exact ⟨name, f, args, hty, hres, hargs, hap, rfl⟩
        · simp at h
  · simp at h

/-! ### non-vacuity: a depth-3 tree with a failing factory under `.a.b[1].k` -/

def exEnv : Env :=
  { resolve := fun n => if n = "ok" then some 0 else if n = "bad" then some 1 else none
    apply := fun f _ _ n => if f = 0 then some (.obj n) else none }

def exTree : Cfg :=
  .map [("a", .map [("b", .list [.map [("__type__", .scalar (.str "ok"))],
                                  .map [("k", .map [("__type__", .scalar (.str "bad"))]),
                                        ("__type__", .scalar (.str "ok"))],
                                  .map [("__type__", .scalar (.str "ok")), ("x", .scalar (.other 1))]])])]

example : typePaths exTree [] =
    [[.key "a", .key "b", .idx 2], [.key "a", .key "b", .idx 1, .key "k"], [.key "a", .key "b", .idx 1],
     [.key "a", .key "b", .idx 0]] := by decide
def errView : Res Val → Option (Path × List Path)
  | .error (p, l) => some (p, paths l)
  | .ok _ => none
example : errView (tr exEnv exTree [] []) =
    some ([.key "a", .key "b", .idx 1, .key "k"], [[.key "a", .key "b", .idx 2]]) := by decide

/-! ### the translator as written in the source

`Gen.translatorKeys` is only emitted when `Translator.translate_hierarchy` and `Translator.construct`
are, up to layout, the text the model `tr` / `construct` was transcribed from; it holds the two
reserved keys the model uses. `Gen.pipelineWalkShape`: the pipeline section passes every element
through this same translation (`PipelineTranslator` falls back to it for everything that is not a
mapping with a `pipeline` key). -/

theorem gen_translator_keys :
    Gen.translatorKeys = ["__type__", "__args__"] ∧ Gen.pipelineWalkShape = true ∧
    (∀ m, hasType m = m.any (fun kv => kv.1 == Gen.translatorKeys[0]!)) ∧
    (∀ rest, getArgs rest = match lookupV (Gen.translatorKeys[1]!) rest with
      | none => some [] | some (.list l) => some l | some _ => none) :=
  ⟨rfl, rfl, fun _ => rfl, fun _ => rfl⟩

end Cobald.Props.C19

/-
Model of PyYAML's constructor dispatch as COBalD uses it (C18).

  BaseConstructor.construct_object -> `construct` (exact tag, then a matching prefix of
      `yaml_multi_constructors`, then the `None` entry)
  the loader's tables              -> `Loader` (regenerated from the live loader class into
      Generated/Tables.lean on every run)
Every constructor that the dispatch runs is logged; children of mappings and sequences are
all constructed (eagerly or later — "lazily" — but before loading returns).
-/
namespace Cobald.YamlSafe

/-- tags are character lists (so that statements about concrete tables are decidable by
kernel computation) -/
abbrev Tag := List Char

inductive Node
  | scalar (tag : Tag)
  | seq (tag : Tag) (items : List Node)
  | map (tag : Tag) (items : List (Node × Node))

def Node.tag : Node → Tag
  | .scalar t => t
  | .seq t _ => t
  | .map t _ => t

/-- what kind of callable a table entry is -/
inductive Kind
  | std          -- a method of yaml.constructor.SafeConstructor
  | plugin       -- `yaml_constructor(factory)` of cobald.daemon.config.yaml
  | undefined    -- SafeConstructor.construct_undefined: raises
  | other        -- anything else
deriving Repr, DecidableEq

structure Loader where
  table : List (Tag × Kind)             -- yaml_constructors (exact tags)
  multi : List (Tag × Kind)             -- yaml_multi_constructors (tag prefixes)
  fallback : Option Kind                -- the `None` entry of yaml_constructors
  multiFallback : Option Kind           -- the `None` entry of yaml_multi_constructors
deriving Repr, DecidableEq

def lookup (k : Tag) : List (Tag × Kind) → Option Kind
  | [] => none
  | (k', v) :: r => if k' = k then some v else lookup k r

/-- which constructor `construct_object` picks for a tag -/
def dispatch (L : Loader) (tag : Tag) : Option Kind :=
  match lookup tag L.table with
  | some k => some k
  | none =>
    match L.multi.find? (fun p => p.1.isPrefixOf tag) with
    | some p => some p.2
    | none =>
      match L.multiFallback with
      | some k => some k
      | none => L.fallback      -- `none` here: plain construct_scalar/sequence/mapping of the node

structure Call where
  tag : Tag
  kind : Kind
deriving Repr, DecidableEq

mutual
/-- constructing a document: the log of constructor calls, or `none` if loading raises -/
def construct (L : Loader) : Node → Option (List Call)
  | .scalar t =>
    match dispatch L t with
    | some .undefined => none
    | some k => some [{ tag := t, kind := k }]
    | none => some []
  | .seq t items =>
    match dispatch L t with
    | some .undefined => none
    | k =>
      match constructList L items with
      | some l => some ((match k with | some k => [{ tag := t, kind := k }] | none => []) ++ l)
      | none => none
  | .map t items =>
    match dispatch L t with
    | some .undefined => none
    | k =>
      match constructPairs L items with
      | some l => some ((match k with | some k => [{ tag := t, kind := k }] | none => []) ++ l)
      | none => none
def constructList (L : Loader) : List Node → Option (List Call)
  | [] => some []
  | n :: ns =>
    match construct L n with
    | some l1 =>
      match constructList L ns with
      | some l2 => some (l1 ++ l2)
      | none => none
    | none => none
def constructPairs (L : Loader) : List (Node × Node) → Option (List Call)
  | [] => some []
  | (k, v) :: ps =>
    match construct L k with
    | some l1 =>
      match construct L v with
      | some l2 =>
        match constructPairs L ps with
        | some l3 => some (l1 ++ l2 ++ l3)
        | none => none
      | none => none
    | none => none
end

mutual
/-- all tags used anywhere in a document -/
def tags : Node → List Tag
  | .scalar t => [t]
  | .seq t items => t :: tagsList items
  | .map t items => t :: tagsPairs items
def tagsList : List Node → List Tag
  | [] => []
  | n :: ns => tags n ++ tagsList ns
def tagsPairs : List (Node × Node) → List Tag
  | [] => []
  | (k, v) :: ps => tags k ++ tags v ++ tagsPairs ps
end

def pythonPrefix : Tag :=
  ['t','a','g',':','y','a','m','l','.','o','r','g',',','2','0','0','2',':','p','y','t','h','o','n','/']

def isPythonTag (t : Tag) : Bool := pythonPrefix.isPrefixOf t

end Cobald.YamlSafe

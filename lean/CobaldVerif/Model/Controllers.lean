/-
Models of the shipped controllers (C08), over exact rationals.

  LinearController.regulate          -> `linearStep`
  RelativeSupplyController.regulate  -> `relStep`
  RangeSelector._compile_lookup      -> `compile`   (sorted thresholds, ranges from 0)
  RangeSelector.get_rule             -> `getRule`
  Stepwise.run (one iteration)       -> `stepwiseStep`
  DemandSwitch.__init__ / regulate   -> `switchSelect`, `switchStep`
Rules and slave controllers are parameters (`rule : RuleId → Pool → Rat → Option Rat`).
-/
import CobaldVerif.Model.Num

namespace Cobald.Controllers

structure Pool where
  supply : Rat
  demand : Rat
  util : Rat
  alloc : Rat
deriving Repr, DecidableEq

/-! ### LinearController -/

structure Linear where
  low : Rat      -- low_utilisation
  high : Rat     -- high_allocation
  rate : Rat
deriving Repr, DecidableEq

/-- the constructor's assertions -/
def Linear.ok (c : Linear) : Prop := 0 < c.rate ∧ c.low ≤ c.high
instance (c : Linear) : Decidable c.ok := by unfold Linear.ok; infer_instance

def linearStep (c : Linear) (interval : Rat) (p : Pool) : Pool :=
  if p.util < c.low then { p with demand := p.demand - interval * c.rate }
  else if c.high < p.alloc then { p with demand := p.demand + interval * c.rate }
  else p

/-! ### RelativeSupplyController -/

structure RelSupply where
  low : Rat
  high : Rat
  lowScale : Rat
  highScale : Rat
deriving Repr, DecidableEq

def RelSupply.ok (c : RelSupply) : Prop := c.low ≤ c.high ∧ c.lowScale < 1 ∧ 1 < c.highScale
instance (c : RelSupply) : Decidable c.ok := by unfold RelSupply.ok; infer_instance

def relStep (c : RelSupply) (p : Pool) : Pool :=
  if p.util < c.low then { p with demand := p.supply * c.lowScale }
  else if c.high < p.alloc then { p with demand := p.supply * c.highScale }
  else { p with demand := p.supply }

/-! ### Stepwise -/

abbrev RuleId := Nat

/-- insertion of `(t, r)` into a list sorted by threshold (stable) -/
def insertSorted (x : Rat × RuleId) : List (Rat × RuleId) → List (Rat × RuleId)
  | [] => [x]
  | y :: ys => if x.1 < y.1 then x :: y :: ys else y :: insertSorted x ys

def sortRules : List (Rat × RuleId) → List (Rat × RuleId)
  | [] => []
  | x :: xs => insertSorted x (sortRules xs)

/-- ranges `[low, high)` with their rules; `high = none` is +inf -/
abbrev Lookup := List (Rat × Option Rat × RuleId)

def mkRanges (low : Rat) (r : RuleId) : List (Rat × RuleId) → Lookup
  | [] => [(low, none, r)]
  | (t, r') :: rest => (low, some t, r) :: mkRanges t r' rest

def rangesOk : Lookup → Bool
  | [] => true
  | (low, some high, _) :: rest => low != high && rangesOk rest
  | (_, none, _) :: rest => rangesOk rest

/-- `_compile_lookup(base, rules)`: `none` when two consecutive bounds coincide
(duplicate thresholds, or a threshold equal to 0): the constructor raises -/
def compile (base : RuleId) (rules : List (Rat × RuleId)) : Option Lookup :=
  let l := mkRanges 0 base (sortRules rules)
  if rangesOk l then some l else none

/-- `s < high` with `none` = +inf -/
def belowHigh (s : Rat) : Option Rat → Bool
  | some h => decide (s < h)
  | none => true

def getRule : Lookup → Rat → Option RuleId
  | [], _ => none
  | (low, high, r) :: rest, s =>
    if low ≤ s ∧ belowHigh s high = true then some r
    else getRule rest s

/-- one iteration of `Stepwise.run`: exactly one rule call; `none` from the rule keeps demand.
Returns the new pool and the call made (`none` when no rule is found: the real code raises) -/
def stepwiseStep (l : Lookup) (rule : RuleId → Pool → Rat → Option Rat) (interval : Rat) (p : Pool) :
    Option (Pool × RuleId) :=
  match getRule l p.supply with
  | none => none
  | some r =>
    match rule r p interval with
    | some d => some ({ p with demand := d }, r)
    | none => some (p, r)

/-! ### DemandSwitch -/

abbrev CtlId := Nat

/-- `regulate`: the last slave (in threshold order) whose threshold is ≤ demand, else default -/
def switchSelect (dflt : CtlId) (sorted : List (Rat × CtlId)) (demand : Rat) : CtlId :=
  sorted.foldl (fun chosen ts => if ts.1 ≤ demand then ts.2 else chosen) dflt

def switchStep (dflt : CtlId) (slaves : List (Rat × CtlId)) (act : CtlId → Rat → Pool → Pool)
    (interval : Rat) (p : Pool) : Pool × CtlId :=
  let c := switchSelect dflt (sortRules slaves) p.demand
  (act c interval p, c)

end Cobald.Controllers

/-
The runtime model (C01 C02 C03 C10 C11 C12 C13): one labelled transition system for the
MetaRunner / ServiceRunner protocol over the three runners.

What is *logic* in daemon/runners/*.py is modelled: who is registered where
(`register_payload`, the start-up queue, the service sweep), which failure wins (the
first-failure latches `_payload_failure` of AsyncioRunner / ThreadRunner and the trio nursery),
what `_manage_runners` sees (`gather`), what is closed in which order (`aclose`), when the run
ends and with which result, and the `exclusive` guard of `accept`.
The behaviour of asyncio, trio and threading enters as the enabling conditions of the events
(DESIGN §7.1 "environment rules"): these are assumptions, not theorems.

`step : St → Ev → Option St` is a trace acceptor; `Reach` (Props) is what theorems quantify over.
-/
namespace Cobald.Runtime

inductive Flav | aio | trio | thr
deriving DecidableEq, Repr

/-- how a payload body ends -/
inductive Out
  | none                 -- returned None
  | value                -- returned something else (falsy values included)
  | exc                  -- raised an Exception subclass
  | baseExc              -- raised another BaseException (GeneratorExit, custom)
  | sysExit              -- raised SystemExit
  | kbd                  -- raised KeyboardInterrupt
deriving DecidableEq, Repr

/-- asyncio lets KeyboardInterrupt and SystemExit escape from a task and stop the event loop at
once: raised by an asyncio / thread payload (i.e. re-raised inside the runner's task) they end
the run immediately, whatever was in progress -/
def Out.loopKiller : Out → Bool
  | .kbd => true
  | .sysExit => true
  | _ => false

/-- outcomes that count as a background failure -/
def Out.failing : Out → Bool
  | .none => false
  | _ => true

inductive PSt
  | absent
  | queued                         -- adopted before the runners exist
  | unit                           -- a service instance whose run has not been adopted yet
  | submitted                      -- registered with its runner, not started yet
  | running
  | ended (o : Out)                -- body over, outcome not yet seen by the runner's monitor
  | done (o : Out)                 -- outcome processed by the monitor
  | unwound                        -- cancelled by the framework, cleanup finished
  | discarded                      -- dropped because the runtime is shutting down
deriving DecidableEq, Repr

inductive Latch
  | opened
  | failed (p : Nat)
  | closed
deriving DecidableEq, Repr

def Latch.isFailed : Latch → Bool
  | .failed _ => true
  | _ => false

inductive RTask
  | running
  | ok
  | err (p : Nat)
  | cancelled
deriving DecidableEq, Repr

inductive Gather
  | pending
  | raised (p : Nat)
  | interrupted
  | completed
deriving DecidableEq, Repr

inductive Res
  | returned
  | raisedRT (p : Nat)             -- RuntimeError("background task failed") from p's failure
  | raisedBase (p : Nat)           -- a non-Exception BaseException of p propagates as it is
deriving DecidableEq, Repr

inductive Phase
  | idle
  | launching                      -- accept() entered, guard taken, runners not yet up
  | up
  | ended (r : Res)
deriving DecidableEq, Repr

/-- who calls adopt / execute -/
inductive Ctx
  | outside
  | inside (f : Flav)
deriving DecidableEq, Repr

structure St where
  phase : Phase
  guard : Option Nat               -- which ServiceRunner holds the `exclusive` lock of accept
  pay : Nat → PSt
  fl : Nat → Flav
  starts : Nat → Nat               -- how often payload p was started
  tid : Nat → Option Nat           -- thread a payload runs on
  latch : Flav → Latch             -- aio/thr: `_payload_failure`; trio: the nursery
  rtask : Flav → RTask
  gather : Gather
  stopReq : Bool                   -- shutdown()/stop() has been called
  flushed : Bool                   -- `_unqueue_payloads` has run
  loopTid : Option Nat             -- thread of the asyncio event loop
  trioTid : Option Nat             -- thread of trio.run
  thrTids : List Nat               -- threads of the thread payloads of this run
  execs : Nat → Option (Flav × Nat)  -- execute calls in flight: flavour and thread
  failedQuiet : List Nat           -- ghost: failures recorded while nothing had asked the run to stop
  holder : Nat → Option Nat        -- a service instance that the frame of a payload refers to strongly
  pids : List Nat                  -- every payload / unit ever registered

def upd {α} (f : Nat → α) (p : Nat) (v : α) : Nat → α := fun q => if q = p then v else f q

def St.init : St :=
  { phase := .idle, guard := none, pay := fun _ => .absent, fl := fun _ => .thr, starts := fun _ => 0,
    tid := fun _ => none, latch := fun _ => .opened, rtask := fun _ => .running, gather := .pending,
    stopReq := false, flushed := false, loopTid := none, trioTid := none, thrTids := [], execs := fun _ => none,
    failedQuiet := [], holder := fun _ => none, pids := [] }

def Phase.isEnded : Phase → Bool
  | .ended _ => true
  | _ => false

def Phase.restartable : Phase → Bool
  | .idle => true
  | .ended _ => true
  | _ => false

/-- nothing has asked the run to stop yet -/
def St.quiet (s : St) : Prop := s.stopReq = false ∧ s.gather = .pending
instance (s : St) : Decidable s.quiet := by unfold St.quiet; infer_instance

/-- the runtime has begun closing -/
def St.closing (s : St) : Prop := s.stopReq = true ∨ s.gather ≠ .pending
instance (s : St) : Decidable s.closing := by unfold St.closing; infer_instance

def Flav.isCo : Flav → Bool
  | .thr => false
  | _ => true

inductive Ev
  -- observable
  | acceptBegin (r : Nat)               -- ServiceRunner r enters accept(): takes the guard
  | acceptReject (r : Nat)              -- concurrent accept: RuntimeError, nothing changes
  | adopt (p : Nat) (f : Flav)          -- adopt(payload, flavour=f) returned None
  | newUnit (p : Nat) (f : Flav)        -- a service instance was created
  | start (p : Nat) (t : Nat)           -- payload p begins to run, on thread t
  | bodyEnd (p : Nat) (o : Out)         -- the payload's body returned / raised
  | unwound (p : Nat)                   -- a cancelled coroutine payload finished its cleanup
  | sigint                              -- KeyboardInterrupt delivered to the main task
  | shutdownCall                        -- shutdown() / stop()
  | execBegin (e : Nat) (f : Flav) (t : Nat)   -- execute(...) started running its payload on thread t
  | execEnd (e : Nat) (o : Out)         -- … and handed the outcome to the caller
  | endRun (r : Res)                    -- accept() / run() returned or raised
  -- internal (not directly observable)
  | launch                              -- `_launch_runners`: runners, latches, `running` flag
  | flush                               -- `_unqueue_payloads`
  | sweep (p : Nat)                     -- `_adopt_services` adopts the run method of unit p
  | record (p : Nat)                    -- the runner's monitor processes p's outcome
  | close (f : Flav)                    -- `aclose` of runner f
  | rtaskEnd (f : Flav)                 -- runner task f finishes
  | gatherRaise (f : Flav)              -- `gather` delivers runner f's failure to `_manage_runners`
  | gatherDone                          -- all runner tasks finished without error
  | discard (p : Nat)                   -- a submitted payload is dropped by a closing runner
  -- references and garbage collection of service instances (C13: "keeps all of them alive")
  | hold (p h : Nat)                    -- the running payload h keeps a strong reference to service p
  | dropUnit (p : Nat)                  -- service p, not yet adopted, is garbage collected
deriving Repr, DecidableEq

/-- service p is strongly referenced by the frame of a payload that is running -/
def St.held (s : St) (p : Nat) : Bool :=
  match s.holder p with
  | some h => decide (s.pay h = .running)
  | none => false

def Ev.internal : Ev → Bool
  | .launch | .flush | .sweep _ | .record _ | .close _ | .rtaskEnd _ | .gatherRaise _ | .gatherDone | .discard _
  | .hold _ _ | .dropUnit _ => true
  | _ => false

/-- a coroutine payload that is still executing (or whose outcome the loop has not yet seen) -/
def St.coBusy (s : St) (p : Nat) : Bool :=
  match s.pay p with
  | .running => true
  | .ended _ => true
  | _ => false

/-- the thread a flavour's payloads must run on (none = not fixed yet) -/
def St.flavTid (s : St) : Flav → Option Nat
  | .aio => s.loopTid
  | .trio => s.trioTid
  | .thr => none

def St.setFlavTid (s : St) (f : Flav) (t : Nat) : St :=
  match f with
  | .aio => { s with loopTid := some t }
  | .trio => { s with trioTid := some t }
  | .thr => { s with thrTids := t :: s.thrTids }

/-- thread routing: coroutine flavours stick to their one thread, thread payloads stay off them -/
def St.tidOK (s : St) (f : Flav) (t : Nat) : Bool :=
  match f with
  | .aio => (s.loopTid == none || s.loopTid == some t) && s.trioTid != some t && !s.thrTids.contains t
  | .trio => (s.trioTid == none || s.trioTid == some t) && s.loopTid != some t && !s.thrTids.contains t
  | .thr => s.loopTid != some t && s.trioTid != some t

/-- which result the run call may end with, read off what `gather` saw.
A KeyboardInterrupt raised by a payload may end the run either way ("only a KeyboardInterrupt
ends the run without an error"): thread / asyncio payloads make it return, a trio payload
makes it raise the exception group -/
def St.resultOK (s : St) (r : Res) : Bool :=
  match s.gather with
  | .raised p =>
    (match s.pay p with
     | .done .baseExc => r == .raisedBase p
     | .done .sysExit => r == .raisedBase p
     | .done .kbd => r == .raisedBase p || r == .returned
     | _ => r == .raisedRT p)
  | _ => r == .returned

def step (s : St) : Ev → Option St
  | .acceptBegin r =>
      if s.guard = none ∧ s.phase.restartable then
        -- a new run: fresh latches, runner tasks, flags; payloads of an earlier run are history
        some { s with phase := .launching, guard := some r, latch := fun _ => .opened,
                      rtask := fun _ => .running, gather := .pending, stopReq := false, flushed := false,
                      loopTid := none, trioTid := none, thrTids := [], failedQuiet := [] }
      else none
  | .acceptReject _ => if s.guard ≠ none then some s else none
  | .launch => if s.phase = .launching then some { s with phase := .up } else none
  | .adopt p f =>
      if s.pay p = .absent then
        match s.phase with
        | .idle | .launching => some { s with pay := upd s.pay p .queued, fl := upd s.fl p f, pids := p :: s.pids }
        | .ended _ => some { s with pay := upd s.pay p .queued, fl := upd s.fl p f, pids := p :: s.pids }
        | .up =>
          -- registered with the runner; a runner that is shutting down may drop it
          some { s with pay := upd s.pay p .submitted, fl := upd s.fl p f, pids := p :: s.pids }
      else none
  | .newUnit p f =>
      if s.pay p = .absent then some { s with pay := upd s.pay p .unit, fl := upd s.fl p f, pids := p :: s.pids } else none
  | .flush =>
      if s.phase = .up ∧ s.flushed = false then
        some { s with flushed := true,
                      pay := fun q => if s.pay q = .queued then .submitted else s.pay q }
      else none
  | .sweep p =>
      -- the accept loop (a trio payload) runs while no shutdown was requested and trio is alive
      if s.phase = .up ∧ s.pay p = .unit ∧ s.stopReq = false ∧ s.latch .trio = .opened then
        some { s with pay := upd s.pay p .submitted }
      else none
  | .start p t =>
      -- payloads can still be started while the runtime is closing: an asyncio task or a trio
      -- task already handed to the nursery begins and is cancelled at its first checkpoint
      -- … and a thread payload whose thread was already created may begin after the run call has
      -- ended (threads are never awaited: they may outlive the run)
      -- (after a run that was stopped cleanly the old ThreadRunner is still around: a thread payload
      -- adopted then - `queued` as far as a later run is concerned - is started by it right away)
      if (s.pay p = .submitted ∧ (s.phase = .up ∨ (s.fl p = .thr ∧ s.phase.isEnded = true))
          ∨ (s.pay p = .queued ∧ s.fl p = .thr ∧ s.phase.isEnded = true)) ∧ s.tidOK (s.fl p) t then
        some { (s.setFlavTid (s.fl p) t) with pay := upd s.pay p .running, starts := upd s.starts p (s.starts p + 1),
                                               tid := upd s.tid p (some t) }
      else none
  | .bodyEnd p o =>
      -- a failing outcome still has to reach the runner's monitor (`record`); `None` needs nothing
      if s.pay p = .running then
        some { s with pay := upd s.pay p (if o.failing then .ended o else .done o) }
      else none
  | .record p =>
      match s.pay p with
      | .ended o =>
        if s.phase ≠ .up then
          -- the run is over: nobody is left to notice (threads may outlive the run)
          some { s with pay := upd s.pay p (.done o) }
        else if o.loopKiller ∧ s.fl p ≠ .trio then
          if s.latch (s.fl p) = .opened ∨ (o = .kbd ∧ s.fl p = .aio) then
            -- stops the event loop at once, overriding whatever `gather` had seen before
            some { s with pay := upd s.pay p (.done o),
                          latch := if s.latch (s.fl p) = .opened then upd' s.latch (s.fl p) (.failed p) else s.latch,
                          gather := if o = .kbd then .interrupted else .raised p,
                          rtask := fun f => if s.rtask f = .running then .cancelled else s.rtask f }
          else some { s with pay := upd s.pay p (.done o) }
        else if o.failing then
          -- first failure wins; a closed latch drops it
          some { s with pay := upd s.pay p (.done o),
                        latch := if s.latch (s.fl p) = .opened then upd' s.latch (s.fl p) (.failed p) else s.latch,
                        failedQuiet := if s.quiet ∧ s.latch (s.fl p) = .opened ∧ o ≠ .kbd then p :: s.failedQuiet else s.failedQuiet }
        else some { s with pay := upd s.pay p (.done o) }
      | _ => none
  | .unwound p =>
      if s.pay p = .running ∧ (s.fl p).isCo ∧ s.latch (s.fl p) ≠ .opened then
        some { s with pay := upd s.pay p .unwound }
      else none
  | .discard p =>
      if s.pay p = .submitted ∧ s.closing then some { s with pay := upd s.pay p .discarded } else none
  | .hold p h =>
      -- only code that is running can take a reference
      if s.pay h = .running then some { s with holder := upd s.holder p (some h) } else none
  | .dropUnit p =>
      -- a service unit holds its instance weakly until it is started: the instance can be collected
      -- only while no running payload refers to it
      if s.pay p = .unit ∧ s.held p = false then some { s with pay := upd s.pay p .discarded } else none
  | .sigint =>
      if s.phase = .up ∧ s.gather = .pending then
        some { s with gather := .interrupted,
                      rtask := fun f => if s.rtask f = .running then .cancelled else s.rtask f }
      else none
  | .shutdownCall =>
      -- on a runner that is not running (before accept, or after the run has ended in whatever
      -- way) shutdown() finds everything stopped and returns at once: nothing changes
      if s.phase = .up then some { s with stopReq := true }
      else if s.phase.restartable then some s else none
  | .close f =>
      if s.phase = .up ∧ s.closing then
        some { s with latch := if s.latch f = .opened then upd' s.latch f .closed else s.latch }
      else none
  | .rtaskEnd f =>
      if s.phase = .up ∧ s.rtask f = .running then
        match s.latch f with
        | .failed p => some { s with rtask := upd' s.rtask f (.err p) }
        | .closed => some { s with rtask := upd' s.rtask f .ok }
        | .opened => none
      else none
  | .gatherRaise f =>
      match s.rtask f, s.gather with
      | .err p, .pending => if s.phase = .up then some { s with gather := .raised p } else none
      | _, _ => none
  | .gatherDone =>
      if s.phase = .up ∧ s.gather = .pending ∧ s.rtask .aio = .ok ∧ s.rtask .trio = .ok ∧ s.rtask .thr = .ok then
        some { s with gather := .completed }
      else none
  | .execBegin e f t =>
      -- asyncio / trio payloads are executed on their one thread; a threading payload is run
      -- directly by the calling thread, whichever that is (ThreadRunner.run_payload)
      if s.phase = .up ∧ s.execs e = none ∧ (f = .thr ∨ s.tidOK f t) then
        some { (if f = .thr then s else s.setFlavTid f t) with execs := upd s.execs e (some (f, t)) }
      else none
  | .execEnd e _ =>
      match s.execs e with
      | some _ => some { s with execs := upd s.execs e none }
      | none => none
  | .endRun r =>
      -- the run call ends only after every runner task is over and every coroutine payload has
      -- unwound (asyncio.run / trio.run wait for their tasks); the result is read off `gather`
      if s.phase = .up ∧ s.gather ≠ .pending
          ∧ s.rtask .aio ≠ .running ∧ s.rtask .trio ≠ .running ∧ s.rtask .thr ≠ .running
          ∧ s.latch .aio ≠ .opened ∧ s.latch .trio ≠ .opened ∧ s.latch .thr ≠ .opened
          ∧ s.pids.all (fun p => !((s.fl p).isCo && s.coBusy p)) = true then
        if s.resultOK r then some { s with phase := .ended r, guard := none } else none
      else none
where
  upd' {α} (f : Flav → α) (k : Flav) (v : α) : Flav → α := fun q => if q = k then v else f q

def run (s : St) : List Ev → Option St
  | [] => some s
  | e :: es => match step s e with
               | some s' => run s' es
               | none => none

/-- a function read off a table, falling back to `d` beyond it -/
def tabFn {α} (a : Array α) (d : Nat → α) (q : Nat) : α := if h : q < a.size then a[q] else d q

/-- Execution aid of the trace acceptor: the same state with its per-payload functions re-tabulated
(arrays over the ids below a bound), so that long traces do not pile up closures
(`compact_eq` in Lemmas/Runtime: it is the same state). -/
def St.compact (ids : List Nat) (s : St) : St :=
  let r := Array.range (ids.foldl max 0 + 1)
  let pay := r.map s.pay; let fl := r.map s.fl; let starts := r.map s.starts; let tid := r.map s.tid
  let execs := r.map s.execs
  let holder := r.map s.holder
  let la := s.latch .aio; let lt := s.latch .trio; let lh := s.latch .thr
  let ra := s.rtask .aio; let rt := s.rtask .trio; let rh := s.rtask .thr
  { s with pay := tabFn pay s.pay, fl := tabFn fl s.fl, starts := tabFn starts s.starts, tid := tabFn tid s.tid,
           execs := tabFn execs s.execs, holder := tabFn holder s.holder,
           latch := fun f => match f with | .aio => la | .trio => lt | .thr => lh,
           rtask := fun f => match f with | .aio => ra | .trio => rt | .thr => rh }

end Cobald.Runtime

/-
Blocking model of `execute` (C10): who waits for whom.

`ServiceRunner.execute(payload, flavour=f)` is synchronous: the calling thread blocks until the
payload has run in the runner of flavour `f` (meta_runner.run_payload -> run_payload of the
runner).  An asyncio payload runs on the event-loop thread (`run_coroutine_threadsafe(...)
.result()`), a trio payload on the trio thread (`trio.from_thread.run`), a threading payload in
the calling thread itself (ThreadRunner.run_payload calls it directly).  A thread that is
blocked in such a call runs nothing else - in particular the event-loop thread and the trio
thread do not run the payloads that other callers are waiting for.

Threads: `0` is the event-loop thread, `1` the trio thread, every other number an outside
thread, a thread payload or a worker thread.
-/
namespace Cobald.Exec

structure Call where
  id : Nat
  caller : Nat        -- the thread that called execute
  target : Nat        -- the thread the payload has to run on (= caller for flavour threading)
  begun : Bool        -- the payload has started
deriving Repr, DecidableEq

structure St where
  calls : List Call   -- execute calls in flight
deriving Repr, DecidableEq

def St.init : St := { calls := [] }

/-- a thread is blocked while a call it made into another thread is in flight -/
def St.blocked (s : St) (t : Nat) : Bool := s.calls.any (fun c => c.caller == t && c.target != t)

inductive Ev
  | call (id caller target : Nat)    -- execute(...) entered on thread `caller`
  | begin (id : Nat)                 -- the payload starts on its target thread
  | finish (id : Nat)                -- the payload is over, the caller gets the outcome and goes on
deriving Repr, DecidableEq

def step (s : St) : Ev → Option St
  | .call id caller target =>
      -- a blocked thread calls nothing; ids are fresh
      if s.blocked caller = false ∧ s.calls.all (fun c => c.id != id) = true then
        some { calls := s.calls ++ [{ id := id, caller := caller, target := target, begun := false }] }
      else none
  | .begin id =>
      match s.calls.find? (fun c => c.id == id) with
      | some c =>
        -- the payload can only start on a thread that is not itself blocked in an execute call
        -- (a threading payload runs in the calling thread, which is busy with exactly this call)
        if c.begun = false ∧ (c.target = c.caller ∨ s.blocked c.target = false) then
          some { calls := s.calls.map (fun d => if d.id == id then { d with begun := true } else d) }
        else none
      | none => none
  | .finish id =>
      match s.calls.find? (fun c => c.id == id) with
      | some c => if c.begun = true then some { calls := s.calls.filter (fun d => d.id != id) } else none
      | none => none

def run (s : St) : List Ev → Option St
  | [] => some s
  | e :: es => match step s e with
               | some s' => run s' es
               | none => none

/-- some call in flight can make progress (its payload can start, or it has started and can finish) -/
def St.canProgress (s : St) : Bool :=
  s.calls.any (fun c => c.begun || c.target == c.caller || !s.blocked c.target)

/-- the two coroutine threads wait for each other -/
def St.opposite (s : St) : Bool :=
  s.calls.any (fun c => c.caller == 0 && c.target == 1 && !c.begun) &&
  s.calls.any (fun c => c.caller == 1 && c.target == 0 && !c.begun)

/-- calls are only made into the two coroutine threads or run in the caller's own thread -/
def St.wellTargeted (s : St) : Bool := s.calls.all (fun c => c.target == 0 || c.target == 1 || c.target == c.caller)

end Cobald.Exec

/-
Model of `cobald.interfaces._partial` (C04): templates, currying with the eager signature
check, and the `>>` algebra of `Partial` / `PartialBind`.

  Partial.__init__ / _check_signature -> `Tmpl.check`, `Tmpl.new`
  Partial.__call__                    -> `Tmpl.call`
  Partial.__construct__               -> `Obj.built` (target first, then the positionals in
                                         order, then the keywords)
  Partial.__rshift__, PartialBind.__rshift__ -> `rshift` (`applyTo`/`applyL` for the
                                         right-to-left binding loop of PartialBind)
  inspect.Signature.bind_partial      -> `Sig.bindPartial` (closed form, compared with the
                                         library on generated signatures)
-/
namespace Cobald.Partial

/-! ### constructor signatures and Python's call binding -/

structure Param where
  name : String
  hasDefault : Bool
deriving Repr, DecidableEq

/-- a well-formed Python signature: positional-or-keyword parameters, optional `*args`,
keyword-only parameters, optional `**kwargs` (`self` already removed) -/
structure Sig where
  pos : List Param
  varPos : Bool
  kwOnly : List Param
  varKw : Bool
deriving Repr, DecidableEq

def Sig.names (s : Sig) : List String := s.pos.map (·.name) ++ s.kwOnly.map (·.name)

/-- every keyword is acceptable after `n` positionals: it does not name a parameter already
filled positionally, and it names a remaining parameter or `**kwargs` exists -/
def Sig.kwOK (s : Sig) (n : Nat) (k : String) : Bool :=
  !((s.pos.take n).map (·.name)).contains k &&
  (((s.pos.drop n).map (·.name)).contains k || (s.kwOnly.map (·.name)).contains k || s.varKw)

/-- `Signature.bind_partial(*n positionals, **kw)` succeeds -/
def Sig.bindPartial (s : Sig) (n : Nat) (kw : List String) : Bool :=
  (decide (n ≤ s.pos.length) || s.varPos) && kw.all (s.kwOK n)

/-- Python's rule for a complete call `f(*n positionals, **kw)` -/
def Sig.callBinds (s : Sig) (n : Nat) (kw : List String) : Bool :=
  s.bindPartial n kw &&
  (s.pos.drop n).all (fun p => p.hasDefault || kw.contains p.name) &&
  s.kwOnly.all (fun p => p.hasDefault || kw.contains p.name)

/-! ### templates -/

/-- argument values are opaque; the harness numbers them. `isPool` marks Pool instances -/
structure Arg where
  id : Nat
  isPool : Bool
deriving Repr, DecidableEq

structure Tmpl where
  ctor : Nat
  args : List Arg
  kwargs : List (String × Arg)
  leaf : Bool
deriving Repr, DecidableEq

/-- `_check_signature`: passing the target by call is rejected, then the arguments must bind
partially to the constructor (with a placeholder for the target of a non-leaf element) -/
def Tmpl.check (sigOf : Nat → Sig) (t : Tmpl) : Bool :=
  !((t.kwargs.map (·.1)).contains "target") &&
  !(!t.leaf && (match t.args with | a :: _ => a.isPool | [] => false)) &&
  (sigOf t.ctor).bindPartial (t.args.length + (if t.leaf then 0 else 1)) (t.kwargs.map (·.1))

/-- `Partial(ctor, *args, __leaf__=leaf, **kwargs)`; `none` = TypeError -/
def Tmpl.new (sigOf : Nat → Sig) (ctor : Nat) (leaf : Bool) (args : List Arg) (kwargs : List (String × Arg)) :
    Option Tmpl :=
  let t : Tmpl := { ctor := ctor, args := args, kwargs := kwargs, leaf := leaf }
  if t.check sigOf then some t else none

/-- `template(*args, **kwargs)`: positionals appended, keywords merged; a repeated keyword is a
TypeError of the call itself -/
def Tmpl.call (sigOf : Nat → Sig) (t : Tmpl) (args : List Arg) (kwargs : List (String × Arg)) : Option Tmpl :=
  if kwargs.any (fun kv => (t.kwargs.map (·.1)).contains kv.1) then none
  else Tmpl.new sigOf t.ctor t.leaf (t.args ++ args) (t.kwargs ++ kwargs)

/-! ### objects and the `>>` algebra -/

inductive Obj
  | pool (id : Nat)
  | built (t : Tmpl) (target : Option Obj)
deriving Repr

inductive Item
  | tmpl (t : Tmpl)
  | bind (parent : Tmpl) (targets : List Item)
  | obj (o : Obj)

abbrev Log := List Tmpl

mutual
def flatten : Item → List Tmpl
  | .tmpl t => [t]
  | .bind p ts => p :: flattenL ts
  | .obj _ => []
def flattenL : List Item → List Tmpl
  | [] => []
  | i :: is => flatten i ++ flattenL is
end

/-- hand-nested construction: `t1(t2(…(o)))` -/
def nest : List Tmpl → Obj → Obj
  | [], o => o
  | t :: ts, o => .built t (some (nest ts o))

mutual
/-- `item >> pool` : bind every template of `item` onto `o`, innermost (last) first -/
def applyTo : Item → Obj → Option (Obj × Log)
  | .tmpl t, o => some (.built t (some o), [t])
  | .bind p ts, o =>
      match applyL ts o with
      | some (o', l) => some (.built p (some o'), l ++ [p])
      | none => none
  | .obj _, _ => none
/-- `targets[-1] >> o`, then `reversed(targets[:-1])` -/
def applyL : List Item → Obj → Option (Obj × Log)
  | [], o => some (o, [])
  | i :: is, o =>
      match applyL is o with
      | some (o', l) =>
          match applyTo i o' with
          | some (o'', l') => some (o'', l ++ l')
          | none => none
      | none => none
end

/-- construct a leaf (pool) template: it has no target -/
def mkLeaf (t : Tmpl) : Obj := .built t none

/-- Python `a >> b`; returns the result and the constructions performed, in order -/
def rshift : Item → Item → Option (Item × Log)
  -- Partial.__rshift__
  | .tmpl s, .bind p ts => some (.bind s (.tmpl p :: ts), [])
  | .tmpl s, .tmpl t =>
      if t.leaf then some (.obj (.built s (some (mkLeaf t))), [t, s])
      else some (.bind s [.tmpl t], [])
  | .tmpl s, .obj o => some (.obj (.built s (some o)), [s])
  -- PartialBind.__rshift__
  | .bind p ts, .obj o =>
      match applyTo (.bind p ts) o with
      | some (o', l) => some (.obj o', l)
      | none => none
  | .bind p ts, .tmpl t =>
      if t.leaf then
        match applyTo (.bind p ts) (mkLeaf t) with
        | some (o', l) => some (.obj o', t :: l)
        | none => none
      else some (.bind p (ts ++ [.tmpl t]), [])
  | .bind p ts, .bind q us => some (.bind p (ts ++ [.bind q us]), [])
  -- a constructed object has no `>>`
  | .obj _, _ => none

inductive Expr
  | leaf (i : Item)
  | shift (l r : Expr)

/-- evaluation in Python's order: left operand, right operand, then the operator -/
def eval : Expr → Option (Item × Log)
  | .leaf i => some (i, [])
  | .shift l r =>
      match eval l with
      | none => none
      | some (a, la) =>
        match eval r with
        | none => none
        | some (b, lb) =>
          match rshift a b with
          | none => none
          | some (c, lc) => some (c, la ++ lb ++ lc)

/-- in-order leaves -/
def leaves : Expr → List Item
  | .leaf i => [i]
  | .shift l r => leaves l ++ leaves r

end Cobald.Partial

/-
Model of `python -m cobald.daemon <config>` (C13): the runtime LTS instantiated with the
daemon's initial state, plus the loader dispatch and the exit status.

  core/main.py run          -> `daemonStart`: one queued asyncio payload `_load_services(path)`,
                               then `runtime.accept()`
  core/config.py load       -> `dispatch` on the file extension
  process exit status       -> `exitStatus` (accept() returned -> 0; an exception leaves main -> 1)
-/
import CobaldVerif.Model.Runtime.LTS

namespace Cobald.Daemon
open Cobald.Runtime

inductive LoaderKind
  | yaml
  | python
  | unknown      -- `ValueError("Unknown configuration extension")`
deriving DecidableEq, Repr

/-- `os.path.splitext(config_path)[1]` -> which loader -/
def dispatch (ext : String) : LoaderKind :=
  if ext = ".yaml" ∨ ext = ".yml" then .yaml
  else if ext = ".py" then .python
  else .unknown

/-- payload id of the configuration loader `_load_services` -/
def loader : Nat := 0

/-- what `cobald.daemon.core.main.run` does before the runtime takes over -/
def daemonStart : List Ev := [.adopt loader .aio, .acceptBegin 0]

/-- exit status of the process for a result of `runtime.accept()` -/
def exitStatus : Res → Nat
  | .returned => 0
  | _ => 1

end Cobald.Daemon

/-
Model of `cobald.monitor.format_line` (C17): the encoder as the code builds the line, and an
independent reference decoder written from the InfluxDB line-protocol rules.

  escape_key                      -> `esc S3`      (`,` `=` space)
  name.replace(",").replace(" ")  -> `esc S2`      (`,` space)
  escape_field                    -> `encField`    (strings quoted, `\` then `"` escaped)
  line_protocol                   -> `lineProtocol` (sorted by key, optional timestamp, newline)
  LineProtocolFormatter.format    -> `formatRecord` (tags / fields split, timestamp floor)
Strings are `List Char`. Non-string values enter as their text rendering (`%s` / `%d` of
CPython is assumed, see DESIGN §4).
-/
namespace Cobald.LP

def S2 : List Char := [',', ' ']
def S3 : List Char := [',', '=', ' ']

/-- escape every character of `S` with a backslash -/
def esc (S : List Char) : List Char → List Char
  | [] => []
  | c :: r => if c ∈ S then '\\' :: c :: esc S r else c :: esc S r

/-- `field.replace("\\", "\\\\").replace('"', '\\"')` -/
def escQ : List Char → List Char
  | [] => []
  | c :: r => if c = '\\' ∨ c = '"' then '\\' :: c :: escQ r else c :: escQ r

/-- `s.replace(c, t)` for a one-character `c` -/
def rep1 (c : Char) (t : List Char) (s : List Char) : List Char := s.flatMap (fun x => if x = c then t else [x])

/-- a chain `s.replace(c1, t1).replace(c2, t2)…`, applied left to right (what the code does; the
pairs are regenerated from the source into Generated/Src.lean) -/
def replSeq : List (Char × List Char) → List Char → List Char
  | [], s => s
  | (c, t) :: ps, s => replSeq ps (rep1 c t s)

/-- a field value: a string, or the text of a number / boolean -/
inductive FVal
  | str (s : List Char)
  | tok (t : List Char)
deriving Repr, DecidableEq

def encField : FVal → List Char
  | .str s => '"' :: escQ s ++ ['"']
  | .tok t => t

structure Rec where
  name : List Char
  tags : List (List Char × List Char)
  fields : List (List Char × FVal)
  ts : Option (List Char)          -- rendered integer nanoseconds
deriving Repr, DecidableEq

def encTags : List (List Char × List Char) → List Char
  | [] => []
  | (k, v) :: r => ',' :: esc S3 k ++ '=' :: esc S3 v ++ encTags r

def encFields : List (List Char × FVal) → List Char
  | [] => []
  | [(k, v)] => esc S3 k ++ '=' :: encField v
  | (k, v) :: r => esc S3 k ++ '=' :: encField v ++ ',' :: encFields r

def encTs : Option (List Char) → List Char
  | none => []
  | some t => ' ' :: t

/-- the line for an already ordered record -/
def encodeLine (r : Rec) : List Char :=
  esc S2 r.name ++ encTags r.tags ++ ' ' :: encFields r.fields ++ encTs r.ts ++ ['\n']

/-! ### ordering by key (code points, as Python's `sorted`) -/

def keyLt : List Char → List Char → Bool
  | [], [] => false
  | [], _ :: _ => true
  | _ :: _, [] => false
  | a :: as, b :: bs => if a.toNat < b.toNat then true else if b.toNat < a.toNat then false else keyLt as bs

def insertByKey {α} (x : List Char × α) : List (List Char × α) → List (List Char × α)
  | [] => [x]
  | y :: ys => if keyLt x.1 y.1 then x :: y :: ys else y :: insertByKey x ys

def sortByKey {α} : List (List Char × α) → List (List Char × α)
  | [] => []
  | x :: xs => insertByKey x (sortByKey xs)

/-- `line_protocol(name, tags, fields, timestamp)` -/
def lineProtocol (name : List Char) (tags : List (List Char × List Char))
    (fields : List (List Char × FVal)) (ts : Option (List Char)) : List Char :=
  encodeLine { name := name, tags := sortByKey tags, fields := sortByKey fields, ts := ts }

/-! ### reference decoder -/

/-- read an escaped token up to the first unescaped character of `S`: a backslash escapes
exactly the characters of `S` and is literal otherwise -/
def scan (S : List Char) : List Char → List Char × List Char
  | [] => ([], [])
  | '\\' :: c :: r =>
      if c ∈ S then let (t, rest) := scan S r; (c :: t, rest)
      else let (t, rest) := scan S (c :: r); ('\\' :: t, rest)
  | c :: r =>
      if c ∈ S then ([], c :: r)
      else let (t, rest) := scan S r; (c :: t, rest)

/-- inside a quoted string: `\"` and `\\` are escapes, the closing quote ends it -/
def readQuoted : List Char → Option (List Char × List Char)
  | [] => none
  | '"' :: r => some ([], r)
  | '\\' :: c :: r =>
      if c = '"' ∨ c = '\\' then
        match readQuoted r with
        | some (t, rest) => some (c :: t, rest)
        | none => none
      else
        match readQuoted (c :: r) with
        | some (t, rest) => some ('\\' :: t, rest)
        | none => none
  | c :: r =>
      match readQuoted r with
      | some (t, rest) => some (c :: t, rest)
      | none => none

/-- an unquoted value token ends at `,`, space or newline -/
def readTok : List Char → List Char × List Char
  | [] => ([], [])
  | c :: r => if c = ',' ∨ c = ' ' ∨ c = '\n' then ([], c :: r)
              else let (t, rest) := readTok r; (c :: t, rest)

def readValue : List Char → Option (FVal × List Char)
  | '"' :: r => (readQuoted r).map (fun (s, rest) => (.str s, rest))
  | l => let (t, rest) := readTok l; some (.tok t, rest)

/-- tag set: `,key=value` repeated, ended by the separating space (consumed) -/
def parseTags : Nat → List Char → Option (List (List Char × List Char) × List Char)
  | 0, _ => none
  | _ + 1, ' ' :: rest => some ([], rest)
  | n + 1, ',' :: rest =>
      match scan S3 rest with
      | (k, '=' :: r2) =>
          let (v, r3) := scan S3 r2
          match parseTags n r3 with
          | some (ts, r4) => some ((k, v) :: ts, r4)
          | none => none
      | _ => none
  | _ + 1, _ => none

/-- field set: `key=value` separated by commas; stops before space / newline -/
def parseFields : Nat → List Char → Option (List (List Char × FVal) × List Char)
  | 0, _ => none
  | n + 1, l =>
      match scan S3 l with
      | (k, '=' :: r2) =>
          match readValue r2 with
          | some (v, ',' :: r3) =>
              match parseFields n r3 with
              | some (fs, r4) => some ((k, v) :: fs, r4)
              | none => none
          | some (v, r3) => some ([(k, v)], r3)
          | none => none
      | _ => none

def parseFieldSet (l : List Char) : Option (List (List Char × FVal) × List Char) :=
  match l with
  | ' ' :: _ => some ([], l)
  | '\n' :: _ => some ([], l)
  | _ => parseFields (l.length + 1) l

def readTs : List Char → Option (Option (List Char))
  | ['\n'] => some none
  | ' ' :: r =>
      let (t, rest) := readTok r
      if rest = ['\n'] then some (some t) else none
  | _ => none

/-- decode one line -/
def decodeLine (l : List Char) : Option Rec :=
  let (name, r1) := scan S2 l
  match parseTags (r1.length + 1) r1 with
  | none => none
  | some (tags, r2) =>
    match parseFieldSet r2 with
    | none => none
    | some (fields, r3) =>
      match readTs r3 with
      | none => none
      | some ts => some { name := name, tags := tags, fields := fields, ts := ts }

/-! ### the formatter: which record keys become tags, which fields, and the timestamp -/

/-- association-list update (`dict.update` for one key) -/
def setKey {α} (k : List Char) (v : α) : List (List Char × α) → List (List Char × α)
  | [] => [(k, v)]
  | (k', v') :: r => if k' = k then (k, v) :: r else (k', v') :: setKey k v r

def lookup {α} (k : List Char) : List (List Char × α) → Option α
  | [] => none
  | (k', v) :: r => if k' = k then some v else lookup k r

/-- `JsonFormatter.format`: `data = defaults.copy(); data["time"] = …; data["message"] = …;
data.update(args)` — layers applied in order, later ones overriding earlier ones -/
def mergeLayers {α} (layers : List (List (List Char × α))) : List (List Char × α) :=
  layers.foldl (fun acc l => l.foldl (fun a kv => setKey kv.1 kv.2 a) acc) []

/-- a record value: string or rendered non-string, used both as tag value and field value -/
def tagText : FVal → List Char
  | .str s => s
  | .tok t => t

/-- `LineProtocolFormatter.format`: `defaults` (already rendered), `whitelist`, the blacklist of
record attribute names, the record's mapping -/
def splitRecord (defaults : List (List Char × List Char)) (whitelist attrs : List (List Char))
    (args : List (List Char × FVal)) :
    List (List Char × List Char) × List (List Char × FVal) :=
  -- tags = defaults.copy(); tags.update({k: v for k, v in args.items() if k in whitelist})
  let upd := (args.filter (fun kv => kv.1 ∈ whitelist)).map (fun kv => (kv.1, tagText kv.2))
  let tags := upd.foldl (fun acc kv => setKey kv.1 kv.2 acc) defaults
  let fields := args.filter (fun kv => kv.1 ∉ whitelist ∧ kv.1 ∉ attrs)
  (tags, fields)

/-- `created // resolution * resolution` in seconds, for an integer resolution -/
def floorTs (created : Rat) (res : Int) : Int := (created / res).floor * res

end Cobald.LP

/-
Model of `cobald.decorator.standardiser.Standardiser` (C06, also used by C16).

Transcribed from standardiser.py:
  _clamp(low, value, high)   -> `clamp`
  _floor(n, base)            -> `floorTo` (Num.lean)
  _clamp_demand(value)       -> `cd`   (supply is read from the target at call time)
  demand.setter              -> `write`
  demand (getter)            -> `read`
  __init__                   -> `Params.ok` (the four `enforce`s) and `init`
The numeric cast `type(value)(by_limits)` is the identity on the exact value (it may
only change the Python type, never the number) — that is what the property requires;
a cast that changes the number shows up as a correspondence difference.
-/
import CobaldVerif.Model.Num

namespace Cobald.Standardiser
open Cobald ERat

structure Params where
  min : ERat
  max : ERat
  g : Rat
  backlog : ERat
  surplus : ERat
deriving Repr, DecidableEq

/-- what `Standardiser.__init__` enforces -/
def Params.ok (p : Params) : Prop :=
  p.min ≤ p.max ∧ (ERat.fin 0) < p.surplus ∧ (ERat.fin 0) < p.backlog ∧ 0 < p.g

instance (p : Params) : Decidable p.ok := by unfold Params.ok; infer_instance

/-- `_clamp(low, value, high)` -/
def clamp (low v high : ERat) : ERat :=
  if v < low then low else if high < v then high else v

/-- the supply window `[supply - backlog, supply + surplus]` -/
def winLo (p : Params) (s : Rat) : ERat := subFrom s p.backlog
def winHi (p : Params) (s : Rat) : ERat := addFin s p.surplus

/-- `_clamp_demand(value)` at supply `s` -/
def cd (p : Params) (s : Rat) (v : Rat) : ERat :=
  clamp p.min (clamp (winLo p s) (fin v) (winHi p s)) p.max

/-- the underlying pool as far as the decorator can see it -/
structure Pool where
  supply : Rat
  demand : ERat
  util : Rat
  alloc : Rat
deriving Repr, DecidableEq

structure St where
  pool : Pool
  stored : ERat        -- `Standardiser._demand`
deriving Repr, DecidableEq

def init (pool : Pool) : St := { pool := pool, stored := pool.demand }

/-- value forwarded to the target by a write of `v` -/
def fwd (p : Params) (s : Rat) (v : Rat) : ERat :=
  if p.g ≠ 1 then cd p s (floorTo v p.g) else cd p s v

/-- `standardiser.demand = v` -/
def write (p : Params) (st : St) (v : Rat) : St :=
  { pool := { st.pool with demand := fwd p st.pool.supply v },
    stored := cd p st.pool.supply v }

/-- `abs(a - b) >= g` on extended values (inf - inf is NaN, every comparison false) -/
def farApart (a b : ERat) (g : Rat) : Bool :=
  match a, b with
  | fin x, fin y => decide (g ≤ absQ (x - y))
  | pinf, pinf => false
  | ninf, ninf => false
  | _, _ => true

/-- `standardiser.demand` (getter): resynchronise when the target moved by a granule or more -/
def read (p : Params) (st : St) : St × ERat :=
  if farApart st.stored st.pool.demand p.g then
    ({ st with stored := st.pool.demand }, st.pool.demand)
  else (st, st.stored)

/-- `standardiser.demand += k` : getter, then setter (only defined on a finite read-back) -/
def incr (p : Params) (st : St) (k : Rat) : St :=
  match read p st with
  | (st', fin x) => write p st' (x + k)
  | (st', _) => st'

def incrN (p : Params) (st : St) (k : Rat) : Nat → St
  | 0 => st
  | n + 1 => incr p (incrN p st k n) k

inductive Op where
  | write (v : Rat)
  | read
  | setSupply (s : Rat)
  | setTargetDemand (d : Rat)      -- an outside change of the target's demand
  | setUtil (u : Rat)
  | setAlloc (a : Rat)
deriving Repr

/-- observation after each op: what a `read` returned (if it was one) -/
def step (p : Params) (st : St) : Op → St × Option ERat
  | .write v => (write p st v, none)
  | .read => let (st', r) := read p st; (st', some r)
  | .setSupply s => ({ st with pool := { st.pool with supply := s } }, none)
  | .setTargetDemand d => ({ st with pool := { st.pool with demand := fin d } }, none)
  | .setUtil u => ({ st with pool := { st.pool with util := u } }, none)
  | .setAlloc a => ({ st with pool := { st.pool with alloc := a } }, none)

def run (p : Params) (st : St) (ops : List Op) : St :=
  ops.foldl (fun s o => (step p s o).1) st

/-- pass-through reads of the decorator -/
def getSupply (st : St) : Rat := st.pool.supply
def getUtil (st : St) : Rat := st.pool.util
def getAlloc (st : St) : Rat := st.pool.alloc

/-! ### infinite supply

A pool may report an infinite supply. `supply - backlog` and `supply + surplus` are then IEEE
sums of infinities: `inf - inf` is NaN, and a NaN bound never applies because every comparison
with it is false (`_clamp` is written with `<` and `>`).  `none` stands for that NaN. -/

/-- `supply - backlog` for an extended supply -/
def winLoE (p : Params) : ERat → Option ERat
  | fin s => some (subFrom s p.backlog)
  | pinf => match p.backlog with | pinf => none | _ => some pinf
  | ninf => match p.backlog with | ninf => none | _ => some ninf

/-- `supply + surplus` for an extended supply -/
def winHiE (p : Params) : ERat → Option ERat
  | fin s => some (addFin s p.surplus)
  | pinf => match p.surplus with | ninf => none | _ => some pinf
  | ninf => match p.surplus with | pinf => none | _ => some ninf

/-- `_clamp` with bounds that may be NaN -/
def clampO (low : Option ERat) (v : ERat) (high : Option ERat) : ERat :=
  if (match low with | some l => decide (v < l) | none => false) then low.getD v
  else if (match high with | some h => decide (h < v) | none => false) then high.getD v
  else v

/-- `_clamp_demand(value)` at an extended supply -/
def cdE (p : Params) (s : ERat) (v : Rat) : ERat :=
  clamp p.min (clampO (winLoE p s) (fin v) (winHiE p s)) p.max

/-- value forwarded to the target by a write of `v` at an extended supply -/
def fwdE (p : Params) (s : ERat) (v : Rat) : ERat :=
  if p.g ≠ 1 then cdE p s (floorTo v p.g) else cdE p s v

end Cobald.Standardiser

/-
Extended rationals: the exact model of the numbers cobald computes with.

Python `int`/`Fraction`/dyadic `float` are finite rationals, `float("inf")` and
`-float("inf")` are the two infinities.  NaN is excluded everywhere (see DESIGN §3).
Core Lean only (no Mathlib) so that the driver can run these definitions.
-/

namespace Cobald

inductive ERat where
  | ninf
  | fin (q : Rat)
  | pinf
deriving DecidableEq, Repr, Inhabited

namespace ERat

instance : Coe Rat ERat := ⟨ERat.fin⟩

/-- `a ≤ b` on the extended line -/
def le : ERat → ERat → Prop
  | ninf, _ => True
  | _, pinf => True
  | fin a, fin b => a ≤ b
  | fin _, ninf => False
  | pinf, fin _ => False
  | pinf, ninf => False

/-- `a < b` on the extended line (strict; `inf < inf` is false as in IEEE) -/
def lt : ERat → ERat → Prop
  | ninf, ninf => False
  | ninf, _ => True
  | fin a, fin b => a < b
  | fin _, pinf => True
  | fin _, ninf => False
  | pinf, _ => False

instance : LE ERat := ⟨le⟩
instance : LT ERat := ⟨lt⟩

instance decLe (a b : ERat) : Decidable (a ≤ b) := by
  cases a <;> cases b <;> simp only [LE.le, le] <;> infer_instance

instance decLt (a b : ERat) : Decidable (a < b) := by
  cases a <;> cases b <;> simp only [LT.lt, lt] <;> infer_instance

/-- finite + extended (Python: `supply + surplus`) -/
def addFin (s : Rat) : ERat → ERat
  | ninf => ninf
  | fin q => fin (s + q)
  | pinf => pinf

/-- finite - extended (Python: `supply - backlog`) -/
def subFrom (s : Rat) : ERat → ERat
  | ninf => pinf
  | fin q => fin (s - q)
  | pinf => ninf

def isFin : ERat → Bool
  | fin _ => true
  | _ => false

def toString : ERat → String
  | ninf => "-inf"
  | pinf => "inf"
  | fin q => s!"{q.num}/{q.den}"

instance : ToString ERat := ⟨toString⟩

end ERat

/-- `abs` on rationals -/
def absQ (q : Rat) : Rat := if q < 0 then -q else q

/-- Python `n // base * base` for a positive rational base (floor to a multiple). -/
def floorTo (n g : Rat) : Rat := ((n / g).floor : Int) * g

end Cobald

/-
Model of decorator stacks (C16): `PoolDecorator` (interfaces/_proxy.py), `Logger`
(decorator/logger.py), `Standardiser` (via Model/Standardiser.lean) and `Buffer`
(decorator/buffer.py, without its periodic `run`, which is C09).

  PoolDecorator.supply/utilisation/allocation -> `getAttr` (always the target's)
  PoolDecorator.demand (get/set)              -> `getDemand` / `setDemand` on `.plain`
  Logger.demand setter                        -> one `Record`, then the write on the target
  Logger.__init__ (`message % _LOGGER_TEST_FIELDS`) -> `templateOK`
-/
import CobaldVerif.Model.Standardiser

namespace Cobald.Decorators
open Cobald Cobald.ERat

abbrev Pool := Standardiser.Pool

inductive Stack
  | base (p : Pool)
  | plain (s : Stack)
  | logger (id : Nat) (s : Stack)
  | std (p : Standardiser.Params) (stored : ERat) (s : Stack)
  | buffer (stored : ERat) (s : Stack)
deriving Repr

inductive Attr | supply | util | alloc
deriving Repr, DecidableEq

def Stack.basePool : Stack → Pool
  | .base p => p
  | .plain s => s.basePool
  | .logger _ s => s.basePool
  | .std _ _ s => s.basePool
  | .buffer _ s => s.basePool

def Pool.attr (p : Pool) : Attr → Rat
  | .supply => p.supply
  | .util => p.util
  | .alloc => p.alloc

/-- supply / utilisation / allocation read through a stack -/
def getAttr (a : Attr) : Stack → Rat
  | .base p => p.attr a
  | .plain s => getAttr a s
  | .logger _ s => getAttr a s
  | .std _ _ s => getAttr a s
  | .buffer _ s => getAttr a s

/-- reading `demand` through a stack (a Standardiser may resynchronise its stored value) -/
def getDemand : Stack → Stack × ERat
  | .base p => (.base p, p.demand)
  | .plain s => let (s', d) := getDemand s; (.plain s', d)
  | .logger i s => let (s', d) := getDemand s; (.logger i s', d)
  | .std p stored s =>
      let (s', d) := getDemand s
      if Standardiser.farApart stored d p.g then (.std p d s', d) else (.std p stored s', stored)
  | .buffer stored s => (.buffer stored s, stored)

structure Record where
  logger : Nat
  value : ERat
  demand : ERat
  supply : Rat
  util : Rat
  alloc : Rat
deriving Repr, DecidableEq

/-- writing `demand = v` through a stack; returns the new stack and the records emitted, in
emission order -/
def setDemand : Stack → ERat → Stack × List Record
  | .base p, v => (.base { p with demand := v }, [])
  | .plain s, v => let (s', r) := setDemand s v; (.plain s', r)
  | .logger i s, v =>
      -- the record is built from the target's state *before* the write is applied.
      -- Reading the target's demand may resynchronise Standardisers below; every stored value
      -- such a read can touch is overwritten by the write that follows (Props/C16
      -- `setDemand_after_read`), so the write is applied to `s` directly.
      let d := (getDemand s).2
      let rec0 : Record := { logger := i, value := v, demand := d, supply := getAttr .supply s,
                             util := getAttr .util s, alloc := getAttr .alloc s }
      let (s', r) := setDemand s v
      (.logger i s', rec0 :: r)
  | .std p stored s, v =>
      match v with
      | .fin x =>
        let sup := getAttr .supply s
        let (s', r) := setDemand s (Standardiser.fwd p sup x)
        (.std p (Standardiser.cd p sup x) s', r)
      | _ =>
        -- outside the statement (finite demands only): passed on unchanged
        let (s', r) := setDemand s v
        (.std p v s', r)
  | .buffer _ s, v => (.buffer v s, [])  -- stored; forwarded by `run` at the window boundary

/-- construction (`Standardiser(target)` and `Buffer(target)` read the target's demand) -/
def mkStd (p : Standardiser.Params) (s : Stack) : Stack :=
  let (s', d) := getDemand s; .std p d s'
def mkBuffer (s : Stack) : Stack :=
  let (s', d) := getDemand s; .buffer d s'

/-- change the underlying pool -/
def setBase (f : Pool → Pool) : Stack → Stack
  | .base p => .base (f p)
  | .plain s => .plain (setBase f s)
  | .logger i s => .logger i (setBase f s)
  | .std p st s => .std p st (setBase f s)
  | .buffer st s => .buffer st (setBase f s)

/-! ### message templates -/

/-- a parsed conversion of a `%`-template: a named field (`some name`) or a positional one
(`none`; with a mapping argument exactly one positional conversion receives the mapping
itself), with its conversion character -/
structure Field where
  name : Option (List Char)
  conv : Char
deriving Repr, DecidableEq

def isFlag (c : Char) : Bool := c = '#' || c = '0' || c = '-' || c = ' ' || c = '+'
def isConv (c : Char) : Bool := "diouxXeEfFgGcrsa".toList.contains c

def dropWhileP (p : Char → Bool) : List Char → List Char
  | [] => []
  | c :: r => if p c then dropWhileP p r else c :: r

/-- read `name)` ; `none` if the parenthesis is not closed -/
def readName : List Char → Option (List Char × List Char)
  | [] => none
  | ')' :: r => some ([], r)
  | c :: r => (readName r).map (fun (n, rest) => (c :: n, rest))

/-- flags, width, precision, then the conversion character -/
def readSpec (r1 : List Char) : Option (Char × List Char) :=
  let r2 := dropWhileP isFlag r1
  let r3 := dropWhileP Char.isDigit r2
  let r4 := match r3 with
    | '.' :: r => dropWhileP Char.isDigit r
    | r => r
  match r4 with
  | c :: r5 => if isConv c then some (c, r5) else none
  | [] => none

/-- the conversions of a template, `none` if it is malformed -/
def fields : Nat → List Char → Option (List Field)
  | 0, _ => none
  | _ + 1, [] => some []
  | n + 1, '%' :: '%' :: r => fields n r
  | n + 1, '%' :: '(' :: r =>
      match readName r with
      | none => none
      | some (name, r1) =>
        match readSpec r1 with
        | some (c, r5) => (fields n r5).map (fun fs => { name := some name, conv := c } :: fs)
        | none => none
  | n + 1, '%' :: r =>
      match readSpec r with
      | some (c, r5) => (fields n r5).map (fun fs => { name := none, conv := c } :: fs)
      | none => none
  | n + 1, _ :: r => fields n r

/-- which conversions the test value of a field supports (`_LOGGER_TEST_FIELDS`: floats, and
`target=None`; a positional conversion receives the mapping itself) -/
def convOK (name : Option (List Char)) (c : Char) : Bool :=
  match name with
  | none => "rsa".toList.contains c
  | some n =>
    if n = "target".toList then "rsa".toList.contains c
    else "diueEfFgGrsa".toList.contains c

/-- `message % _LOGGER_TEST_FIELDS` succeeds -/
def templateOK (known : List (List Char)) (t : List Char) : Bool :=
  match fields (t.length + 1) t with
  | none => false
  | some fs =>
    -- a positional conversion consumes the (single) mapping argument: it must come first
    fs.tail.all (fun f => f.name.isSome) &&
    fs.all (fun f => (match f.name with | some n => known.contains n | none => true) && convOK f.name f.conv)

end Cobald.Decorators

/-
Model of `cobald.daemon.config.mapping.Translator` (C19).

  translate_hierarchy  -> `tr` / `trItems` / `trEntries`
  construct            -> `construct`
  load_name            -> parameter `Env.resolve`
  factory(*args, **kw) -> parameter `Env.apply`
Every factory call is logged with the path of its node; an error carries the path of the
innermost frame that saw it (mapping.py: `except ConfigurationError … if err.where is None`).
-/
namespace Cobald.Translate

inductive Scalar
  | str (s : String)
  | other (n : Nat)
deriving Repr, DecidableEq

inductive Cfg
  | scalar (s : Scalar)
  | list (l : List Cfg)
  | map (m : List (String × Cfg))

inductive Val
  | scalar (s : Scalar)
  | list (l : List Val)
  | map (m : List (String × Val))
  | obj (id : Nat)           -- whatever a factory returned

inductive Seg
  | key (k : String)
  | idx (i : Nat)
deriving Repr, DecidableEq

abbrev Path := List Seg

structure Call where
  path : Path
  factory : Nat
  args : List Val
  kwargs : List (String × Val)

structure Env where
  /-- `load_name`: the factory a dotted name denotes, `none` if it cannot be resolved -/
  resolve : String → Option Nat
  /-- calling the factory: `none` if it raises; may depend on how many calls happened before -/
  apply : Nat → List Val → List (String × Val) → Nat → Option Val

abbrev Log := List Call

/-- result of a translation: value and log, or the error location and the log so far -/
abbrev Res (α : Type) := Except (Path × Log) (α × Log)

def lookupV (k : String) : List (String × Val) → Option Val
  | [] => none
  | (k', v) :: r => if k' = k then some v else lookupV k r

def eraseKey (k : String) (l : List (String × Val)) : List (String × Val) :=
  l.filter (fun kv => kv.1 ≠ k)

/-- `args = mapping.pop("__args__", [])` -/
def getArgs (rest : List (String × Val)) : Option (List Val) :=
  match lookupV "__args__" rest with
  | none => some []
  | some (.list l) => some l
  | some _ => none          -- outside the statement: `__args__` is a list

/-- `Translator.construct` at path `w` for an already translated mapping with a `__type__` -/
def construct (env : Env) (w : Path) (m : List (String × Val)) (log : Log) : Res Val :=
  match lookupV "__type__" m with
  | some (.scalar (.str name)) =>
    match env.resolve name with
    | none => .error (w, log)
    | some f =>
      match getArgs (eraseKey "__type__" m) with
      | none => .error (w, log)
      | some args =>
        match env.apply f args (eraseKey "__args__" (eraseKey "__type__" m)) log.length with
        | some v => .ok (v, log ++ [{ path := w, factory := f, args := args,
                                      kwargs := eraseKey "__args__" (eraseKey "__type__" m) }])
        | none => .error (w, log)
  | _ => .error (w, log)      -- `__type__` is not a string: `.split` fails

def hasType (m : List (String × Cfg)) : Bool := m.any (fun kv => kv.1 == "__type__")

mutual
/-- `translate_hierarchy(structure, where=w)` -/
def tr (env : Env) : Cfg → Path → Log → Res Val
  | .scalar s, _, log => .ok (.scalar s, log)
  | .list l, w, log =>
    match trItems env l w 0 log with
    | .ok (vs, log') => .ok (.list vs, log')
    | .error e => .error e
  | .map m, w, log =>
    match trEntries env m w log with
    | .ok (vs, log') =>
      if hasType m then construct env w vs log' else .ok (.map vs, log')
    | .error e => .error e
/-- list items: later items before earlier ones -/
def trItems (env : Env) : List Cfg → Path → Nat → Log → Res (List Val)
  | [], _, _, log => .ok ([], log)
  | c :: cs, w, i, log =>
    match trItems env cs w (i + 1) log with
    | .ok (vs, log1) =>
      match tr env c (w ++ [.idx i]) log1 with
      | .ok (v, log2) => .ok (v :: vs, log2)
      | .error e => .error e
    | .error e => .error e
/-- mapping values: in insertion order -/
def trEntries (env : Env) : List (String × Cfg) → Path → Log → Res (List (String × Val))
  | [], _, log => .ok ([], log)
  | (k, c) :: rest, w, log =>
    match tr env c (w ++ [.key k]) log with
    | .ok (v, log1) =>
      match trEntries env rest w log1 with
      | .ok (vs, log2) => .ok ((k, v) :: vs, log2)
      | .error e => .error e
    | .error e => .error e
end

/-! ### specification side: where the `__type__` nodes are, in the documented order -/

mutual
def typePaths : Cfg → Path → List Path
  | .scalar _, _ => []
  | .list l, w => typePathsItems l w 0
  | .map m, w => typePathsEntries m w ++ (if hasType m then [w] else [])
def typePathsItems : List Cfg → Path → Nat → List Path
  | [], _, _ => []
  | c :: cs, w, i => typePathsItems cs w (i + 1) ++ typePaths c (w ++ [.idx i])
def typePathsEntries : List (String × Cfg) → Path → List Path
  | [], _ => []
  | (k, c) :: rest, w => typePaths c (w ++ [.key k]) ++ typePathsEntries rest w
end

mutual
/-- plain data embeds unchanged -/
def embed : Cfg → Val
  | .scalar s => .scalar s
  | .list l => .list (embedItems l)
  | .map m => .map (embedEntries m)
def embedItems : List Cfg → List Val
  | [] => []
  | c :: cs => embed c :: embedItems cs
def embedEntries : List (String × Cfg) → List (String × Val)
  | [] => []
  | (k, c) :: rest => (k, embed c) :: embedEntries rest
end

end Cobald.Translate

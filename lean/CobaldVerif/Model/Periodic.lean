/-
Model of the periodic `run` loops of the shipped services on a virtual clock (C09).

  LinearController / RelativeSupplyController / DemandSwitch / Stepwise:
      `while True: step; await trio.sleep(interval)`         -> act first  (`pre = false`)
  Buffer:  `while True: if demand != target.demand: target.demand = demand; sleep(window)`
  FactoryPool: `while True: await trio.sleep(interval); adjust` -> sleep first (`pre = true`)
Assumption (trio clock): a `sleep(d)` started at virtual time t ends at t + d and the loop body
takes no virtual time; hence the k-th action happens at `actTime`.
-/
import CobaldVerif.Model.Controllers

namespace Cobald.Periodic
open Cobald.Controllers

/-- virtual time of the k-th action (k = 0, 1, …) of a loop started at time 0 -/
def actTime (pre : Bool) (interval : Rat) (k : Nat) : Rat :=
  ((k : Rat) + (if pre then 1 else 0)) * interval

/-- an event of a timed history, in the order in which it happened -/
inductive Ev
  | step                                   -- the service performs one iteration
  | env (f : Nat) (x : Rat)                -- the environment changes the pool (0 supply, 1 util, 2 alloc)
  | write (x : Rat)                        -- a demand write through the Buffer
deriving Repr

def setPool (p : Pool) (f : Nat) (x : Rat) : Pool :=
  match f with
  | 0 => { p with supply := x }
  | 1 => { p with util := x }
  | _ => { p with alloc := x }

/-- a periodic controller: its step function on the pool -/
def runCtl (stepFn : Pool → Pool) : Pool → List Ev → List Pool
  | _, [] => []
  | p, .step :: es => let p' := stepFn p; p' :: runCtl stepFn p' es
  | p, .env f x :: es => let p' := setPool p f x; p' :: runCtl stepFn p' es
  | p, .write _ :: es => p :: runCtl stepFn p es

structure BufSt where
  stored : Rat          -- `Buffer.demand`
  target : Rat          -- `target.demand`
deriving Repr, DecidableEq

/-- one iteration of `Buffer.run` -/
def bufStep (b : BufSt) : BufSt :=
  if b.stored ≠ b.target then { b with target := b.stored } else b

def runBuf : BufSt → List Ev → List BufSt
  | _, [] => []
  | b, .step :: es => let b' := bufStep b; b' :: runBuf b' es
  | b, .write x :: es => let b' := { b with stored := x }; b' :: runBuf b' es
  | b, .env _ _ :: es => b :: runBuf b es

/-- number of actions with `actTime ≤ T` among the first `n` -/
def countUpTo (pre : Bool) (interval T : Rat) (n : Nat) : Nat :=
  ((List.range n).filter (fun k => actTime pre interval k ≤ T)).length

end Cobald.Periodic

/-
Model of section-plugin ordering and configuration loading (C14).

  core/config.py  load_section_plugins   -> `dependencies`, `toposort`, `pluginOrder`
  toposort.toposort (third party)        -> `normalise`, `peel` (layers)
  config/mapping.py load_configuration   -> `loadConfiguration`
Section names are strings; a plugin's digest is a parameter (it is only logged).
-/
namespace Cobald.Sections

structure Plugin where
  name : String            -- the section the plugin digests
  required : Bool
  before : List String
  after : List String
deriving Repr, DecidableEq

abbrev Deps := List (String × List String)

/-- remove duplicates (the tables hold Python sets) -/
def dedupS : List String → List String
  | [] => []
  | a :: l => if a ∈ dedupS l then dedupS l else a :: dedupS l

/-- `dependencies` of `load_section_plugins`, as the table it ends up with: for every installed
plugin its own `after` names plus every plugin that lists it in `before`; only constraints
between installed plugins enter the table -/
def dependencies (ps : List Plugin) : Deps :=
  let names := ps.map (·.name)
  ps.map (fun p => (p.name,
    dedupS (p.after.filter (· ∈ names) ++ (ps.filter (fun q => p.name ∈ q.before)).map (·.name))))

/-- toposort's preparation: drop self-dependencies, add dependency-only items with no deps -/
def normalise (d : Deps) : Deps :=
  let d1 := d.map (fun (k, ds) => (k, ds.filter (· ≠ k)))
  let keys := d1.map (·.1)
  let extra := (dedupS (d1.flatMap (·.2))).filter (· ∉ keys)
  d1 ++ extra.map (fun k => (k, []))

/-- peel layers of items without remaining dependencies; `none` on a cycle -/
def peel : Nat → Deps → Option (List (List String))
  | 0, data => if data.isEmpty then some [] else none
  | n + 1, data =>
    let ordered := (data.filter (fun kd => kd.2.isEmpty)).map (·.1)
    if ordered.isEmpty then (if data.isEmpty then some [] else none)
    else
      let rest := (data.filter (fun kd => kd.1 ∉ ordered)).map
        (fun kd => (kd.1, kd.2.filter (· ∉ ordered)))
      match peel n rest with
      | some ls => some (ordered :: ls)
      | none => none

def toposort (d : Deps) : Option (List (List String)) :=
  let n := normalise d
  peel (n.length + 1) n

/-- layers restricted to installed plugins (the order inside one layer is not fixed by the library) -/
def pluginLayers (ps : List Plugin) : Option (List (List String)) :=
  let names := ps.map (·.name)
  (toposort (dependencies ps)).map (fun ls => (ls.map (fun l => l.filter (· ∈ names))).filter (fun l => !l.isEmpty))

/-! ### load_configuration -/

inductive Outcome
  | unknownSections          -- ConfigurationError(where="root", "unknown config sections")
  | missingRequired (s : String)
  | loaded (kept : List String)    -- sections whose digest returned something

/-- the loop over the plugins: call log and kept sections so far -/
def digestLoop (cfg : List String) (returns : String → Bool) :
    List Plugin → List String → List String → Outcome × List String
  | [], log, kept => (.loaded kept, log)
  | p :: rest, log, kept =>
    if p.name ∈ cfg then
      digestLoop cfg returns rest (log ++ [p.name]) (if returns p.name then kept ++ [p.name] else kept)
    else if p.required then (.missingRequired p.name, log)
    else digestLoop cfg returns rest log kept

/-- `order` = plugins in call order; `cfg` = top-level keys present; `returns s` = whether the
digest of section `s` returns non-None. Result: outcome and call log -/
def loadConfiguration (order : List Plugin) (cfg : List String) (returns : String → Bool) :
    Outcome × List String :=
  let cfg' := cfg.filter (· ≠ "logging")
  if cfg'.any (fun k => !(order.any (fun p => p.name == k))) then (.unknownSections, [])
  else digestLoop cfg' returns order [] []

end Cobald.Sections

/-
Model of `cobald.composite.uniform.UniformComposite` and
`cobald.composite.weighted.WeightedComposite` (C07), over exact rationals.

  demand.setter  -> `setDemand`   (shares: D / n  |  D * w_i / W, uniform share when W = 0)
  demand         -> `St.demand`   (the stored value)
  supply         -> `supply`
  utilisation / allocation -> `fitness`
  _undefined_fitness -> the `W = 0` branch of `fitness`
-/
import CobaldVerif.Model.Num

namespace Cobald.Composite

structure Child where
  supply : Rat
  util : Rat
  alloc : Rat
  demand : Rat
deriving Repr, DecidableEq

inductive Attr | supply | util | alloc
deriving Repr, DecidableEq

def Child.get (c : Child) : Attr → Rat
  | .supply => c.supply
  | .util => c.util
  | .alloc => c.alloc

inductive Kind
  | uniform
  | weighted (w : Attr)
deriving Repr, DecidableEq

structure St where
  children : List Child
  demand : Rat          -- `_demand`
deriving Repr, DecidableEq

def sumOf (f : Child → Rat) (cs : List Child) : Rat := (cs.map f).sum

/-- `__init__`: the composite's demand starts as the sum of its children's -/
def init (cs : List Child) : St := { children := cs, demand := sumOf (·.demand) cs }

def totalWeight (a : Attr) (cs : List Child) : Rat := sumOf (·.get a) cs

/-- the demand each child receives, in order -/
def shares (k : Kind) (cs : List Child) (D : Rat) : List Rat :=
  match k with
  | .uniform => cs.map (fun _ => D / cs.length)
  | .weighted a =>
    let W := totalWeight a cs
    if W = 0 then cs.map (fun _ => D / cs.length)
    else cs.map (fun c => D * c.get a / W)

def setChildDemands : List Child → List Rat → List Child
  | c :: cs, d :: ds => { c with demand := d } :: setChildDemands cs ds
  | cs, _ => cs

/-- `composite.demand = D` -/
def setDemand (k : Kind) (st : St) (D : Rat) : St :=
  { children := setChildDemands st.children (shares k st.children D), demand := D }

def supply (st : St) : Rat := sumOf (·.supply) st.children

/-- utilisation (`f = util`) or allocation (`f = alloc`) of the composite -/
def fitness (k : Kind) (f : Attr) (st : St) : Rat :=
  match k with
  | .uniform =>
    if st.children.length = 0 then 1 else sumOf (·.get f) st.children / st.children.length
  | .weighted a =>
    let W := totalWeight a st.children
    if W = 0 then (if 0 < supply st then 0 else 1)
    else sumOf (fun c => c.get f * c.get a) st.children / W

inductive Op
  | setDemand (D : Rat)
  | setChild (i : Nat) (f : Attr) (x : Rat)
  | setChildDemand (i : Nat) (x : Rat)
  | addChild (c : Child)
  | removeChild (i : Nat)
deriving Repr

def modifyAt (cs : List Child) (i : Nat) (g : Child → Child) : List Child :=
  cs.mapIdx (fun j c => if j = i then g c else c)

def step (k : Kind) (st : St) : Op → St
  | .setDemand D => setDemand k st D
  | .setChild i f x =>
    { st with children := modifyAt st.children i (fun c => match f with
        | .supply => { c with supply := x }
        | .util => { c with util := x }
        | .alloc => { c with alloc := x }) }
  | .setChildDemand i x => { st with children := modifyAt st.children i (fun c => { c with demand := x }) }
  | .addChild c => { st with children := st.children ++ [c] }
  | .removeChild i => { st with children := st.children.eraseIdx i }

def run (k : Kind) (st : St) (ops : List Op) : St := ops.foldl (step k) st

end Cobald.Composite

/-
Model of `cobald.composite.factory.FactoryPool` (C15), over exact rationals.

  run (one period)  -> `adjust`   (supply > demand ? _shrink : _grow)
  _shrink           -> `shrink`   (stable sort by supply*utilisation, one pass, then reap)
  _grow             -> `grow`     (spawn until the missing demand is covered, then reap)
  _reap_children    -> `reap`
  _release_child    -> `release`
  supply / utilisation / allocation -> `supply`, `fitness`
The hatchery is a Python `set`: its iteration order is an input of `adjust` (`order`).
The mortuary is a WeakSet: `gc` removes a released child. The factory is a parameter.
Children are records carried in the two containers (identity = `id`).
-/
import CobaldVerif.Model.Num

namespace Cobald.Factory

structure Child where
  id : Nat
  supply : Rat
  util : Rat
  alloc : Rat
  demand : Rat
deriving Repr, DecidableEq

structure St where
  hatchery : List Child       -- children fulfilling our demand
  mortuary : List Child       -- children shutting down
  demand : Rat
  spawned : Nat               -- number of factory calls so far
deriving Repr, DecidableEq

def sumD (cs : List Child) : Rat := (cs.map (·.demand)).sum

/-- all children: `[*hatchery, *mortuary]` -/
def St.all (st : St) : List Child := st.hatchery ++ st.mortuary

/-- `_release_child`: demand := 0, hatchery → mortuary -/
def release (st : St) (i : Nat) : St :=
  { st with hatchery := st.hatchery.filter (·.id ≠ i),
            mortuary := st.mortuary ++ (st.hatchery.filter (·.id = i)).map (fun c => { c with demand := 0 }) }

/-- `_reap_children`: release every hatchery child with no demand left -/
def reap (st : St) : St :=
  { st with hatchery := st.hatchery.filter (fun c => ¬ c.demand ≤ 0),
            mortuary := st.mortuary ++ (st.hatchery.filter (fun c => c.demand ≤ 0)).map (fun c => { c with demand := 0 }) }

/-- insertion into a list sorted by key (after equal keys: stable) -/
def insertKey (key : Child → Rat) (c : Child) : List Child → List Child
  | [] => [c]
  | d :: ds => if key c < key d then c :: d :: ds else d :: insertKey key c ds

/-- `sorted(order, key=…)`: stable — fold from the left, inserting after equal keys -/
def sortStable (key : Child → Rat) (order : List Child) : List Child :=
  order.foldl (fun acc c => insertKey key c acc) []

/-- the release pass of `_shrink` over the hit list -/
def shrinkPass : St → Rat → List Child → St
  | st, _, [] => st
  | st, excess, c :: rest =>
    if excess ≤ 0 then st
    else if c.demand ≤ excess then shrinkPass (release st c.id) (excess - c.demand) rest
    else shrinkPass st excess rest

/-- the hatchery in the set's iteration order -/
def inOrder (st : St) (order : List Nat) : List Child :=
  order.filterMap (fun i => st.hatchery.find? (·.id == i))

def shrink (st : St) (target : Rat) (order : List Nat) : St :=
  let hit := sortStable (fun c => c.supply * c.util) (inOrder st order)
  let excess := sumD hit - target
  reap (shrinkPass st excess hit)

/-- the spawn loop of `_grow`; `factory n` is the child returned by the n-th factory call.
`none` = the factory produced a child without demand (the real code's assertion fails) -/
def growLoop (factory : Nat → Child) : Nat → St → Rat → Option St
  | 0, st, _ => some st                        -- fuel exhausted (the driver supplies plenty)
  | fuel + 1, st, missing =>
    if missing ≤ 0 then some st
    else
      let c : Child := { factory st.spawned with id := 1000 + st.spawned }
      if c.demand ≤ 0 then none
      else growLoop factory fuel
        { st with hatchery := st.hatchery ++ [c], spawned := st.spawned + 1 } (missing - c.demand)

def grow (factory : Nat → Child) (fuel : Nat) (st : St) (target : Rat) : Option St :=
  (growLoop factory fuel st (target - sumD st.all)).map reap

def supply (st : St) : Rat := (st.all.map (·.supply)).sum

/-- one adjustment (one period of `run`) -/
def adjust (factory : Nat → Child) (fuel : Nat) (st : St) (order : List Nat) : Option St :=
  if st.demand < supply st then some (shrink st st.demand order)
  else grow factory fuel st st.demand

/-- utilisation / allocation: mean over the children that have supply, 1 if none -/
def fitness (st : St) (f : Child → Rat) : Rat :=
  let active := st.all.filter (fun c => 0 < c.supply)
  if active.length = 0 then 1 else (active.map f).sum / active.length

inductive Op
  | setDemand (d : Rat)
  | adjust (order : List Nat)
  | childSet (i : Nat) (field : Nat) (x : Rat)    -- 0 supply, 1 util, 2 alloc, 3 demand
  | gc (i : Nat)                                  -- a released child is garbage collected

def setField (field : Nat) (x : Rat) (c : Child) : Child :=
  match field with
  | 0 => { c with supply := x }
  | 1 => { c with util := x }
  | 2 => { c with alloc := x }
  | _ => { c with demand := x }

def step (factory : Nat → Child) (fuel : Nat) (st : St) : Op → Option St
  | .setDemand d => some { st with demand := d }
  | .adjust order => adjust factory fuel st order
  | .childSet i f x =>
    some { st with hatchery := st.hatchery.map (fun c => if c.id = i then setField f x c else c),
                   mortuary := st.mortuary.map (fun c => if c.id = i then setField f x c else c) }
  | .gc i => some { st with mortuary := st.mortuary.filter (·.id ≠ i) }

/-- `FactoryPool(*children, factory=…)` -/
def init (cs : List Child) : St :=
  { hatchery := cs, mortuary := [], demand := sumD cs, spawned := 0 }

end Cobald.Factory

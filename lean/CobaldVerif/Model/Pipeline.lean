/-
Model of `cobald.daemon.core.config.PipelineTranslator` (C05), on top of the C04 model.

A pipeline element is either what a registered `!Tag` yields — a template
(`yaml_constructor(factory.s)`: mapping → keywords, sequence → positionals, bare → nothing) —
or a legacy `__type__` mapping with keyword items, which is constructed by the translator with
`target=<previous object>`.  The list is walked last to first (core/config.py:142-161).
`fails t` says whether constructing from template `t` raises.
-/
import CobaldVerif.Model.Partial

namespace Cobald.Pipeline
open Cobald.Partial

inductive Elem
  | tag (t : Tmpl)
  | legacy (t : Tmpl)
deriving Repr

def Elem.tmpl : Elem → Tmpl
  | .tag t => t
  | .legacy t => t

/-- what one step of the walk constructs from element `e`, given the previously built object -/
def construct1 (prev : Option Obj) (e : Elem) : Option Obj :=
  match prev, e with
  | none, .tag t => some (if t.leaf then mkLeaf t else .built t none)   -- `__construct__()`
  | none, .legacy t => some (.built t none)
  | some p, .tag t =>
      -- `item >> prev_item`
      (match rshift (.tmpl t) (.obj p) with
       | some (.obj o, _) => some o
       | _ => none)
  | some p, .legacy t => some (.built t (some p))                       -- `construct(..., target=prev)`

/-- walk `elems` (given last to first); returns objects (in configuration order) and the
construction log; `none` in the first component = loading raised -/
def walk (fails : Tmpl → Bool) : List Elem → Option Obj → List Obj → Log → Option (List Obj) × Log
  | [], _, acc, log => (some acc, log)
  | e :: rest, prev, acc, log =>
    if fails e.tmpl then (none, log)
    else
      match construct1 prev e with
      | none => (none, log)
      | some o => walk fails rest (some o) (o :: acc) (log ++ [e.tmpl])

/-- `translate_hierarchy({"pipeline": elems})`: objects in configuration order -/
def pipeline (fails : Tmpl → Bool) (elems : List Elem) : Option (List Obj) × Log :=
  walk fails elems.reverse none [] []

end Cobald.Pipeline

/- Per-event preservation lemmas for InvC (uniform tactic `inv_ev_C`; generated once with tools/gen_inv.py and checked in). -/
import CobaldVerif.Lemmas.Runtime
namespace Cobald.Runtime
set_option maxHeartbeats 1000000
attribute [local grind cases] Flav

set_option hygiene false in
macro "inv_ev_C" : tactic => `(tactic| (
  simp only [step] at hs
  repeat' (split at hs)
  all_goals (first | (simp at hs; done) | skip)
  all_goals (try (simp only [Option.some.injEq] at hs; subst hs))
  all_goals (try simp only [beq_iff_eq, Bool.or_eq_true] at *)
  all_goals (first | exact h | (
    obtain ⟨h1, h2, h3, h4, h5, h6, h7⟩ := h
    constructor <;> (try simp only [upd'_apply, upd_apply, setFlavTid_phase, setFlavTid_guard, setFlavTid_pay, setFlavTid_fl, setFlavTid_starts, setFlavTid_tid, setFlavTid_latch, setFlavTid_rtask, setFlavTid_gather, setFlavTid_stopReq, setFlavTid_flushed, setFlavTid_execs, setFlavTid_failedQuiet, setFlavTid_holder, setFlavTid_pids]) <;> grind [step.upd', upd, St.quiet, St.closing, Out.failing, Out.loopKiller, St.setFlavTid, St.tidOK, St.coBusy, Flav.isCo, Phase.restartable, Latch.isFailed, PSt.notStarted]))))

theorem InvC_acceptBegin (s s' : St) (r : Nat) (h : InvC s) (hs : step s (.acceptBegin r) = some s') : InvC s' := by
  inv_ev_C

theorem InvC_acceptReject (s s' : St) (r : Nat) (h : InvC s) (hs : step s (.acceptReject r) = some s') : InvC s' := by
  inv_ev_C

theorem InvC_adopt (s s' : St) (p : Nat) (f : Flav) (h : InvC s) (hs : step s (.adopt p f) = some s') : InvC s' := by
  inv_ev_C

theorem InvC_newUnit (s s' : St) (p : Nat) (f : Flav) (h : InvC s) (hs : step s (.newUnit p f) = some s') : InvC s' := by
  inv_ev_C

theorem InvC_start (s s' : St) (p t : Nat) (h : InvC s) (hs : step s (.start p t) = some s') : InvC s' := by
  inv_ev_C

theorem InvC_bodyEnd (s s' : St) (p : Nat) (o : Out) (h : InvC s) (hs : step s (.bodyEnd p o) = some s') : InvC s' := by
  inv_ev_C

theorem InvC_unwound (s s' : St) (p : Nat) (h : InvC s) (hs : step s (.unwound p) = some s') : InvC s' := by
  inv_ev_C

theorem InvC_sigint (s s' : St)  (h : InvC s) (hs : step s .sigint = some s') : InvC s' := by
  inv_ev_C

theorem InvC_shutdownCall (s s' : St)  (h : InvC s) (hs : step s .shutdownCall = some s') : InvC s' := by
  inv_ev_C

theorem InvC_execBegin (s s' : St) (e : Nat) (f : Flav) (t : Nat) (h : InvC s) (hs : step s (.execBegin e f t) = some s') : InvC s' := by
  inv_ev_C

theorem InvC_execEnd (s s' : St) (e : Nat) (o : Out) (h : InvC s) (hs : step s (.execEnd e o) = some s') : InvC s' := by
  inv_ev_C

theorem InvC_endRun (s s' : St) (r : Res) (h : InvC s) (hs : step s (.endRun r) = some s') : InvC s' := by
  inv_ev_C

theorem InvC_launch (s s' : St)  (h : InvC s) (hs : step s .launch = some s') : InvC s' := by
  inv_ev_C

theorem InvC_flush (s s' : St)  (h : InvC s) (hs : step s .flush = some s') : InvC s' := by
  inv_ev_C

theorem InvC_sweep (s s' : St) (p : Nat) (h : InvC s) (hs : step s (.sweep p) = some s') : InvC s' := by
  inv_ev_C

theorem InvC_record (s s' : St) (p : Nat) (h : InvC s) (hs : step s (.record p) = some s') : InvC s' := by
  inv_ev_C

theorem InvC_close (s s' : St) (f : Flav) (h : InvC s) (hs : step s (.close f) = some s') : InvC s' := by
  inv_ev_C

theorem InvC_rtaskEnd (s s' : St) (f : Flav) (h : InvC s) (hs : step s (.rtaskEnd f) = some s') : InvC s' := by
  inv_ev_C

theorem InvC_gatherRaise (s s' : St) (f : Flav) (h : InvC s) (hs : step s (.gatherRaise f) = some s') : InvC s' := by
  inv_ev_C

theorem InvC_gatherDone (s s' : St)  (h : InvC s) (hs : step s .gatherDone = some s') : InvC s' := by
  inv_ev_C

theorem InvC_discard (s s' : St) (p : Nat) (h : InvC s) (hs : step s (.discard p) = some s') : InvC s' := by
  inv_ev_C

theorem InvC_hold (s s' : St) (p h' : Nat) (h : InvC s) (hs : step s (.hold p h') = some s') : InvC s' := by
  inv_ev_C

theorem InvC_dropUnit (s s' : St) (p : Nat) (h : InvC s) (hs : step s (.dropUnit p) = some s') : InvC s' := by
  inv_ev_C

theorem InvC_step (s s' : St) (e : Ev) (h : InvC s) (hs : step s e = some s') : InvC s' := by
  cases e with
  | acceptBegin r => exact InvC_acceptBegin s s' r h hs
  | acceptReject r => exact InvC_acceptReject s s' r h hs
  | adopt p f => exact InvC_adopt s s' p f h hs
  | newUnit p f => exact InvC_newUnit s s' p f h hs
  | start p t => exact InvC_start s s' p t h hs
  | bodyEnd p o => exact InvC_bodyEnd s s' p o h hs
  | unwound p => exact InvC_unwound s s' p h hs
  | sigint  => exact InvC_sigint s s'  h hs
  | shutdownCall  => exact InvC_shutdownCall s s'  h hs
  | execBegin e f t => exact InvC_execBegin s s' e f t h hs
  | execEnd e o => exact InvC_execEnd s s' e o h hs
  | endRun r => exact InvC_endRun s s' r h hs
  | launch  => exact InvC_launch s s'  h hs
  | flush  => exact InvC_flush s s'  h hs
  | sweep p => exact InvC_sweep s s' p h hs
  | record p => exact InvC_record s s' p h hs
  | close f => exact InvC_close s s' f h hs
  | rtaskEnd f => exact InvC_rtaskEnd s s' f h hs
  | gatherRaise f => exact InvC_gatherRaise s s' f h hs
  | gatherDone  => exact InvC_gatherDone s s'  h hs
  | discard p => exact InvC_discard s s' p h hs
  | hold p h' => exact InvC_hold s s' p h' h hs
  | dropUnit p => exact InvC_dropUnit s s' p h hs

end Cobald.Runtime

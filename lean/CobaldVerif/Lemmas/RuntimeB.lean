/- Per-event preservation lemmas for InvB (uniform tactic `inv_ev_B`; generated once with tools/gen_inv.py and checked in). -/
import CobaldVerif.Lemmas.Runtime
namespace Cobald.Runtime
set_option maxHeartbeats 1000000
attribute [local grind cases] Flav

set_option hygiene false in
macro "inv_ev_B" : tactic => `(tactic| (
  simp only [step] at hs
  repeat' (split at hs)
  all_goals (first | (simp at hs; done) | skip)
  all_goals (try (simp only [Option.some.injEq] at hs; subst hs))
  all_goals (try simp only [beq_iff_eq, Bool.or_eq_true] at *)
  all_goals (first | exact h | (
    obtain ⟨h1⟩ := h
    constructor <;> (try simp only [upd'_apply, upd_apply, setFlavTid_phase, setFlavTid_guard, setFlavTid_pay, setFlavTid_fl, setFlavTid_starts, setFlavTid_tid, setFlavTid_latch, setFlavTid_rtask, setFlavTid_gather, setFlavTid_stopReq, setFlavTid_flushed, setFlavTid_execs, setFlavTid_failedQuiet, setFlavTid_holder, setFlavTid_pids]) <;> grind [step.upd', upd, St.quiet, St.closing, Out.failing, Out.loopKiller, St.setFlavTid, St.tidOK, St.coBusy, Flav.isCo, Phase.restartable, Latch.isFailed]))))

theorem InvB_acceptBegin (s s' : St) (r : Nat) (h : InvB s) (hs : step s (.acceptBegin r) = some s') : InvB s' := by
  inv_ev_B

theorem InvB_acceptReject (s s' : St) (r : Nat) (h : InvB s) (hs : step s (.acceptReject r) = some s') : InvB s' := by
  inv_ev_B

theorem InvB_adopt (s s' : St) (p : Nat) (f : Flav) (h : InvB s) (hs : step s (.adopt p f) = some s') : InvB s' := by
  inv_ev_B

theorem InvB_newUnit (s s' : St) (p : Nat) (f : Flav) (h : InvB s) (hs : step s (.newUnit p f) = some s') : InvB s' := by
  inv_ev_B

theorem InvB_start (s s' : St) (p t : Nat) (h : InvB s) (hs : step s (.start p t) = some s') : InvB s' := by
  inv_ev_B

theorem InvB_bodyEnd (s s' : St) (p : Nat) (o : Out) (h : InvB s) (hs : step s (.bodyEnd p o) = some s') : InvB s' := by
  inv_ev_B

theorem InvB_unwound (s s' : St) (p : Nat) (h : InvB s) (hs : step s (.unwound p) = some s') : InvB s' := by
  inv_ev_B

theorem InvB_sigint (s s' : St)  (h : InvB s) (hs : step s .sigint = some s') : InvB s' := by
  inv_ev_B

theorem InvB_shutdownCall (s s' : St)  (h : InvB s) (hs : step s .shutdownCall = some s') : InvB s' := by
  inv_ev_B

theorem InvB_execBegin (s s' : St) (e : Nat) (f : Flav) (t : Nat) (h : InvB s) (hs : step s (.execBegin e f t) = some s') : InvB s' := by
  inv_ev_B

theorem InvB_execEnd (s s' : St) (e : Nat) (o : Out) (h : InvB s) (hs : step s (.execEnd e o) = some s') : InvB s' := by
  inv_ev_B

theorem InvB_endRun (s s' : St) (r : Res) (h : InvB s) (hs : step s (.endRun r) = some s') : InvB s' := by
  inv_ev_B

theorem InvB_launch (s s' : St)  (h : InvB s) (hs : step s .launch = some s') : InvB s' := by
  inv_ev_B

theorem InvB_flush (s s' : St)  (h : InvB s) (hs : step s .flush = some s') : InvB s' := by
  inv_ev_B

theorem InvB_sweep (s s' : St) (p : Nat) (h : InvB s) (hs : step s (.sweep p) = some s') : InvB s' := by
  inv_ev_B

theorem InvB_record (s s' : St) (p : Nat) (h : InvB s) (hs : step s (.record p) = some s') : InvB s' := by
  inv_ev_B

theorem InvB_close (s s' : St) (f : Flav) (h : InvB s) (hs : step s (.close f) = some s') : InvB s' := by
  inv_ev_B

theorem InvB_rtaskEnd (s s' : St) (f : Flav) (h : InvB s) (hs : step s (.rtaskEnd f) = some s') : InvB s' := by
  inv_ev_B

theorem InvB_gatherRaise (s s' : St) (f : Flav) (h : InvB s) (hs : step s (.gatherRaise f) = some s') : InvB s' := by
  inv_ev_B

theorem InvB_gatherDone (s s' : St)  (h : InvB s) (hs : step s .gatherDone = some s') : InvB s' := by
  inv_ev_B

theorem InvB_discard (s s' : St) (p : Nat) (h : InvB s) (hs : step s (.discard p) = some s') : InvB s' := by
  inv_ev_B

theorem InvB_hold (s s' : St) (p h' : Nat) (h : InvB s) (hs : step s (.hold p h') = some s') : InvB s' := by
  inv_ev_B

theorem InvB_dropUnit (s s' : St) (p : Nat) (h : InvB s) (hs : step s (.dropUnit p) = some s') : InvB s' := by
  inv_ev_B

theorem InvB_step (s s' : St) (e : Ev) (h : InvB s) (hs : step s e = some s') : InvB s' := by
  cases e with
  | acceptBegin r => exact InvB_acceptBegin s s' r h hs
  | acceptReject r => exact InvB_acceptReject s s' r h hs
  | adopt p f => exact InvB_adopt s s' p f h hs
  | newUnit p f => exact InvB_newUnit s s' p f h hs
  | start p t => exact InvB_start s s' p t h hs
  | bodyEnd p o => exact InvB_bodyEnd s s' p o h hs
  | unwound p => exact InvB_unwound s s' p h hs
  | sigint  => exact InvB_sigint s s'  h hs
  | shutdownCall  => exact InvB_shutdownCall s s'  h hs
  | execBegin e f t => exact InvB_execBegin s s' e f t h hs
  | execEnd e o => exact InvB_execEnd s s' e o h hs
  | endRun r => exact InvB_endRun s s' r h hs
  | launch  => exact InvB_launch s s'  h hs
  | flush  => exact InvB_flush s s'  h hs
  | sweep p => exact InvB_sweep s s' p h hs
  | record p => exact InvB_record s s' p h hs
  | close f => exact InvB_close s s' f h hs
  | rtaskEnd f => exact InvB_rtaskEnd s s' f h hs
  | gatherRaise f => exact InvB_gatherRaise s s' f h hs
  | gatherDone  => exact InvB_gatherDone s s'  h hs
  | discard p => exact InvB_discard s s' p h hs
  | hold p h' => exact InvB_hold s s' p h' h hs
  | dropUnit p => exact InvB_dropUnit s s' p h hs

end Cobald.Runtime

/-
The blocking model of `execute` (Model/Runtime/Exec.lean): the opposite-direction deadlock is
permanent, and it is the only way an execute call can hang.
-/
import CobaldVerif.Model.Runtime.Exec

namespace Cobald.Exec

def St.idsNodup (s : St) : Prop := (s.calls.map (·.id)).Nodup

theorem find_of_mem (l : List Call) (c : Call) (hc : c ∈ l) (hnd : (l.map (·.id)).Nodup) :
    l.find? (fun d => d.id == c.id) = some c := by
  induction l with
  | nil => simp at hc
  | cons a l ih =>
    simp only [List.map_cons, List.nodup_cons] at hnd
    rcases List.mem_cons.mp hc with rfl | h
    · simp
    · have hne : a.id ≠ c.id := by
        intro he
        exact hnd.1 (by rw [he]; exact List.mem_map_of_mem h)
      have hb : (a.id == c.id) = false := by simpa using hne
      rw [List.find?_cons, hb]
      exact ih h hnd.2

theorem idsNodup_step (s s' : St) (e : Ev) (h : s.idsNodup) (hs : step s e = some s') : s'.idsNodup := by
  unfold St.idsNodup at *
  cases e with
  | call id caller target =>
    simp only [step] at hs
    split at hs
    · rename_i hg
      simp only [Option.some.injEq] at hs; subst hs
      simp only [List.map_append, List.map_cons, List.map_nil]
      rw [List.nodup_append]
      refine ⟨h, by simp, ?_⟩
      intro a ha b hb
      simp only [List.mem_singleton] at hb; subst hb
      obtain ⟨c, hc, rfl⟩ := List.mem_map.mp ha
      have := List.all_eq_true.mp hg.2 c hc
      simpa using this
    · simp at hs
  | begin id =>
    simp only [step] at hs
    split at hs
    · split at hs
      · simp only [Option.some.injEq] at hs; subst hs
        have : (s.calls.map (fun d => if d.id == id then { d with begun := true } else d)).map (·.id) = s.calls.map (·.id) := by
          rw [List.map_map]; apply List.map_congr_left; intro d _; simp only [Function.comp]; split <;> rfl
        rw [this]; exact h
      · simp at hs
    · simp at hs
  | finish id =>
    simp only [step] at hs
    split at hs
    · split at hs
      · simp only [Option.some.injEq] at hs; subst hs
        exact (List.Nodup.sublist ((List.filter_sublist).map _) h)
      · simp at hs
    · simp at hs

theorem idsNodup_run (es : List Ev) : ∀ s s', s.idsNodup → run s es = some s' → s'.idsNodup := by
  induction es with
  | nil => intro s s' h hr; simp [run] at hr; subst hr; exact h
  | cons e es ih =>
    intro s s' h hr
    simp only [run] at hr
    split at hr
    · rename_i s1 hs1; exact ih s1 s' (idsNodup_step s s1 e h hs1) hr
    · simp at hr

theorem blocked_iff (s : St) (t : Nat) : s.blocked t = true ↔ ∃ c ∈ s.calls, c.caller = t ∧ c.target ≠ t := by
  simp [St.blocked, List.any_eq_true]

/-- **the only way to hang**: if calls are in flight and the two coroutine threads do not wait for
each other, some call can make progress -/
theorem progress_unless_opposite (s : St) (hw : s.wellTargeted = true) (hne : s.calls ≠ []) (hop : s.opposite = false) :
    s.canProgress = true := by
  apply Classical.byContradiction
  intro hcp
  have hcp : ∀ c ∈ s.calls, c.begun = false ∧ c.target ≠ c.caller ∧ s.blocked c.target = true := by
    intro c hc
    have : ¬ (c.begun || c.target == c.caller || !s.blocked c.target) = true := by
      intro h; exact hcp (List.any_eq_true.mpr ⟨c, hc, h⟩)
    simp only [Bool.or_eq_true, Bool.not_eq_true', beq_iff_eq, not_or, Bool.not_eq_true, Bool.not_eq_false] at this
    exact ⟨this.1.1, this.1.2, this.2⟩
  have hwt : ∀ c ∈ s.calls, c.target = 0 ∨ c.target = 1 ∨ c.target = c.caller := by
    intro c hc
    have := List.all_eq_true.mp hw c hc
    simp only [Bool.or_eq_true, beq_iff_eq] at this
    rcases this with (h | h) | h
    · exact Or.inl h
    · exact Or.inr (Or.inl h)
    · exact Or.inr (Or.inr h)
  obtain ⟨c0, hc0⟩ := List.exists_mem_of_ne_nil _ hne
  obtain ⟨_, hc0t, hb0⟩ := hcp c0 hc0
  obtain ⟨d, hd, hdc, hdt⟩ := (blocked_iff s _).mp hb0
  obtain ⟨hdb, _, hbd⟩ := hcp d hd
  obtain ⟨e, he, hec, het⟩ := (blocked_iff s _).mp hbd
  obtain ⟨heb, _, _⟩ := hcp e he
  have t01 : c0.target = 0 ∨ c0.target = 1 := by
    rcases hwt c0 hc0 with h | h | h
    · exact Or.inl h
    · exact Or.inr h
    · exact absurd h hc0t
  have dt : d.target = 0 ∨ d.target = 1 := by
    rcases hwt d hd with h | h | h
    · exact Or.inl h
    · exact Or.inr h
    · rw [hdc] at h; exact absurd h hdt
  have et : e.target = 0 ∨ e.target = 1 := by
    rcases hwt e he with h | h | h
    · exact Or.inl h
    · exact Or.inr h
    · rw [hec] at h; exact absurd h het
  -- d : t -> 1-t and e : 1-t -> t, both not begun
  have key : s.opposite = true := by
    unfold St.opposite
    simp only [Bool.and_eq_true, List.any_eq_true, beq_iff_eq, Bool.not_eq_true']
    rcases t01 with h0 | h1
    · have hd1 : d.target = 1 := by
        rcases dt with h | h
        · rw [h0] at hdt; exact absurd h hdt
        · exact h
      have he0 : e.target = 0 := by
        rcases et with h | h
        · exact h
        · rw [hd1] at het; exact absurd h het
      exact ⟨⟨d, hd, ⟨by rw [hdc, h0], hd1⟩, hdb⟩, ⟨e, he, ⟨by rw [hec, hd1], he0⟩, heb⟩⟩
    · have hd0 : d.target = 0 := by
        rcases dt with h | h
        · exact h
        · rw [h1] at hdt; exact absurd h hdt
      have he1 : e.target = 1 := by
        rcases et with h | h
        · rw [hd0] at het; exact absurd h het
        · exact h
      exact ⟨⟨e, he, ⟨by rw [hec, hd0], he1⟩, heb⟩, ⟨d, hd, ⟨by rw [hdc, h1], hd0⟩, hdb⟩⟩
  rw [key] at hop; exact absurd hop (by simp)

/-- a call that can make progress has an enabled event -/
theorem canProgress_enabled (s : St) (hnd : s.idsNodup) (h : s.canProgress = true) :
    ∃ id s', step s (.begin id) = some s' ∨ step s (.finish id) = some s' := by
  obtain ⟨c, hc, hp⟩ := List.any_eq_true.mp h
  have hf := find_of_mem s.calls c hc hnd
  by_cases hb : c.begun = true
  · exact ⟨c.id, { calls := s.calls.filter (fun d => d.id != c.id) }, Or.inr (by simp [step, hf, hb])⟩
  · have hb' : c.begun = false := by simpa using hb
    simp only [hb', Bool.false_or, Bool.or_eq_true, beq_iff_eq, Bool.not_eq_true'] at hp
    refine ⟨c.id, { calls := s.calls.map (fun d => if d.id == c.id then { d with begun := true } else d) }, Or.inl ?_⟩
    simp only [step, hf]
    rw [if_pos ⟨hb', hp⟩]

theorem opposite_iff (s : St) : s.opposite = true ↔
    (∃ c ∈ s.calls, c.caller = 0 ∧ c.target = 1 ∧ c.begun = false) ∧
    (∃ c ∈ s.calls, c.caller = 1 ∧ c.target = 0 ∧ c.begun = false) := by
  simp [St.opposite, List.any_eq_true, and_assoc]

theorem find_some (l : List Call) (id : Nat) (c : Call) (h : l.find? (fun d => d.id == id) = some c) :
    c ∈ l ∧ c.id = id := by
  have h1 := List.find?_some h
  exact ⟨List.mem_of_find?_eq_some h, by simpa using h1⟩

/-- **the deadlock is permanent**: once the event-loop thread waits for the trio thread and the
trio thread for the event-loop thread, no later event - not even further calls - lets either of
the two payloads start: both execute calls hang for ever -/
theorem opposite_stable (s s' : St) (e : Ev) (hnd : s.idsNodup) (ho : s.opposite = true) (hs : step s e = some s') :
    s'.opposite = true := by
  obtain ⟨⟨c1, h1, a1, t1, b1⟩, ⟨c2, h2, a2, t2, b2⟩⟩ := (opposite_iff s).mp ho
  have blk0 : s.blocked 0 = true := (blocked_iff s 0).mpr ⟨c1, h1, a1, by rw [t1]; decide⟩
  have blk1 : s.blocked 1 = true := (blocked_iff s 1).mpr ⟨c2, h2, a2, by rw [t2]; decide⟩
  rw [opposite_iff]
  cases e with
  | call id caller target =>
    simp only [step] at hs
    split at hs
    · simp only [Option.some.injEq] at hs; subst hs
      exact ⟨⟨c1, List.mem_append_left _ h1, a1, t1, b1⟩, ⟨c2, List.mem_append_left _ h2, a2, t2, b2⟩⟩
    · simp at hs
  | begin id =>
    simp only [step] at hs
    split at hs
    · rename_i c hf
      obtain ⟨hc, hid⟩ := find_some _ _ _ hf
      split at hs
      · rename_i hg
        simp only [Option.some.injEq] at hs; subst hs
        have ne1 : c1.id ≠ id := by
          intro he
          have := find_of_mem s.calls c1 h1 hnd
          rw [he, hf] at this
          have hcc : c = c1 := by simpa using this
          subst hcc
          rcases hg.2 with h | h
          · rw [t1, a1] at h; exact absurd h (by decide)
          · rw [t1, blk1] at h; exact absurd h (by decide)
        have ne2 : c2.id ≠ id := by
          intro he
          have := find_of_mem s.calls c2 h2 hnd
          rw [he, hf] at this
          have hcc : c = c2 := by simpa using this
          subst hcc
          rcases hg.2 with h | h
          · rw [t2, a2] at h; exact absurd h (by decide)
          · rw [t2, blk0] at h; exact absurd h (by decide)
        refine ⟨⟨c1, List.mem_map.mpr ⟨c1, h1, by simp [ne1]⟩, a1, t1, b1⟩, ⟨c2, List.mem_map.mpr ⟨c2, h2, by simp [ne2]⟩, a2, t2, b2⟩⟩
      · simp at hs
    · simp at hs
  | finish id =>
    simp only [step] at hs
    split at hs
    · rename_i c hf
      obtain ⟨hc, hid⟩ := find_some _ _ _ hf
      split at hs
      · rename_i hg
        simp only [Option.some.injEq] at hs; subst hs
        have ne1 : c1.id ≠ id := by
          intro he
          have := find_of_mem s.calls c1 h1 hnd
          rw [he, hf] at this
          have hcc : c = c1 := by simpa using this
          subst hcc
          rw [b1] at hg; exact absurd hg (by decide)
        have ne2 : c2.id ≠ id := by
          intro he
          have := find_of_mem s.calls c2 h2 hnd
          rw [he, hf] at this
          have hcc : c = c2 := by simpa using this
          subst hcc
          rw [b2] at hg; exact absurd hg (by decide)
        exact ⟨⟨c1, List.mem_filter.mpr ⟨h1, by simp [ne1]⟩, a1, t1, b1⟩, ⟨c2, List.mem_filter.mpr ⟨h2, by simp [ne2]⟩, a2, t2, b2⟩⟩
      · simp at hs
    · simp at hs

theorem opposite_forever (es : List Ev) : ∀ s s', s.idsNodup → s.opposite = true → run s es = some s' → s'.opposite = true := by
  induction es with
  | nil => intro s s' _ ho hr; simp [run] at hr; subst hr; exact ho
  | cons e es ih =>
    intro s s' hnd ho hr
    simp only [run] at hr
    split at hr
    · rename_i s1 hs1
      exact ih s1 s' (idsNodup_step s s1 e hnd hs1) (opposite_stable s s1 e hnd ho hs1) hr
    · simp at hr

/-! ### completion: all calls in flight return -/

/-- work left: an unbegun call has to begin and to finish, a begun one to finish -/
def St.mu (s : St) : Nat := (s.calls.map (fun c => if c.begun then 1 else 2)).sum

theorem sum_map_le {α} (f g : α → Nat) : ∀ (l : List α), (∀ x ∈ l, f x ≤ g x) → (l.map f).sum ≤ (l.map g).sum := by
  intro l
  induction l with
  | nil => intro _; simp
  | cons a l ih =>
    intro h
    simp only [List.map_cons, List.sum_cons]
    have h1 := h a (List.mem_cons_self ..)
    have h2 := ih (fun x hx => h x (List.mem_cons_of_mem _ hx))
    omega

theorem sum_map_lt {α} (f g : α → Nat) : ∀ (l : List α), (∀ x ∈ l, f x ≤ g x) → (∃ x ∈ l, f x < g x) →
    (l.map f).sum < (l.map g).sum := by
  intro l
  induction l with
  | nil => intro _ ⟨x, hx, _⟩; cases hx
  | cons a l ih =>
    intro h ⟨x, hx, hlt⟩
    simp only [List.map_cons, List.sum_cons]
    have h1 := h a (List.mem_cons_self ..)
    have h2 := sum_map_le f g l (fun y hy => h y (List.mem_cons_of_mem _ hy))
    rcases List.mem_cons.mp hx with rfl | hx'
    · omega
    · have := ih (fun y hy => h y (List.mem_cons_of_mem _ hy)) ⟨x, hx', hlt⟩
      omega

theorem sum_filter_lt (f : Call → Nat) (p : Call → Bool) : ∀ (l : List Call), (∃ x ∈ l, p x = false ∧ 0 < f x) →
    ((l.filter p).map f).sum < (l.map f).sum := by
  intro l
  induction l with
  | nil => intro ⟨x, hx, _⟩; cases hx
  | cons a l ih =>
    intro ⟨x, hx, hp, hf⟩
    have hle : ∀ (l : List Call), ((l.filter p).map f).sum ≤ (l.map f).sum := by
      intro l; induction l with
      | nil => simp
      | cons b l ihl => by_cases hb : p b <;> simp [List.filter, hb] <;> omega
    rcases List.mem_cons.mp hx with rfl | hx'
    · simp only [List.filter, hp, List.map_cons, List.sum_cons]
      have := hle l; omega
    · have := ih ⟨x, hx', hp, hf⟩
      by_cases ha : p a <;> simp [List.filter, ha] <;> omega

/-- begin and finish use up work -/
theorem mu_decreases (s s' : St) (id : Nat) (h : step s (.begin id) = some s' ∨ step s (.finish id) = some s') :
    s'.mu < s.mu := by
  rcases h with h | h
  · simp only [step] at h
    cases hf : s.calls.find? (fun c => c.id == id) with
    | none => rw [hf] at h; cases h
    | some c =>
      rw [hf] at h
      simp only at h
      split at h
      · rename_i hc
        cases h
        obtain ⟨hm, hid⟩ := find_some _ _ _ hf
        unfold St.mu
        simp only [List.map_map]
        apply sum_map_lt
        · intro x _
          simp only [Function.comp]
          by_cases hx : (x.id == id) = true <;> simp [hx] <;> split <;> omega
        · refine ⟨c, hm, ?_⟩
          simp [Function.comp, hid, hc.1]
      · cases h
  · simp only [step] at h
    cases hf : s.calls.find? (fun c => c.id == id) with
    | none => rw [hf] at h; cases h
    | some c =>
      rw [hf] at h
      simp only at h
      split at h
      · cases h
        obtain ⟨hm, hid⟩ := find_some _ _ _ hf
        unfold St.mu
        apply sum_filter_lt
        refine ⟨c, hm, by simp [hid], ?_⟩
        split <;> omega
      · cases h

/-- begin and finish never make the two coroutine threads wait for each other -/
theorem opposite_not_created (s s' : St) (id : Nat) (h : step s (.begin id) = some s' ∨ step s (.finish id) = some s')
    (ho : s.opposite = false) : s'.opposite = false := by
  apply Classical.byContradiction
  intro hn
  have ho' : s'.opposite = true := by simpa using hn
  have : s.opposite = true := by
    rw [opposite_iff] at ho' ⊢
    rcases h with h | h
    · simp only [step] at h
      cases hf : s.calls.find? (fun c => c.id == id) with
      | none => rw [hf] at h; cases h
      | some c =>
        rw [hf] at h; simp only at h
        split at h
        · cases h
          have back : ∀ (a b : Nat), (∃ c ∈ s.calls.map (fun d => if d.id == id then { d with begun := true } else d),
              c.caller = a ∧ c.target = b ∧ c.begun = false) → ∃ c ∈ s.calls, c.caller = a ∧ c.target = b ∧ c.begun = false := by
            rintro a b ⟨c', hc', h1, h2, h3⟩
            obtain ⟨d, hd, rfl⟩ := List.mem_map.mp hc'
            by_cases hx : (d.id == id) = true
            · simp [hx] at h3
            · simp only [hx] at h1 h2 h3
              exact ⟨d, hd, by simpa using h1, by simpa using h2, by simpa using h3⟩
          exact ⟨back 0 1 ho'.1, back 1 0 ho'.2⟩
        · cases h
    · simp only [step] at h
      cases hf : s.calls.find? (fun c => c.id == id) with
      | none => rw [hf] at h; cases h
      | some c =>
        rw [hf] at h; simp only at h
        split at h
        · cases h
          obtain ⟨⟨c1, h1, r1⟩, ⟨c2, h2, r2⟩⟩ := ho'
          exact ⟨⟨c1, (List.mem_filter.mp h1).1, r1⟩, ⟨c2, (List.mem_filter.mp h2).1, r2⟩⟩
        · cases h
  rw [this] at ho; cases ho

theorem wellTargeted_step (s s' : St) (id : Nat) (h : step s (.begin id) = some s' ∨ step s (.finish id) = some s')
    (hw : s.wellTargeted = true) : s'.wellTargeted = true := by
  unfold St.wellTargeted at hw ⊢
  rw [List.all_eq_true] at hw ⊢
  rcases h with h | h
  · simp only [step] at h
    cases hf : s.calls.find? (fun c => c.id == id) with
    | none => rw [hf] at h; cases h
    | some c =>
      rw [hf] at h; simp only at h
      split at h
      · cases h
        intro x hx
        obtain ⟨d, hd, rfl⟩ := List.mem_map.mp hx
        have := hw d hd
        by_cases hxx : (d.id == id) = true <;> simpa [hxx] using this
      · cases h
  · simp only [step] at h
    cases hf : s.calls.find? (fun c => c.id == id) with
    | none => rw [hf] at h; cases h
    | some c =>
      rw [hf] at h; simp only at h
      split at h
      · cases h
        intro x hx
        exact hw x (List.mem_filter.mp hx).1
      · cases h

/-- **every execute call returns**, unless the two coroutine threads wait for each other: from any
state without that deadlock the calls in flight can all be completed (each payload starts on its
target thread and hands its outcome to the caller), by a sequence of `begin` / `finish` events -/
theorem drain : ∀ (n : Nat) (s : St), s.mu ≤ n → s.idsNodup → s.wellTargeted = true → s.opposite = false →
    ∃ es s', run s es = some s' ∧ s'.calls = [] ∧ (∀ e ∈ es, ∃ id, e = .begin id ∨ e = .finish id) := by
  intro n
  induction n with
  | zero =>
    intro s hmu _ _ _
    refine ⟨[], s, rfl, ?_, by simp⟩
    cases hc : s.calls with
    | nil => rfl
    | cons c l =>
      unfold St.mu at hmu; rw [hc] at hmu
      simp only [List.map_cons, List.sum_cons] at hmu
      split at hmu <;> omega
  | succ n ih =>
    intro s hmu hnd hw hop
    by_cases hne : s.calls = []
    · exact ⟨[], s, rfl, hne, by simp⟩
    · obtain ⟨id, s1, h1⟩ := canProgress_enabled s hnd (progress_unless_opposite s hw hne hop)
      have hdec := mu_decreases s s1 id h1
      rcases h1 with hb | hf
      · have hnd1 := idsNodup_step s s1 _ hnd hb
        obtain ⟨es, s2, hr, hc, hall⟩ := ih s1 (by omega) hnd1 (wellTargeted_step s s1 id (.inl hb) hw) (opposite_not_created s s1 id (.inl hb) hop)
        refine ⟨.begin id :: es, s2, by simp [run, hb, hr], hc, ?_⟩
        intro e he
        rcases List.mem_cons.mp he with rfl | he
        · exact ⟨id, .inl rfl⟩
        · exact hall e he
      · have hnd1 := idsNodup_step s s1 _ hnd hf
        obtain ⟨es, s2, hr, hc, hall⟩ := ih s1 (by omega) hnd1 (wellTargeted_step s s1 id (.inr hf) hw) (opposite_not_created s s1 id (.inr hf) hop)
        refine ⟨.finish id :: es, s2, by simp [run, hf, hr], hc, ?_⟩
        intro e he
        rcases List.mem_cons.mp he with rfl | he
        · exact ⟨id, .inr rfl⟩
        · exact hall e he

end Cobald.Exec

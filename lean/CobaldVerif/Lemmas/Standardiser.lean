import CobaldVerif.Model.Standardiser
import CobaldVerif.Lemmas.ERat
import Mathlib.Data.Rat.Floor
import Mathlib.Tactic.FieldSimp

namespace Cobald.Standardiser
open Cobald ERat

/-! ### clamp in a linear order -/

theorem clamp_ge {lo hi : ERat} (x : ERat) (h : lo ≤ hi) : lo ≤ clamp lo x hi := by
  unfold clamp; split_ifs <;> order

theorem clamp_le {lo hi : ERat} (x : ERat) (h : lo ≤ hi) : clamp lo x hi ≤ hi := by
  unfold clamp; split_ifs <;> order

theorem clamp_cases (lo x hi : ERat) : clamp lo x hi = x ∨ clamp lo x hi = lo ∨ clamp lo x hi = hi := by
  unfold clamp; split_ifs <;> simp

theorem clamp_id {lo x hi : ERat} (h1 : lo ≤ x) (h2 : x ≤ hi) : clamp lo x hi = x := by
  unfold clamp; split_ifs <;> order

/-- two nested clamps are one clamp to the clamped bounds -/
theorem clamp_clamp {a b lo hi : ERat} (x : ERat) (hab : a ≤ b) (hlh : lo ≤ hi) :
    clamp a (clamp lo x hi) b = clamp (clamp a lo b) x (clamp a hi b) := by
  unfold clamp; split_ifs <;> order

theorem clamp_mono {lo hi x y : ERat} (h : lo ≤ hi) (hxy : x ≤ y) : clamp lo x hi ≤ clamp lo y hi := by
  unfold clamp; split_ifs <;> order

/-! ### the window -/

theorem win_le (p : Params) (hp : p.ok) (s : Rat) : winLo p s ≤ winHi p s := by
  obtain ⟨_, hs, hb, _⟩ := hp
  unfold winLo winHi subFrom addFin
  cases hbl : p.backlog <;> cases hsp : p.surplus <;> simp_all
  linarith

/-- effective lower / upper bound of `_clamp_demand` at supply `s` -/
def effLo (p : Params) (s : Rat) : ERat := clamp p.min (winLo p s) p.max
def effHi (p : Params) (s : Rat) : ERat := clamp p.min (winHi p s) p.max

theorem eff_le (p : Params) (hp : p.ok) (s : Rat) : effLo p s ≤ effHi p s :=
  clamp_mono hp.1 (win_le p hp s)

theorem cd_eq (p : Params) (hp : p.ok) (s v : Rat) :
    cd p s v = clamp (effLo p s) (fin v) (effHi p s) := by
  unfold cd effLo effHi
  exact clamp_clamp _ hp.1 (win_le p hp s)

/-! ### nearness (negation of `farApart`) -/

theorem absQ_eq (q : Rat) : absQ q = |q| := by
  unfold absQ; split_ifs with h
  · rw [abs_of_neg h]
  · rw [abs_of_nonneg (not_lt.mp h)]

theorem farApart_self (a : ERat) (g : Rat) (hg : 0 < g) : farApart a a g = false := by
  cases a <;> simp [farApart, absQ_eq, hg]

/-- clamping to one interval never moves two finite values further apart -/
theorem clamp_near {lo hi : ERat} (h : lo ≤ hi) (x y g : Rat) (hg : 0 < g) (hxy : |x - y| < g) :
    farApart (clamp lo (fin x) hi) (clamp lo (fin y) hi) g = false := by
  rw [abs_lt] at hxy
  cases lo <;> cases hi <;> (try simp at h) <;> unfold clamp <;> (try simp) <;>
    (try split_ifs) <;> (try simp [farApart, absQ_eq, hg, abs_lt]) <;>
    (try constructor) <;> (try linarith)

/-- adding non-negative steps commutes with clamping, starting inside the interval -/
theorem clamp_shift {lo hi : ERat} (h : lo ≤ hi) (x k j y : Rat) (hk : 0 ≤ k) (hj : 0 ≤ j)
    (hx1 : lo ≤ fin x) (hx2 : fin x ≤ hi) (hy : clamp lo (fin (x + k)) hi = fin y) :
    clamp lo (fin (y + j)) hi = clamp lo (fin (x + k + j)) hi := by
  cases lo <;> cases hi <;> (try simp at h) <;> (try simp at hx1) <;> (try simp at hx2) <;>
    unfold clamp at * <;> (try simp at hy) <;> (try simp) <;>
    (try split_ifs at hy) <;> (try simp at hy) <;> (try subst hy) <;>
    (try split_ifs) <;> (try simp) <;> (try linarith)

theorem clamp_fin_all {lo hi : ERat} (h : lo ≤ hi) (v0 : Rat)
    (hf : (clamp lo (fin v0) hi).isFin = true) (v : Rat) : ∃ x, clamp lo (fin v) hi = fin x := by
  cases lo <;> cases hi <;> (try simp at h) <;> unfold clamp at * <;> (try simp at hf) <;> (try simp) <;>
    (try split_ifs) <;> (try simp) <;> (try (split_ifs at hf <;> simp [isFin] at hf)) <;>
    (try (simp [isFin] at hf))

/-! ### floor to a multiple -/

theorem floorTo_le (v g : Rat) (hg : 0 < g) : floorTo v g ≤ v := by
  unfold floorTo
  have h : ((v / g).floor : Rat) ≤ v / g := Int.floor_le (v / g)
  calc ((v / g).floor : Rat) * g ≤ v / g * g := by exact mul_le_mul_of_nonneg_right h hg.le
    _ = v := by field_simp

theorem lt_floorTo_add (v g : Rat) (hg : 0 < g) : v < floorTo v g + g := by
  unfold floorTo
  have h : v / g < ((v / g).floor : Rat) + 1 := Int.lt_floor_add_one (v / g)
  have : v / g * g < (((v / g).floor : Rat) + 1) * g := by exact mul_lt_mul_of_pos_right h hg
  have e : v / g * g = v := by field_simp
  linarith

theorem floorTo_multiple (v g : Rat) : ∃ k : Int, floorTo v g = k * g := ⟨_, rfl⟩

theorem floorTo_near (v g : Rat) (hg : 0 < g) : |v - floorTo v g| < g := by
  have h1 := floorTo_le v g hg
  have h2 := lt_floorTo_add v g hg
  rw [abs_lt]; constructor <;> linarith

end Cobald.Standardiser

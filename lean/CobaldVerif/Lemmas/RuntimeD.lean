import CobaldVerif.Lemmas.Runtime
namespace Cobald.Runtime
set_option maxHeartbeats 1000000
attribute [local grind cases] Flav

set_option hygiene false in
macro "inv_ev_D" : tactic => `(tactic| (
  simp only [step] at hs
  repeat' (split at hs)
  all_goals (first | (simp at hs; done) | skip)
  all_goals (try (simp only [Option.some.injEq] at hs; subst hs))
  all_goals (try simp only [beq_iff_eq, Bool.or_eq_true] at *)
  all_goals (first | exact h | (
    obtain ⟨h1, h2⟩ := h
    constructor <;> (try simp only [upd'_apply, upd_apply, setFlavTid_phase, setFlavTid_guard, setFlavTid_pay, setFlavTid_fl, setFlavTid_starts, setFlavTid_tid, setFlavTid_latch, setFlavTid_rtask, setFlavTid_gather, setFlavTid_stopReq, setFlavTid_flushed, setFlavTid_execs, setFlavTid_failedQuiet, setFlavTid_holder, setFlavTid_pids]) <;> grind [step.upd', upd, St.quiet, St.closing, Out.failing, Out.loopKiller, St.setFlavTid, St.tidOK, St.coBusy, Flav.isCo, Phase.restartable, Latch.isFailed]))))

theorem InvD_acceptBegin (s s' : St) (r : Nat) (h : InvD s) (hs : step s (.acceptBegin r) = some s') : InvD s' := by
  inv_ev_D

theorem InvD_acceptReject (s s' : St) (r : Nat) (h : InvD s) (hs : step s (.acceptReject r) = some s') : InvD s' := by
  inv_ev_D

theorem InvD_adopt (s s' : St) (p : Nat) (f : Flav) (h : InvD s) (hs : step s (.adopt p f) = some s') : InvD s' := by
  inv_ev_D

theorem InvD_newUnit (s s' : St) (p : Nat) (f : Flav) (h : InvD s) (hs : step s (.newUnit p f) = some s') : InvD s' := by
  inv_ev_D

theorem InvD_start (s s' : St) (p t : Nat) (h : InvD s) (hs : step s (.start p t) = some s') : InvD s' := by
  inv_ev_D

theorem InvD_bodyEnd (s s' : St) (p : Nat) (o : Out) (h : InvD s) (hs : step s (.bodyEnd p o) = some s') : InvD s' := by
  inv_ev_D

theorem InvD_unwound (s s' : St) (p : Nat) (h : InvD s) (hs : step s (.unwound p) = some s') : InvD s' := by
  inv_ev_D

theorem InvD_sigint (s s' : St)  (h : InvD s) (hs : step s .sigint = some s') : InvD s' := by
  inv_ev_D

theorem InvD_shutdownCall (s s' : St)  (h : InvD s) (hs : step s .shutdownCall = some s') : InvD s' := by
  inv_ev_D

theorem InvD_execBegin (s s' : St) (e : Nat) (f : Flav) (t : Nat) (h : InvD s) (hs : step s (.execBegin e f t) = some s') : InvD s' := by
  inv_ev_D

theorem InvD_execEnd (s s' : St) (e : Nat) (o : Out) (h : InvD s) (hs : step s (.execEnd e o) = some s') : InvD s' := by
  inv_ev_D

theorem InvD_endRun (s s' : St) (r : Res) (h : InvD s) (hs : step s (.endRun r) = some s') : InvD s' := by
  inv_ev_D

theorem InvD_launch (s s' : St)  (h : InvD s) (hs : step s .launch = some s') : InvD s' := by
  inv_ev_D

theorem InvD_flush (s s' : St)  (h : InvD s) (hs : step s .flush = some s') : InvD s' := by
  inv_ev_D

theorem InvD_sweep (s s' : St) (p : Nat) (h : InvD s) (hs : step s (.sweep p) = some s') : InvD s' := by
  inv_ev_D

theorem InvD_record (s s' : St) (p : Nat) (h : InvD s) (hs : step s (.record p) = some s') : InvD s' := by
  inv_ev_D

theorem InvD_close (s s' : St) (f : Flav) (h : InvD s) (hs : step s (.close f) = some s') : InvD s' := by
  inv_ev_D

theorem InvD_rtaskEnd (s s' : St) (f : Flav) (h : InvD s) (hs : step s (.rtaskEnd f) = some s') : InvD s' := by
  inv_ev_D

theorem InvD_gatherRaise (s s' : St) (f : Flav) (h : InvD s) (hs : step s (.gatherRaise f) = some s') : InvD s' := by
  inv_ev_D

theorem InvD_gatherDone (s s' : St)  (h : InvD s) (hs : step s .gatherDone = some s') : InvD s' := by
  inv_ev_D

theorem InvD_discard (s s' : St) (p : Nat) (h : InvD s) (hs : step s (.discard p) = some s') : InvD s' := by
  inv_ev_D

theorem InvD_hold (s s' : St) (p h' : Nat) (h : InvD s) (hs : step s (.hold p h') = some s') : InvD s' := by
  inv_ev_D

theorem InvD_dropUnit (s s' : St) (p : Nat) (h : InvD s) (hs : step s (.dropUnit p) = some s') : InvD s' := by
  inv_ev_D

theorem InvD_step (s s' : St) (e : Ev) (h : InvD s) (hs : step s e = some s') : InvD s' := by
  cases e with
  | acceptBegin r => exact InvD_acceptBegin s s' r h hs
  | acceptReject r => exact InvD_acceptReject s s' r h hs
  | adopt p f => exact InvD_adopt s s' p f h hs
  | newUnit p f => exact InvD_newUnit s s' p f h hs
  | start p t => exact InvD_start s s' p t h hs
  | bodyEnd p o => exact InvD_bodyEnd s s' p o h hs
  | unwound p => exact InvD_unwound s s' p h hs
  | sigint  => exact InvD_sigint s s'  h hs
  | shutdownCall  => exact InvD_shutdownCall s s'  h hs
  | execBegin e f t => exact InvD_execBegin s s' e f t h hs
  | execEnd e o => exact InvD_execEnd s s' e o h hs
  | endRun r => exact InvD_endRun s s' r h hs
  | launch  => exact InvD_launch s s'  h hs
  | flush  => exact InvD_flush s s'  h hs
  | sweep p => exact InvD_sweep s s' p h hs
  | record p => exact InvD_record s s' p h hs
  | close f => exact InvD_close s s' f h hs
  | rtaskEnd f => exact InvD_rtaskEnd s s' f h hs
  | gatherRaise f => exact InvD_gatherRaise s s' f h hs
  | gatherDone  => exact InvD_gatherDone s s'  h hs
  | discard p => exact InvD_discard s s' p h hs
  | hold p h' => exact InvD_hold s s' p h' h hs
  | dropUnit p => exact InvD_dropUnit s s' p h hs

end Cobald.Runtime

import CobaldVerif.Model.LineProtocol

namespace Cobald.LP

def noTrailBS : List Char → Bool
  | [] => true
  | [c] => c != '\\'
  | _ :: r => noTrailBS r

theorem noTrailBS_tail (c : Char) (t : List Char) (h : noTrailBS (c :: t) = true) : noTrailBS t = true := by
  cases t with
  | nil => rfl
  | cons d t' => simpa [noTrailBS] using h

/-- scanning an escaped token followed by a stop character returns the token and the rest -/
theorem scan_esc (S : List Char) (hS : '\\' ∉ S) :
    ∀ (t rest : List Char), noTrailBS t = true → (∀ c r, rest = c :: r → c ∈ S) →
      scan S (esc S t ++ rest) = (t, rest)
  | [], rest, _, hr => by
      cases rest with
      | nil => simp [esc, scan]
      | cons c r =>
        have hc : c ∈ S := hr c r rfl
        have hne : c ≠ '\\' := fun h => hS (h ▸ hc)
        simp only [esc, List.nil_append]
        rw [scan]
        · simp [hc]
        · intro c' r' h; exact absurd h hne
  | c :: t, rest, ht, hr => by
      by_cases hc : c ∈ S
      · have hne : c ≠ '\\' := fun h => hS (h ▸ hc)
        have ht' := noTrailBS_tail c t ht
        simp only [esc, hc, if_true, List.cons_append]
        rw [scan]; simp [hc, scan_esc S hS t rest ht' hr]
      · by_cases hb : c = '\\'
        · subst hb
          cases t with
          | nil => simp [noTrailBS] at ht
          | cons d t' =>
            have ht' : noTrailBS (d :: t') = true := by simpa [noTrailBS] using ht
            have ih := scan_esc S hS (d :: t') rest ht' hr
            by_cases hd : d ∈ S
            · simp only [esc, hc, hd, if_true, if_false, List.cons_append] at ih ⊢
              rw [scan]; simp [hS, ih]
            · simp only [esc, hc, hd, if_false, List.cons_append] at ih ⊢
              rw [scan]; simp [hd, ih]
        · have ht' := noTrailBS_tail c t ht
          simp only [esc, hc, if_false, List.cons_append]
          rw [scan]
          · simp [hc, scan_esc S hS t rest ht' hr]
          · intro c' r' h; exact absurd h hb

theorem bs_not_S2 : '\\' ∉ S2 := by decide
theorem bs_not_S3 : '\\' ∉ S3 := by decide

/-- a quoted string decodes to itself — any string, trailing backslashes included -/
theorem readQuoted_escQ : ∀ (s rest : List Char), readQuoted (escQ s ++ '"' :: rest) = some (s, rest)
  | [], rest => by simp [escQ, readQuoted]
  | c :: s, rest => by
      have ih := readQuoted_escQ s rest
      by_cases h1 : c = '\\'
      · subst h1; simp [escQ, readQuoted, ih]
      · by_cases h2 : c = '"'
        · subst h2; simp [escQ, readQuoted, ih]
        · simp only [escQ, h1, h2, or_self, if_false, List.cons_append]
          rw [readQuoted]
          · simp [ih]
          all_goals (intros; simp_all)

def tokOK (t : List Char) : Prop := ∀ c ∈ t, c ≠ ',' ∧ c ≠ ' ' ∧ c ≠ '\n'

def stopsTok (rest : List Char) : Prop := ∀ c r, rest = c :: r → c = ',' ∨ c = ' ' ∨ c = '\n'

theorem readTok_tok : ∀ (t rest : List Char), tokOK t → stopsTok rest → readTok (t ++ rest) = (t, rest)
  | [], rest, _, hr => by
      cases rest with
      | nil => simp [readTok]
      | cons c r => simp [readTok, hr c r rfl]
  | c :: t, rest, ht, hr => by
      have hc := ht c (by simp)
      have ih := readTok_tok t rest (fun d hd => ht d (by simp [hd])) hr
      simp [readTok, hc.1, hc.2.1, hc.2.2, ih]

/-- what an unquoted value must look like: no separator inside, not starting with a quote -/
def fvalOK : FVal → Prop
  | .str _ => True
  | .tok t => tokOK t ∧ t.head? ≠ some '"'

theorem readValue_enc (v : FVal) (rest : List Char) (hv : fvalOK v) (hr : stopsTok rest) :
    readValue (encField v ++ rest) = some (v, rest) := by
  cases v with
  | str s =>
    simp only [encField, List.cons_append, List.append_assoc, readValue]
    simp [readQuoted_escQ]
  | tok t =>
    obtain ⟨h1, h2⟩ := hv
    simp only [encField]
    have := readTok_tok t rest h1 hr
    cases t with
    | nil =>
      cases rest with
      | nil => simp [readValue, readTok]
      | cons c r =>
        have hc := hr c r rfl
        have hq : c ≠ '"' := by rcases hc with rfl | rfl | rfl <;> decide
        simp only [List.nil_append] at this ⊢
        rw [readValue]
        · simp [this]
        · intro r' h; exact absurd (List.cons.inj h).1 hq
    | cons c t' =>
      have hq : c ≠ '"' := by simpa using h2
      simp only [List.cons_append] at this ⊢
      rw [readValue]
      · simp [this]
      · intro r' h; exact absurd (List.cons.inj h).1 hq

/-! ### tag set -/

def tagsOK (T : List (List Char × List Char)) : Prop :=
  ∀ kv ∈ T, noTrailBS kv.1 = true ∧ noTrailBS kv.2 = true

theorem encTags_head (T : List (List Char × List Char)) (rest : List Char) :
    ∀ c r, encTags T ++ ' ' :: rest = c :: r → c ∈ S3 := by
  intro c r h
  cases T with
  | nil => simp [encTags] at h; rw [← h.1]; decide
  | cons kv T' => obtain ⟨k, v⟩ := kv; simp [encTags] at h; rw [← h.1]; decide

theorem parseTags_enc : ∀ (T : List (List Char × List Char)) (n : Nat) (rest : List Char),
    tagsOK T → T.length < n → parseTags n (encTags T ++ ' ' :: rest) = some (T, rest)
  | [], n, rest, _, hn => by
      cases n with
      | zero => simp at hn
      | succ n => simp [encTags, parseTags]
  | (k, v) :: T, n, rest, hT, hn => by
      cases n with
      | zero => simp at hn
      | succ n =>
        have hkv := hT (k, v) (by simp)
        have hT' : tagsOK T := fun kv h => hT kv (by simp [h])
        have ih := parseTags_enc T n rest hT' (by simpa using hn)
        have s1 : scan S3 (esc S3 k ++ '=' :: (esc S3 v ++ (encTags T ++ ' ' :: rest))) =
            (k, '=' :: (esc S3 v ++ (encTags T ++ ' ' :: rest))) :=
          scan_esc S3 bs_not_S3 k _ hkv.1 (by intro c r h; rw [← (List.cons.inj h).1]; decide)
        have s2 : scan S3 (esc S3 v ++ (encTags T ++ ' ' :: rest)) = (v, encTags T ++ ' ' :: rest) :=
          scan_esc S3 bs_not_S3 v _ hkv.2 (encTags_head T rest)
        simp only [encTags, List.cons_append, List.append_assoc, parseTags]
        simp [s1, s2, ih]

theorem length_encTags (T : List (List Char × List Char)) : T.length ≤ (encTags T).length := by
  induction T with
  | nil => simp
  | cons kv T ih => obtain ⟨k, v⟩ := kv; simp [encTags]; omega

/-! ### field set -/

def fieldsOK (F : List (List Char × FVal)) : Prop :=
  ∀ kv ∈ F, noTrailBS kv.1 = true ∧ kv.1.head? ≠ some '\n' ∧ fvalOK kv.2

def endsFields (rest : List Char) : Prop := ∀ c r, rest = c :: r → c = ' ' ∨ c = '\n'

theorem parseFields_enc : ∀ (F : List (List Char × FVal)) (n : Nat) (rest : List Char),
    F ≠ [] → fieldsOK F → endsFields rest → F.length ≤ n →
    parseFields n (encFields F ++ rest) = some (F, rest)
  | [], _, _, h, _, _, _ => absurd rfl h
  | [(k, v)], n, rest, _, hF, hr, hn => by
      cases n with
      | zero => simp at hn
      | succ n =>
        have hkv := hF (k, v) (by simp)
        have s1 : scan S3 (esc S3 k ++ '=' :: (encField v ++ rest)) = (k, '=' :: (encField v ++ rest)) :=
          scan_esc S3 bs_not_S3 k _ hkv.1 (by intro c r h; rw [← (List.cons.inj h).1]; decide)
        have hst : stopsTok rest := fun c r h => by rcases hr c r h with h | h <;> simp [h]
        have s2 := readValue_enc v rest hkv.2.2 hst
        simp only [encFields, List.cons_append, List.append_assoc, parseFields]
        rw [s1]; simp only [s2]
        cases rest with
        | nil => rfl
        | cons c r =>
          have hc : c ≠ ',' := by rcases hr c r rfl with h | h <;> rw [h] <;> decide
          split
          · rename_i heq; simp at heq; exact absurd heq.2.1 hc
          · rename_i heq; simp at heq; simp [heq]
          · rename_i heq; simp at heq
  | (k, v) :: kv2 :: F, n, rest, _, hF, hr, hn => by
      cases n with
      | zero => simp at hn
      | succ n =>
        have hkv := hF (k, v) (by simp)
        have hF' : fieldsOK (kv2 :: F) := fun kv h => hF kv (by simp [h])
        have ih := parseFields_enc (kv2 :: F) n rest (by simp) hF' hr (by simpa using hn)
        have s1 : scan S3 (esc S3 k ++ '=' :: (encField v ++ ',' :: (encFields (kv2 :: F) ++ rest))) =
            (k, '=' :: (encField v ++ ',' :: (encFields (kv2 :: F) ++ rest))) :=
          scan_esc S3 bs_not_S3 k _ hkv.1 (by intro c r h; rw [← (List.cons.inj h).1]; decide)
        have s2 := readValue_enc v (',' :: (encFields (kv2 :: F) ++ rest)) hkv.2.2
          (by intro c r h; left; exact (List.cons.inj h).1.symm)
        simp only [encFields, List.cons_append, List.append_assoc, parseFields]
        rw [s1]; simp only [s2, ih]

theorem length_encFields : ∀ (F : List (List Char × FVal)), F.length ≤ (encFields F).length
  | [] => by simp
  | [(k, v)] => by simp [encFields]; omega
  | (k, v) :: kv2 :: F => by
      have := length_encFields (kv2 :: F)
      simp only [encFields, List.length_append, List.length_cons] at this ⊢
      omega

/-- the first character of a non-empty field set is neither a space nor a newline -/
theorem encFields_head (F : List (List Char × FVal)) (hne : F ≠ []) (hF : fieldsOK F) (rest : List Char) :
    ∀ c r, encFields F ++ rest = c :: r → c ≠ ' ' ∧ c ≠ '\n' := by
  intro c r h
  have key : ∀ (k : List Char) (tl : List Char), k.head? ≠ some '\n' →
      esc S3 k ++ '=' :: tl = c :: r → c ≠ ' ' ∧ c ≠ '\n' := by
    intro k tl hk h
    cases k with
    | nil => simp [esc] at h; rw [← h.1]; decide
    | cons d k' =>
      simp only [esc] at h
      by_cases hd : d ∈ S3
      · simp [hd] at h; rw [← h.1]; decide
      · simp [hd] at h
        rw [← h.1]
        have : d ≠ '\n' := by simpa using hk
        refine ⟨?_, this⟩
        intro hsp; apply hd; rw [hsp]; decide
  cases F with
  | nil => exact absurd rfl hne
  | cons kv F' =>
    obtain ⟨k, v⟩ := kv
    have hk := (hF (k, v) (by simp)).2.1
    cases F' with
    | nil => simp only [encFields, List.append_assoc, List.cons_append] at h; exact key k _ hk h
    | cons kv2 F'' => simp only [encFields, List.append_assoc, List.cons_append] at h; exact key k _ hk h

/-! ### the emitted keys are sorted -/

/-- negative transitivity of the key order: if c < a then c < b or b < a -/
theorem keyLt_negtrans : ∀ (c a b : List Char), keyLt c a = true → keyLt c b = true ∨ keyLt b a = true
  | [], [], _, h => by simp [keyLt] at h
  | [], _ :: _, [], _ => by right; simp [keyLt]
  | [], _ :: _, _ :: _, _ => by left; simp [keyLt]
  | _ :: _, [], _, h => by simp [keyLt] at h
  | x :: xs, y :: ys, [], _ => by right; simp [keyLt]
  | x :: xs, y :: ys, z :: zs, h => by
    simp only [keyLt] at h ⊢
    by_cases h1 : x.toNat < y.toNat
    · by_cases h2 : x.toNat < z.toNat
      · left; simp [h2]
      · by_cases h3 : z.toNat < x.toNat
        · right; have : z.toNat < y.toNat := by omega
          simp [this]
        · have hxz : x.toNat = z.toNat := by omega
          right; have : z.toNat < y.toNat := by omega
          simp [this]
    · simp only [h1, if_false] at h
      by_cases h2 : y.toNat < x.toNat
      · simp [h2] at h
      · simp only [h2, if_false] at h
        have hxy : x.toNat = y.toNat := by omega
        by_cases h3 : x.toNat < z.toNat
        · left; simp [h3]
        · by_cases h4 : z.toNat < x.toNat
          · right; have : z.toNat < y.toNat := by omega
            simp [this]
          · have hz : z.toNat = x.toNat := by omega
            have a1 : ¬ z.toNat < y.toNat := by omega
            have a2 : ¬ y.toNat < z.toNat := by omega
            have a3 : ¬ x.toNat < z.toNat := by omega
            have a4 : ¬ z.toNat < x.toNat := by omega
            simp only [a1, a2, a3, a4, if_false]
            exact keyLt_negtrans xs ys zs h

def KeySorted {α} (l : List (List Char × α)) : Prop := l.Pairwise (fun a b => keyLt b.1 a.1 = false)

theorem le_trans_key (a b c : List Char) (h1 : keyLt b a = false) (h2 : keyLt c b = false) : keyLt c a = false := by
  cases h : keyLt c a with
  | false => rfl
  | true =>
    rcases keyLt_negtrans c a b h with h' | h'
    · rw [h2] at h'; simp at h'
    · rw [h1] at h'; simp at h'

theorem keyLt_asymm : ∀ (a b : List Char), keyLt a b = true → keyLt b a = false
  | [], [], h => by simp [keyLt] at h
  | [], _ :: _, _ => by simp [keyLt]
  | _ :: _, [], h => by simp [keyLt] at h
  | x :: xs, y :: ys, h => by
    simp only [keyLt] at h ⊢
    by_cases h1 : x.toNat < y.toNat
    · have : ¬ y.toNat < x.toNat := by omega
      simp [this, h1]
    · simp only [h1, if_false] at h
      by_cases h2 : y.toNat < x.toNat
      · simp [h2] at h
      · simp only [h2, if_false] at h
        simp only [h2, h1, if_false]
        exact keyLt_asymm xs ys h

theorem insertByKey_sorted {α} (x : List Char × α) : ∀ (l : List (List Char × α)), KeySorted l → KeySorted (insertByKey x l)
  | [], _ => by simp [insertByKey, KeySorted]
  | y :: ys, h => by
    unfold KeySorted at h
    rw [List.pairwise_cons] at h
    simp only [insertByKey]
    split
    · rename_i hlt
      unfold KeySorted
      rw [List.pairwise_cons]
      refine ⟨?_, List.pairwise_cons.mpr h⟩
      intro b hb
      rcases List.mem_cons.mp hb with rfl | hb'
      · exact keyLt_asymm _ _ hlt
      · exact le_trans_key _ _ _ (keyLt_asymm _ _ hlt) (h.1 b hb')
    · rename_i hnl
      have hnl' : keyLt x.1 y.1 = false := by simpa using hnl
      unfold KeySorted
      rw [List.pairwise_cons]
      refine ⟨?_, insertByKey_sorted x ys h.2⟩
      intro b hb
      have : b = x ∨ b ∈ ys := by
        clear h hnl hnl'
        induction ys with
        | nil => simp [insertByKey] at hb; exact Or.inl hb
        | cons z zs ih =>
          simp only [insertByKey] at hb
          split at hb
          · rcases List.mem_cons.mp hb with rfl | hb'
            · exact Or.inl rfl
            · exact Or.inr hb'
          · rcases List.mem_cons.mp hb with rfl | hb'
            · exact Or.inr (by simp)
            · rcases ih hb' with h | h
              · exact Or.inl h
              · exact Or.inr (List.mem_cons_of_mem _ h)
      rcases this with rfl | hb'
      · exact hnl'
      · exact h.1 b hb'

/-- the keys of the emitted tags and fields are in code-point order (Python's `sorted`) -/
theorem sortByKey_sorted {α} : ∀ (l : List (List Char × α)), KeySorted (sortByKey l)
  | [] => by simp [sortByKey, KeySorted]
  | x :: xs => by simp only [sortByKey]; exact insertByKey_sorted x _ (sortByKey_sorted xs)

/-! ### replace chains (the source's `.replace(..).replace(..)`) are one-pass escapes -/

/-- one pass over the string: every character that has a replacement is replaced by it -/
def onePass (ps : List (Char × List Char)) (s : List Char) : List Char :=
  s.flatMap (fun x => match ps.find? (fun p => p.1 == x) with | some p => p.2 | none => [x])

/-- no replacement text contains a character that a *later* replace of the chain looks for -/
def chainOK : List (Char × List Char) → Bool
  | [] => true
  | (_, t) :: ps => ps.all (fun q => !t.contains q.1) && chainOK ps

theorem onePass_fixed (ps : List (Char × List Char)) (t : List Char) (h : ps.all (fun q => !t.contains q.1) = true) :
    onePass ps t = t := by
  unfold onePass
  induction t with
  | nil => rfl
  | cons x xs ih =>
    have hx : ps.find? (fun p => p.1 == x) = none := by
      rw [List.find?_eq_none]
      intro q hq
      have := List.all_eq_true.mp h q hq
      simp only [Bool.not_eq_true', List.contains_eq_mem, List.mem_cons, decide_eq_false_iff_not, not_or] at this
      simpa using fun e => this.1 e
    have hrest : ps.all (fun q => !xs.contains q.1) = true := by
      apply List.all_eq_true.mpr
      intro q hq
      have := List.all_eq_true.mp h q hq
      simp only [Bool.not_eq_true', List.contains_eq_mem, List.mem_cons, decide_eq_false_iff_not, not_or] at this ⊢
      exact this.2
    simp only [List.flatMap_cons, hx]
    rw [ih hrest]; rfl

/-- a replace chain whose later steps never touch what earlier steps produced is one pass -/
theorem replSeq_eq_onePass : ∀ (ps : List (Char × List Char)) (s : List Char), chainOK ps = true → replSeq ps s = onePass ps s
  | [], s, _ => by simp [replSeq, onePass]
  | (c, t) :: ps, s, h => by
    simp only [chainOK, Bool.and_eq_true] at h
    rw [replSeq, replSeq_eq_onePass ps _ h.2]
    unfold rep1 onePass
    rw [List.flatMap_assoc]
    congr 1
    funext x
    by_cases hx : x = c
    · subst hx
      simp only [if_true, List.find?_cons, beq_self_eq_true]
      exact onePass_fixed ps t h.1
    · have : (c == x) = false := by simpa using fun e => hx e.symm
      simp [hx, this]

/-- the pairs of a chain that puts a backslash before every character of `S` -/
def escPairs (S : List Char) : List (Char × List Char) := S.map (fun c => (c, ['\\', c]))

theorem find_escPairs (S : List Char) (x : Char) :
    (escPairs S).find? (fun p => p.1 == x) = if x ∈ S then some (x, ['\\', x]) else none := by
  induction S with
  | nil => simp [escPairs]
  | cons c cs ih =>
    simp only [escPairs, List.map_cons, List.find?_cons] at ih ⊢
    by_cases h : c = x
    · subst h; simp
    · have hb : (c == x) = false := by simpa using h
      have hx : ¬ x = c := fun e => h e.symm
      rw [hb]
      simp only [List.mem_cons, hx, false_or]
      exact ih

theorem onePass_escPairs (S : List Char) : ∀ s, onePass (escPairs S) s = esc S s := by
  intro s
  induction s with
  | nil => rfl
  | cons x xs ih =>
    have hcons : onePass (escPairs S) (x :: xs) =
        (match (escPairs S).find? (fun p => p.1 == x) with | some p => p.2 | none => [x]) ++ onePass (escPairs S) xs := by
      simp [onePass]
    rw [hcons, find_escPairs, ih]
    by_cases h : x ∈ S <;> simp [esc, h]

theorem escQ_eq_esc : ∀ s, escQ s = esc ['\\', '"'] s := by
  intro s
  induction s with
  | nil => rfl
  | cons c r ih => simp [escQ, esc, ih]

end Cobald.LP

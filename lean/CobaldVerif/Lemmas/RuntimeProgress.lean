/-
Progress of the closing phase of the runtime LTS (C01 C02 C12): once the run has been asked to
stop (a failure was delivered, an interrupt, or shutdown()) and the coroutine payloads have
unwound, the internal closing steps are always enabled, each strictly decreases a measure that
is at most 8, and they end the run.  Thread payloads occur in none of the conditions.
-/
import CobaldVerif.Lemmas.RuntimeInv

namespace Cobald.Runtime

def b2n (b : Bool) : Nat := if b then 1 else 0

/-- what is left to do before the run call can end -/
def St.mu (s : St) : Nat :=
  b2n (!s.phase.restartable) +
  b2n (decide (s.latch .aio = .opened)) + b2n (decide (s.latch .trio = .opened)) + b2n (decide (s.latch .thr = .opened)) +
  b2n (decide (s.rtask .aio = .running)) + b2n (decide (s.rtask .trio = .running)) + b2n (decide (s.rtask .thr = .running)) +
  b2n (decide (s.gather = .pending))

theorem b2n_le (b : Bool) : b2n b ≤ 1 := by cases b <;> simp [b2n]

theorem mu_le (s : St) : s.mu ≤ 8 := by
  unfold St.mu
  have h1 := b2n_le (!s.phase.restartable)
  have h2 := b2n_le (decide (s.latch .aio = .opened))
  have h3 := b2n_le (decide (s.latch .trio = .opened))
  have h4 := b2n_le (decide (s.latch .thr = .opened))
  have h5 := b2n_le (decide (s.rtask .aio = .running))
  have h6 := b2n_le (decide (s.rtask .trio = .running))
  have h7 := b2n_le (decide (s.rtask .thr = .running))
  have h8 := b2n_le (decide (s.gather = .pending))
  omega

/-- the internal steps of closing, and the end of the run -/
def Ev.closingEv : Ev → Bool
  | .close _ | .rtaskEnd _ | .gatherRaise _ | .gatherDone | .endRun _ => true
  | _ => false

/-- no coroutine payload is executing any more (all unwound or finished) -/
def St.coQuiet (s : St) : Prop := s.pids.all (fun p => !((s.fl p).isCo && s.coBusy p)) = true
instance (s : St) : Decidable s.coQuiet := by unfold St.coQuiet; infer_instance

/-- the result the run ends with, read off what `gather` saw -/
def St.result (s : St) : Res :=
  match s.gather with
  | .raised p =>
    (match s.pay p with
     | .done .baseExc => .raisedBase p
     | .done .sysExit => .raisedBase p
     | .done .kbd => .raisedBase p
     | _ => .raisedRT p)
  | _ => .returned

theorem resultOK_result (s : St) : s.resultOK s.result = true := by
  unfold St.resultOK St.result
  cases hg : s.gather with
  | raised p =>
    simp only
    cases hp : s.pay p with
    | done o => cases o <;> simp
    | _ => simp
  | _ => simp

theorem rtask_cases (r : RTask) : r = .running ∨ r = .ok ∨ r = .cancelled ∨ ∃ p, r = .err p := by
  cases r <;> simp

attribute [local grind cases] Flav

/-- **closing always makes progress**: in a state that is up, has been asked to stop and whose
coroutine payloads have unwound, one of the closing steps (or the end of the run) is enabled and
strictly decreases the measure; the conditions are reproduced afterwards -/
theorem closing_progress (s : St) (inv : Inv s) (hup : s.phase = .up) (hc : s.closing) (hq : s.coQuiet) :
    ∃ e s', e.closingEv = true ∧ step s e = some s' ∧ s'.mu < s.mu ∧
      ((∃ r, e = .endRun r ∧ s'.phase = .ended r) ∨ (s'.phase = .up ∧ s'.closing ∧ s'.coQuiet)) := by
  by_cases h1 : ∃ f, s.latch f = .opened
  · obtain ⟨f, hf⟩ := h1
    refine ⟨.close f, { s with latch := step.upd' s.latch f .closed }, rfl, ?_, ?_, Or.inr ⟨hup, hc, hq⟩⟩
    · simp [step, hup, hc, hf]
    · cases f <;> simp [St.mu, b2n, step.upd', hf] <;> omega
  · have hl : ∀ f, s.latch f ≠ .opened := fun f hf => h1 ⟨f, hf⟩
    by_cases h2 : ∃ f, s.rtask f = .running
    · obtain ⟨f, hf⟩ := h2
      cases hlf : s.latch f with
      | opened => exact absurd hlf (hl f)
      | failed p =>
        refine ⟨.rtaskEnd f, { s with rtask := step.upd' s.rtask f (.err p) }, rfl, ?_, ?_, Or.inr ⟨hup, hc, hq⟩⟩
        · simp [step, hup, hf, hlf]
        · cases f <;> simp [St.mu, b2n, step.upd', hf] <;> omega
      | closed =>
        refine ⟨.rtaskEnd f, { s with rtask := step.upd' s.rtask f .ok }, rfl, ?_, ?_, Or.inr ⟨hup, hc, hq⟩⟩
        · simp [step, hup, hf, hlf]
        · cases f <;> simp [St.mu, b2n, step.upd', hf] <;> omega
    · have hr : ∀ f, s.rtask f ≠ .running := fun f hf => h2 ⟨f, hf⟩
      by_cases hg : s.gather = .pending
      · by_cases h3 : ∃ f p, s.rtask f = .err p
        · obtain ⟨f, p, hf⟩ := h3
          refine ⟨.gatherRaise f, { s with gather := .raised p }, rfl, ?_, ?_, Or.inr ⟨hup, Or.inr (by simp), hq⟩⟩
          · simp [step, hup, hf, hg]
          · simp [St.mu, b2n, hg]
        · have hok : ∀ f, s.rtask f = .ok := by
            intro f
            rcases rtask_cases (s.rtask f) with h | h | h | ⟨p, h⟩
            · exact absurd h (hr f)
            · exact h
            · exact absurd hg (inv.d.cancelled_seen f h)
            · exact absurd ⟨f, p, h⟩ h3
          refine ⟨.gatherDone, { s with gather := .completed }, rfl, ?_, ?_, Or.inr ⟨hup, Or.inr (by simp), hq⟩⟩
          · simp [step, hup, hg, hok]
          · simp [St.mu, b2n, hg]
      · refine ⟨.endRun s.result, { s with phase := .ended s.result, guard := none }, rfl, ?_, ?_, Or.inl ⟨_, rfl, rfl⟩⟩
        · have := resultOK_result s
          have hq' := hq
          simp only [St.coQuiet, List.all_eq_true, Bool.not_eq_eq_eq_not, Bool.not_true, Bool.and_eq_false_imp] at hq'
          simp [step, hup, hg, hr, hl, this]
          exact hq'
        · simp [St.mu, b2n, hup, Phase.restartable]

/-- **closing terminates**: from such a state at most `mu ≤ 8` closing steps lead to the end of
the run call, whatever thread payloads are doing -/
theorem closing_terminates_aux (n : Nat) : ∀ s, Inv s → s.phase = .up → s.closing → s.coQuiet → s.mu ≤ n →
    ∃ es s' r, (es.all Ev.closingEv = true) ∧ run s es = some s' ∧ s'.phase = .ended r ∧ es.length ≤ n := by
  induction n with
  | zero =>
    intro s _ hup _ _ hmu
    have : 1 ≤ s.mu := by simp [St.mu, b2n, hup, Phase.restartable]; omega
    omega
  | succ n ih =>
    intro s inv hup hc hq hmu
    obtain ⟨e, s1, he, hs, hlt, hnext⟩ := closing_progress s inv hup hc hq
    rcases hnext with ⟨r, rfl, hr⟩ | ⟨hup1, hc1, hq1⟩
    · exact ⟨[.endRun r], s1, r, by simp [Ev.closingEv], by simp [run, hs], hr, by simp⟩
    · obtain ⟨es, s', r, hall, hrun, hend, hlen⟩ := ih s1 (inv_step s s1 e inv hs) hup1 hc1 hq1 (by omega)
      refine ⟨e :: es, s', r, by simp [he, hall], by simp [run, hs, hrun], hend, by simp; omega⟩

/-- no failure has been recorded or delivered -/
def St.clean (s : St) : Prop :=
  (∀ f, (s.latch f).isFailed = false) ∧ (∀ f p, s.rtask f ≠ .err p) ∧ (∀ p, s.gather ≠ .raised p)

/-- the closing steps never invent a failure -/
theorem closing_step_clean (s s' : St) (e : Ev) (he : e.closingEv = true) (hc : s.clean) (hs : step s e = some s') :
    s'.clean ∧ (∀ r, e = .endRun r → r = .returned) := by
  obtain ⟨c1, c2, c3⟩ := hc
  cases e <;> simp [Ev.closingEv] at he
  case close f =>
    simp only [step] at hs
    split at hs
    · simp only [Option.some.injEq] at hs; subst hs
      refine ⟨⟨fun g => ?_, c2, c3⟩, by simp⟩
      show ((if s.latch f = .opened then step.upd' s.latch f .closed else s.latch) g).isFailed = false
      split
      · simp only [upd'_apply]; split
        · rfl
        · exact c1 g
      · exact c1 g
    · simp at hs
  case rtaskEnd f =>
    simp only [step] at hs
    split at hs
    · cases hl : s.latch f with
      | failed p => have := c1 f; simp [hl, Latch.isFailed] at this
      | opened => simp [hl] at hs
      | closed =>
        simp only [hl, Option.some.injEq] at hs; subst hs
        refine ⟨⟨c1, fun g p => ?_, c3⟩, by simp⟩
        show step.upd' s.rtask f .ok g ≠ .err p
        simp only [upd'_apply]; split
        · simp
        · exact c2 g p
    · simp at hs
  case gatherRaise f =>
    simp only [step] at hs
    cases hr : s.rtask f with
    | err p => exact absurd hr (c2 f p)
    | running => simp [hr] at hs
    | ok => simp [hr] at hs
    | cancelled => simp [hr] at hs
  case gatherDone =>
    simp only [step] at hs
    split at hs
    · simp only [Option.some.injEq] at hs; subst hs
      exact ⟨⟨c1, c2, by simp⟩, by simp⟩
    · simp at hs
  case endRun r =>
    simp only [step] at hs
    split at hs
    · split at hs
      · rename_i hok
        simp only [Option.some.injEq] at hs; subst hs
        refine ⟨⟨c1, c2, c3⟩, fun r' hr' => ?_⟩
        simp only [Ev.endRun.injEq] at hr'; subst hr'
        unfold St.resultOK at hok
        cases hg : s.gather with
        | raised p => exact absurd hg (c3 p)
        | pending => simpa [hg] using hok
        | interrupted => simpa [hg] using hok
        | completed => simpa [hg] using hok
      · simp at hs
    · simp at hs

/-- from a clean state the run ends by returning normally -/
theorem closing_returns_aux (n : Nat) : ∀ s, Inv s → s.phase = .up → s.closing → s.coQuiet → s.clean → s.mu ≤ n →
    ∃ es s', (es.all Ev.closingEv = true) ∧ run s es = some s' ∧ s'.phase = .ended .returned ∧ es.length ≤ n := by
  induction n with
  | zero =>
    intro s _ hup _ _ _ hmu
    have : 1 ≤ s.mu := by simp [St.mu, b2n, hup, Phase.restartable]; omega
    omega
  | succ n ih =>
    intro s inv hup hc hq hcl hmu
    obtain ⟨e, s1, he, hs, hlt, hnext⟩ := closing_progress s inv hup hc hq
    obtain ⟨hcl1, hret⟩ := closing_step_clean s s1 e he hcl hs
    rcases hnext with ⟨r, rfl, hr⟩ | ⟨hup1, hc1, hq1⟩
    · have := hret r rfl; subst this
      exact ⟨[.endRun .returned], s1, by simp [Ev.closingEv], by simp [run, hs], hr, by simp⟩
    · obtain ⟨es, s', hall, hrun, hend, hlen⟩ := ih s1 (inv_step s s1 e inv hs) hup1 hc1 hq1 hcl1 (by omega)
      refine ⟨e :: es, s', by simp [he, hall], by simp [run, hs, hrun], hend, by simp; omega⟩

theorem closing_returns (s : St) (hr : Reach s) (hup : s.phase = .up) (hc : s.closing) (hq : s.coQuiet) (hcl : s.clean) :
    ∃ es s', (es.all Ev.closingEv = true) ∧ run s es = some s' ∧ s'.phase = .ended .returned ∧ es.length ≤ 8 := by
  obtain ⟨es, s', h1, h2, h3, h4⟩ := closing_returns_aux s.mu s (inv_reach s hr) hup hc hq hcl (Nat.le_refl _)
  exact ⟨es, s', h1, h2, h3, Nat.le_trans h4 (mu_le s)⟩

/-- cancellation can always be delivered: a coroutine payload that is still running when the run
is closing unwinds after its runner has been closed; an outcome that has not been looked at yet
can always be processed -/
theorem unwind_enabled (s : St) (p : Nat) (hup : s.phase = .up) (hc : s.closing) (hrun : s.pay p = .running)
    (hco : (s.fl p).isCo = true) :
    ∃ s1 s2, step s (.close (s.fl p)) = some s1 ∧ step s1 (.unwound p) = some s2 ∧ s2.pay p = .unwound := by
  let s1 : St := { s with latch := if s.latch (s.fl p) = .opened then step.upd' s.latch (s.fl p) .closed else s.latch }
  have h1 : step s (.close (s.fl p)) = some s1 := by simp [step, hup, hc, s1]
  have hl : s1.latch (s1.fl p) ≠ .opened := by
    show (if s.latch (s.fl p) = .opened then step.upd' s.latch (s.fl p) .closed else s.latch) (s.fl p) ≠ .opened
    split
    · simp [upd'_apply]
    · assumption
  have h2 : step s1 (.unwound p) = some { s1 with pay := upd s1.pay p .unwound } := by
    have hp : s1.pay p = .running := hrun
    have hf : (s1.fl p).isCo = true := hco
    simp only [step, hp, hf, true_and]
    rw [if_pos hl]
  exact ⟨s1, _, h1, h2, by simp [upd]⟩

theorem record_enabled (s : St) (p : Nat) (o : Out) (h : s.pay p = .ended o) :
    ∃ s', step s (.record p) = some s' ∧ s'.pay p = .done o := by
  simp only [step, h]
  repeat' split
  all_goals exact ⟨_, rfl, by simp [upd]⟩

/-- the closing steps leave the payloads alone and never take back what `gather` has seen -/
theorem closing_step_keeps (s s' : St) (e : Ev) (he : e.closingEv = true) (hs : step s e = some s') :
    s'.pay = s.pay ∧ (s.gather ≠ .pending → s'.gather = s.gather) := by
  cases e <;> simp [Ev.closingEv] at he
  case close f =>
    simp only [step] at hs
    split at hs
    · simp only [Option.some.injEq] at hs; subst hs; exact ⟨rfl, fun _ => rfl⟩
    · simp at hs
  case rtaskEnd f =>
    simp only [step] at hs
    split at hs
    · cases hl : s.latch f with
      | failed p => simp only [hl, Option.some.injEq] at hs; subst hs; exact ⟨rfl, fun _ => rfl⟩
      | opened => simp [hl] at hs
      | closed => simp only [hl, Option.some.injEq] at hs; subst hs; exact ⟨rfl, fun _ => rfl⟩
    · simp at hs
  case gatherRaise f =>
    simp only [step] at hs
    cases hr : s.rtask f with
    | err p =>
      cases hg : s.gather with
      | pending =>
        simp only [hr, hg] at hs
        split at hs
        · simp only [Option.some.injEq] at hs; subst hs; exact ⟨rfl, fun h => absurd rfl h⟩
        · simp at hs
      | raised q => simp [hr, hg] at hs
      | interrupted => simp [hr, hg] at hs
      | completed => simp [hr, hg] at hs
    | running => simp [hr] at hs
    | ok => simp [hr] at hs
    | cancelled => simp [hr] at hs
  case gatherDone =>
    simp only [step] at hs
    split at hs
    · rename_i h
      simp only [Option.some.injEq] at hs; subst hs
      exact ⟨rfl, fun hn => absurd h.2.1 hn⟩
    · simp at hs
  case endRun r =>
    simp only [step] at hs
    split at hs
    · split at hs
      · simp only [Option.some.injEq] at hs; subst hs; exact ⟨rfl, fun _ => rfl⟩
      · simp at hs
    · simp at hs

/-- closing terminates, and any predicate the closing steps preserve holds at the end -/
theorem closing_aux (P : St → Prop) (hP : ∀ s s' e, Ev.closingEv e = true → step s e = some s' → P s → P s') (n : Nat) :
    ∀ s, Inv s → s.phase = .up → s.closing → s.coQuiet → P s → s.mu ≤ n →
    ∃ es s' r, (es.all Ev.closingEv = true) ∧ run s es = some s' ∧ s'.phase = .ended r ∧ P s' ∧ es.length ≤ n := by
  induction n with
  | zero =>
    intro s _ hup _ _ _ hmu
    have : 1 ≤ s.mu := by simp [St.mu, b2n, hup, Phase.restartable]; omega
    omega
  | succ n ih =>
    intro s inv hup hc hq hp hmu
    obtain ⟨e, s1, he, hs, hlt, hnext⟩ := closing_progress s inv hup hc hq
    have hp1 := hP s s1 e he hs hp
    rcases hnext with ⟨r, rfl, hr⟩ | ⟨hup1, hc1, hq1⟩
    · exact ⟨[.endRun r], s1, r, by simp [Ev.closingEv], by simp [run, hs], hr, hp1, by simp⟩
    · obtain ⟨es, s', r, hall, hrun, hend, hpe, hlen⟩ := ih s1 (inv_step s s1 e inv hs) hup1 hc1 hq1 hp1 (by omega)
      refine ⟨e :: es, s', r, by simp [he, hall], by simp [run, hs, hrun], hend, hpe, by simp; omega⟩

theorem reach_run (s s' : St) (es : List Ev) (hr : Reach s) (h : run s es = some s') : Reach s' := by
  obtain ⟨es0, h0⟩ := hr
  refine ⟨es0 ++ es, ?_⟩
  have : ∀ (a : St) (l1 l2 : List Ev) (b : St), run a l1 = some b → run a (l1 ++ l2) = run b l2 := by
    intro a l1
    induction l1 generalizing a with
    | nil => intro l2 b hb; simp [run] at hb; subst hb; rfl
    | cons e l ih =>
      intro l2 b hb
      simp only [run, List.cons_append] at hb ⊢
      split at hb
      · rename_i s1 hs1; exact ih s1 l2 b hb
      · simp at hb
  rw [this St.init es0 es s h0]; exact h

/-- **a delivered failure ends the run, and not by a normal return**: once `gather` has raised
the failure of payload `p` (not a KeyboardInterrupt) and the coroutine payloads have unwound, at
most 8 closing steps end the run call with an error -/
theorem failure_ends_run (s : St) (hr : Reach s) (hup : s.phase = .up) (p : Nat) (hg : s.gather = .raised p)
    (hk : s.pay p ≠ .done .kbd) (hq : s.coQuiet) :
    ∃ es s' r, (es.all Ev.closingEv = true) ∧ run s es = some s' ∧ s'.phase = .ended r ∧ r ≠ .returned ∧ es.length ≤ 8 := by
  obtain ⟨es, s', r, h1, h2, h3, ⟨hpay, hgg⟩, h4⟩ :=
    closing_aux (fun t => t.pay = s.pay ∧ t.gather = s.gather)
      (fun a b e he hs hab => by
        obtain ⟨k1, k2⟩ := closing_step_keeps a b e he hs
        exact ⟨k1.trans hab.1, (k2 (by rw [hab.2, hg]; simp)).trans hab.2⟩)
      s.mu s (inv_reach s hr) hup (Or.inr (by simp [hg])) hq ⟨rfl, rfl⟩ (Nat.le_refl _)
  refine ⟨es, s', r, h1, h2, h3, ?_, Nat.le_trans h4 (mu_le s)⟩
  intro hret
  subst hret
  have inv' := (inv_reach s' (reach_run s s' es hr h2)).a
  rcases inv'.ended_returned h3 with h | h | ⟨q, hq1, hq2⟩
  · rw [hgg, hg] at h; simp at h
  · rw [hgg, hg] at h; simp at h
  · rw [hgg, hg] at hq1
    simp only [Gather.raised.injEq] at hq1; subst hq1
    rw [hpay] at hq2; exact hk hq2

theorem closing_terminates (s : St) (hr : Reach s) (hup : s.phase = .up) (hc : s.closing) (hq : s.coQuiet) :
    ∃ es s' r, (es.all Ev.closingEv = true) ∧ run s es = some s' ∧ s'.phase = .ended r ∧ es.length ≤ 8 := by
  obtain ⟨es, s', r, h1, h2, h3, h4⟩ := closing_terminates_aux s.mu s (inv_reach s hr) hup hc hq (Nat.le_refl _)
  exact ⟨es, s', r, h1, h2, h3, Nat.le_trans h4 (mu_le s)⟩

end Cobald.Runtime

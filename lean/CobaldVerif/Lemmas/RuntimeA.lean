/- Per-event preservation lemmas for InvA (uniform tactic `inv_ev_A`; generated once with tools/gen_inv.py and checked in). -/
import CobaldVerif.Lemmas.Runtime
namespace Cobald.Runtime
set_option maxHeartbeats 1000000
attribute [local grind cases] Flav

set_option hygiene false in
macro "inv_ev_A" : tactic => `(tactic| (
  simp only [step] at hs
  repeat' (split at hs)
  all_goals (first | (simp at hs; done) | skip)
  all_goals (try (simp only [Option.some.injEq] at hs; subst hs))
  all_goals (try simp only [beq_iff_eq, Bool.or_eq_true] at *)
  all_goals (first | exact h | (
    obtain ⟨h1, h2, h3, h4, h5, h6, h7, h8, h9, h10, h11⟩ := h
    constructor <;> (try simp only [upd'_apply, upd_apply, setFlavTid_phase, setFlavTid_guard, setFlavTid_pay, setFlavTid_fl, setFlavTid_starts, setFlavTid_tid, setFlavTid_latch, setFlavTid_rtask, setFlavTid_gather, setFlavTid_stopReq, setFlavTid_flushed, setFlavTid_execs, setFlavTid_failedQuiet, setFlavTid_holder, setFlavTid_pids]) <;> grind [step.upd', upd, St.quiet, St.closing, Out.failing, Out.loopKiller, St.setFlavTid, St.tidOK, St.coBusy, Flav.isCo, Phase.restartable, Latch.isFailed]))))

theorem InvA_acceptBegin (s s' : St) (r : Nat) (h : InvA s) (hs : step s (.acceptBegin r) = some s') : InvA s' := by
  inv_ev_A

theorem InvA_acceptReject (s s' : St) (r : Nat) (h : InvA s) (hs : step s (.acceptReject r) = some s') : InvA s' := by
  inv_ev_A

theorem InvA_adopt (s s' : St) (p : Nat) (f : Flav) (h : InvA s) (hs : step s (.adopt p f) = some s') : InvA s' := by
  inv_ev_A

theorem InvA_newUnit (s s' : St) (p : Nat) (f : Flav) (h : InvA s) (hs : step s (.newUnit p f) = some s') : InvA s' := by
  inv_ev_A

theorem InvA_start (s s' : St) (p t : Nat) (h : InvA s) (hs : step s (.start p t) = some s') : InvA s' := by
  inv_ev_A

theorem InvA_bodyEnd (s s' : St) (p : Nat) (o : Out) (h : InvA s) (hs : step s (.bodyEnd p o) = some s') : InvA s' := by
  inv_ev_A

theorem InvA_unwound (s s' : St) (p : Nat) (h : InvA s) (hs : step s (.unwound p) = some s') : InvA s' := by
  inv_ev_A

theorem InvA_sigint (s s' : St)  (h : InvA s) (hs : step s .sigint = some s') : InvA s' := by
  inv_ev_A

theorem InvA_shutdownCall (s s' : St)  (h : InvA s) (hs : step s .shutdownCall = some s') : InvA s' := by
  inv_ev_A

theorem InvA_execBegin (s s' : St) (e : Nat) (f : Flav) (t : Nat) (h : InvA s) (hs : step s (.execBegin e f t) = some s') : InvA s' := by
  inv_ev_A

theorem InvA_execEnd (s s' : St) (e : Nat) (o : Out) (h : InvA s) (hs : step s (.execEnd e o) = some s') : InvA s' := by
  inv_ev_A

theorem out_cases (o : Out) : o = .none ∨ o = .value ∨ o = .exc ∨ o = .baseExc ∨ o = .sysExit ∨ o = .kbd := by
  cases o <;> simp

theorem InvA_endRun (s s' : St) (r : Res) (h : InvA s) (hs : step s (.endRun r) = some s') : InvA s' := by
  simp only [step] at hs
  split at hs
  · rename_i hg
    split at hs
    · rename_i hok
      simp only [Option.some.injEq] at hs
      subst hs
      obtain ⟨h1, h2, h3, h4, h5, h6, h7, h8, h9, h10, _⟩ := h
      -- the cause of a raised gather is a recorded failure
      have hcause : ∀ p, s.gather = .raised p → ∃ o, s.pay p = .done o ∧ o.failing = true := by
        intro p hp
        rcases h6 p hp with ⟨f, hf⟩ | hx
        · exact h1 f p (h2 f p hf)
        · exact ⟨.sysExit, hx, rfl⟩
      refine ⟨h1, h2, h3, h4, h5, h6, h7, ?_, ?_, ?_, fun _ _ _ => trivial⟩
      · intro hr
        simp only [Phase.ended.injEq] at hr
        subst hr
        unfold St.resultOK at hok
        cases hgth : s.gather with
        | pending => exact absurd hgth hg.2.1
        | completed => exact Or.inl rfl
        | interrupted => exact Or.inr (Or.inl rfl)
        | raised p =>
          right; right
          refine ⟨p, rfl, ?_⟩
          rw [hgth] at hok
          simp only at hok
          split at hok <;> simp_all
      · intro p hr
        simp only [Phase.ended.injEq] at hr
        subst hr
        unfold St.resultOK at hok
        cases hgth : s.gather with
        | raised q =>
          rw [hgth] at hok
          simp only at hok
          obtain ⟨o, ho, hfail⟩ := hcause q hgth
          rw [ho] at hok
          rcases out_cases o with rfl | rfl | rfl | rfl | rfl | rfl <;> simp_all [Out.failing]
        | _ => rw [hgth] at hok; simp at hok
      · intro p hr
        simp only [Phase.ended.injEq] at hr
        subst hr
        unfold St.resultOK at hok
        cases hgth : s.gather with
        | raised q =>
          rw [hgth] at hok
          simp only at hok
          obtain ⟨o, ho, hfail⟩ := hcause q hgth
          rw [ho] at hok
          rcases out_cases o with rfl | rfl | rfl | rfl | rfl | rfl <;> simp_all [Out.failing]
        | _ => rw [hgth] at hok; simp at hok
    · simp at hs
  · simp at hs

theorem InvA_launch (s s' : St)  (h : InvA s) (hs : step s .launch = some s') : InvA s' := by
  inv_ev_A

theorem InvA_flush (s s' : St)  (h : InvA s) (hs : step s .flush = some s') : InvA s' := by
  inv_ev_A

theorem InvA_sweep (s s' : St) (p : Nat) (h : InvA s) (hs : step s (.sweep p) = some s') : InvA s' := by
  inv_ev_A

theorem InvA_record (s s' : St) (p : Nat) (h : InvA s) (hs : step s (.record p) = some s') : InvA s' := by
  inv_ev_A

theorem InvA_close (s s' : St) (f : Flav) (h : InvA s) (hs : step s (.close f) = some s') : InvA s' := by
  inv_ev_A

theorem InvA_rtaskEnd (s s' : St) (f : Flav) (h : InvA s) (hs : step s (.rtaskEnd f) = some s') : InvA s' := by
  inv_ev_A

theorem InvA_gatherRaise (s s' : St) (f : Flav) (h : InvA s) (hs : step s (.gatherRaise f) = some s') : InvA s' := by
  inv_ev_A

theorem InvA_gatherDone (s s' : St)  (h : InvA s) (hs : step s .gatherDone = some s') : InvA s' := by
  inv_ev_A

theorem InvA_discard (s s' : St) (p : Nat) (h : InvA s) (hs : step s (.discard p) = some s') : InvA s' := by
  inv_ev_A

theorem InvA_hold (s s' : St) (p h' : Nat) (h : InvA s) (hs : step s (.hold p h') = some s') : InvA s' := by
  inv_ev_A

theorem InvA_dropUnit (s s' : St) (p : Nat) (h : InvA s) (hs : step s (.dropUnit p) = some s') : InvA s' := by
  inv_ev_A

theorem InvA_step (s s' : St) (e : Ev) (h : InvA s) (hs : step s e = some s') : InvA s' := by
  cases e with
  | acceptBegin r => exact InvA_acceptBegin s s' r h hs
  | acceptReject r => exact InvA_acceptReject s s' r h hs
  | adopt p f => exact InvA_adopt s s' p f h hs
  | newUnit p f => exact InvA_newUnit s s' p f h hs
  | start p t => exact InvA_start s s' p t h hs
  | bodyEnd p o => exact InvA_bodyEnd s s' p o h hs
  | unwound p => exact InvA_unwound s s' p h hs
  | sigint  => exact InvA_sigint s s'  h hs
  | shutdownCall  => exact InvA_shutdownCall s s'  h hs
  | execBegin e f t => exact InvA_execBegin s s' e f t h hs
  | execEnd e o => exact InvA_execEnd s s' e o h hs
  | endRun r => exact InvA_endRun s s' r h hs
  | launch  => exact InvA_launch s s'  h hs
  | flush  => exact InvA_flush s s'  h hs
  | sweep p => exact InvA_sweep s s' p h hs
  | record p => exact InvA_record s s' p h hs
  | close f => exact InvA_close s s' f h hs
  | rtaskEnd f => exact InvA_rtaskEnd s s' f h hs
  | gatherRaise f => exact InvA_gatherRaise s s' f h hs
  | gatherDone  => exact InvA_gatherDone s s'  h hs
  | discard p => exact InvA_discard s s' p h hs
  | hold p h' => exact InvA_hold s s' p h' h hs
  | dropUnit p => exact InvA_dropUnit s s' p h hs

end Cobald.Runtime

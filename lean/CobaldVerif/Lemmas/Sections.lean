import CobaldVerif.Model.Sections
import Mathlib.Data.List.Perm.Basic
import Mathlib.Data.List.Basic
import Mathlib.Data.List.Nodup

namespace Cobald.Sections

/-- `y` sits in a strictly earlier layer than `x` -/
inductive LayerBefore (y x : String) : List (List String) → Prop
  | here (l : List String) (rest : List (List String)) : y ∈ l → x ∈ rest.flatten → LayerBefore y x (l :: rest)
  | there (l : List String) (rest : List (List String)) : LayerBefore y x rest → LayerBefore y x (l :: rest)

def keys (d : Deps) : List String := d.map (·.1)

theorem filter_perm_split {α} (p : α → Bool) (l : List α) :
    (l.filter p ++ l.filter (fun a => !p a)).Perm l := by
  induction l with
  | nil => simp
  | cons a l ih =>
    by_cases h : p a = true
    · simp only [List.filter_cons, h, if_true, Bool.not_true, Bool.false_eq_true, if_false, List.cons_append]
      exact List.Perm.cons a ih
    · have h' : p a = false := by simpa using h
      simp only [List.filter_cons, h', Bool.false_eq_true, if_false, Bool.not_false, if_true]
      exact (List.perm_middle).trans (List.Perm.cons a ih)

theorem entry_unique (data : Deps) (hnd : (keys data).Nodup) (a b : String × List String)
    (ha : a ∈ data) (hb : b ∈ data) (h : a.1 = b.1) : a = b :=
  List.inj_on_of_nodup_map hnd ha hb h

/-- soundness of the layer peeling: every key appears exactly once, and every dependency on
another key sits in a strictly earlier layer -/
theorem peel_sound : ∀ (n : Nat) (data : Deps) (layers : List (List String)),
    (keys data).Nodup → peel n data = some layers →
    layers.flatten.Perm (keys data) ∧
    ∀ x dx, (x, dx) ∈ data → ∀ y ∈ dx, y ∈ keys data → LayerBefore y x layers
  | 0, data, layers, _, h => by
      simp only [peel] at h
      split at h
      · rename_i he
        cases h
        have : data = [] := by simpa using he
        subst this
        simp [keys]
      · simp at h
  | n + 1, data, layers, hnd, h => by
      simp only [peel] at h
      split at h
      · rename_i hord
        split at h
        · rename_i he
          cases h
          have : data = [] := by simpa using he
          subst this
          simp [keys]
        · simp at h
      · rename_i hord
        split at h
        · rename_i ls hp
          cases h
          -- membership in `ordered` is having no dependencies left
          have hmemO : ∀ kd ∈ data, (kd.1 ∈ (data.filter (fun kd => kd.2.isEmpty)).map (·.1)) ↔ kd.2.isEmpty = true := by
            intro kd hkd
            constructor
            · intro hk
              obtain ⟨kd', hkd', he⟩ := List.mem_map.mp hk
              have hm := List.mem_filter.mp hkd'
              have := entry_unique data hnd kd' kd hm.1 hkd he
              rw [← this]; exact hm.2
            · intro hq
              exact List.mem_map_of_mem (List.mem_filter.mpr ⟨hkd, hq⟩)
          have hfil : data.filter (fun kd => decide (kd.1 ∉ (data.filter (fun kd => kd.2.isEmpty)).map (·.1))) =
              data.filter (fun kd => !kd.2.isEmpty) := by
            apply List.filter_congr
            intro kd hkd
            have := hmemO kd hkd
            by_cases hq : kd.2.isEmpty = true
            · simp [hq, this.mpr hq]
            · have hn : kd.1 ∉ (data.filter (fun kd => kd.2.isEmpty)).map (·.1) := fun hk => hq (this.mp hk)
              simp [hq, hn]
          rw [hfil] at hp
          have hkeysR : keys ((data.filter (fun kd => !kd.2.isEmpty)).map
              (fun kd => (kd.1, kd.2.filter (fun z => decide (z ∉ (data.filter (fun kd => kd.2.isEmpty)).map (·.1)))))) =
              (data.filter (fun kd => !kd.2.isEmpty)).map (·.1) := by
            simp [keys, List.map_map, Function.comp_def]
          have hsplit : ((data.filter (fun kd => kd.2.isEmpty)).map (·.1) ++
              (data.filter (fun kd => !kd.2.isEmpty)).map (·.1)).Perm (keys data) := by
            rw [← List.map_append]
            exact (filter_perm_split (fun kd => kd.2.isEmpty) data).map _
          have hndR : (keys ((data.filter (fun kd => !kd.2.isEmpty)).map
              (fun kd => (kd.1, kd.2.filter (fun z => decide (z ∉ (data.filter (fun kd => kd.2.isEmpty)).map (·.1))))))).Nodup := by
            rw [hkeysR]
            exact (List.Sublist.map _ List.filter_sublist).nodup hnd
          have ih := peel_sound n _ ls hndR hp
          rw [hkeysR] at ih
          constructor
          · simp only [List.flatten_cons]
            exact (List.Perm.append_left _ ih.1).trans hsplit
          · intro x dx hx y hy hyk
            by_cases hq : dx.isEmpty = true
            · have : dx = [] := by simpa using hq
              subst this; simp at hy
            · have hxr : (x, dx) ∈ data.filter (fun kd => !kd.2.isEmpty) :=
                List.mem_filter.mpr ⟨hx, by simpa using hq⟩
              have hxk : x ∈ (data.filter (fun kd => !kd.2.isEmpty)).map (·.1) := List.mem_map_of_mem (f := (·.1)) hxr
              by_cases hyo : y ∈ (data.filter (fun kd => kd.2.isEmpty)).map (·.1)
              · exact LayerBefore.here _ _ hyo ((ih.1.mem_iff).mpr hxk)
              · apply LayerBefore.there
                apply ih.2 x (dx.filter (fun z => decide (z ∉ (data.filter (fun kd => kd.2.isEmpty)).map (·.1))))
                · exact List.mem_map.mpr ⟨(x, dx), hxr, rfl⟩
                · exact List.mem_filter.mpr ⟨hy, by simpa using hyo⟩
                · have := (hsplit.mem_iff).mpr hyk
                  rcases List.mem_append.mp this with h1 | h2
                  · exact absurd h1 hyo
                  · exact h2
        · simp at h

end Cobald.Sections

import CobaldVerif.Model.Sections
import Mathlib.Data.List.Perm.Basic
import Mathlib.Data.List.Basic
import Mathlib.Data.List.Nodup

namespace Cobald.Sections

/-- `y` sits in a strictly earlier layer than `x` -/
inductive LayerBefore (y x : String) : List (List String) → Prop
  | here (l : List String) (rest : List (List String)) : y ∈ l → x ∈ rest.flatten → LayerBefore y x (l :: rest)
  | there (l : List String) (rest : List (List String)) : LayerBefore y x rest → LayerBefore y x (l :: rest)

def keys (d : Deps) : List String := d.map (·.1)

theorem filter_perm_split {α} (p : α → Bool) (l : List α) :
    (l.filter p ++ l.filter (fun a => !p a)).Perm l := by
  induction l with
  | nil => simp
  | cons a l ih =>
    by_cases h : p a = true
    · simp only [List.filter_cons, h, if_true, Bool.not_true, Bool.false_eq_true, if_false, List.cons_append]
      exact List.Perm.cons a ih
    · have h' : p a = false := by simpa using h
      simp only [List.filter_cons, h', Bool.false_eq_true, if_false, Bool.not_false, if_true]
      exact (List.perm_middle).trans (List.Perm.cons a ih)

theorem entry_unique (data : Deps) (hnd : (keys data).Nodup) (a b : String × List String)
    (ha : a ∈ data) (hb : b ∈ data) (h : a.1 = b.1) : a = b :=
  List.inj_on_of_nodup_map hnd ha hb h

/-- soundness of the layer peeling: every key appears exactly once, and every dependency on
another key sits in a strictly earlier layer -/
theorem peel_sound : ∀ (n : Nat) (data : Deps) (layers : List (List String)),
    (keys data).Nodup → peel n data = some layers →
    layers.flatten.Perm (keys data) ∧
    ∀ x dx, (x, dx) ∈ data → ∀ y ∈ dx, y ∈ keys data → LayerBefore y x layers
  | 0, data, layers, _, h => by
      simp only [peel] at h
      split at h
      · rename_i he
        cases h
        have : data = [] := by simpa using he
        subst this
        simp [keys]
      · simp at h
  | n + 1, data, layers, hnd, h => by
      simp only [peel] at h
      split at h
      · rename_i hord
        split at h
        · rename_i he
          cases h
          have : data = [] := by simpa using he
          subst this
          simp [keys]
        · simp at h
      · rename_i hord
        split at h
        · rename_i ls hp
          cases h
          -- membership in `ordered` is having no dependencies left
          have hmemO : ∀ kd ∈ data, (kd.1 ∈ (data.filter (fun kd => kd.2.isEmpty)).map (·.1)) ↔ kd.2.isEmpty = true := by
            intro kd hkd
            constructor
            · intro hk
              obtain ⟨kd', hkd', he⟩ := List.mem_map.mp hk
              have hm := List.mem_filter.mp hkd'
              have := entry_unique data hnd kd' kd hm.1 hkd he
              rw [← this]; exact hm.2
            · intro hq
              exact List.mem_map_of_mem (List.mem_filter.mpr ⟨hkd, hq⟩)
          have hfil : data.filter (fun kd => decide (kd.1 ∉ (data.filter (fun kd => kd.2.isEmpty)).map (·.1))) =
              data.filter (fun kd => !kd.2.isEmpty) := by
            apply List.filter_congr
            intro kd hkd
            have := hmemO kd hkd
            by_cases hq : kd.2.isEmpty = true
            · simp [hq, this.mpr hq]
            · have hn : kd.1 ∉ (data.filter (fun kd => kd.2.isEmpty)).map (·.1) := fun hk => hq (this.mp hk)
              simp [hq, hn]
          rw [hfil] at hp
          have hkeysR : keys ((data.filter (fun kd => !kd.2.isEmpty)).map
              (fun kd => (kd.1, kd.2.filter (fun z => decide (z ∉ (data.filter (fun kd => kd.2.isEmpty)).map (·.1)))))) =
              (data.filter (fun kd => !kd.2.isEmpty)).map (·.1) := by
            simp [keys, List.map_map, Function.comp_def]
          have hsplit : ((data.filter (fun kd => kd.2.isEmpty)).map (·.1) ++
              (data.filter (fun kd => !kd.2.isEmpty)).map (·.1)).Perm (keys data) := by
            rw [← List.map_append]
            exact (filter_perm_split (fun kd => kd.2.isEmpty) data).map _
          have hndR : (keys ((data.filter (fun kd => !kd.2.isEmpty)).map
              (fun kd => (kd.1, kd.2.filter (fun z => decide (z ∉ (data.filter (fun kd => kd.2.isEmpty)).map (·.1))))))).Nodup := by
            rw [hkeysR]
            exact (List.Sublist.map _ List.filter_sublist).nodup hnd
          have ih := peel_sound n _ ls hndR hp
          rw [hkeysR] at ih
          constructor
          · simp only [List.flatten_cons]
            exact (List.Perm.append_left _ ih.1).trans hsplit
          · intro x dx hx y hy hyk
            by_cases hq : dx.isEmpty = true
            · have : dx = [] := by simpa using hq
              subst this; simp at hy
            · have hxr : (x, dx) ∈ data.filter (fun kd => !kd.2.isEmpty) :=
                List.mem_filter.mpr ⟨hx, by simpa using hq⟩
              have hxk : x ∈ (data.filter (fun kd => !kd.2.isEmpty)).map (·.1) := List.mem_map_of_mem (f := (·.1)) hxr
              by_cases hyo : y ∈ (data.filter (fun kd => kd.2.isEmpty)).map (·.1)
              · exact LayerBefore.here _ _ hyo ((ih.1.mem_iff).mpr hxk)
              · apply LayerBefore.there
                apply ih.2 x (dx.filter (fun z => decide (z ∉ (data.filter (fun kd => kd.2.isEmpty)).map (·.1))))
                · exact List.mem_map.mpr ⟨(x, dx), hxr, rfl⟩
                · exact List.mem_filter.mpr ⟨hy, by simpa using hyo⟩
                · have := (hsplit.mem_iff).mpr hyk
                  rcases List.mem_append.mp this with h1 | h2
                  · exact absurd h1 hyo
                  · exact h2
        · simp at h

/-! ### completeness of the layer peeling: acyclic tables are always ordered -/

/-- the table is acyclic: some rank strictly decreases along every dependency -/
def Ranked (rank : String → Nat) (data : Deps) : Prop := ∀ kd ∈ data, ∀ y ∈ kd.2, rank y < rank kd.1

/-- every dependency is itself a key of the table -/
def Closed (data : Deps) : Prop := ∀ kd ∈ data, ∀ y ∈ kd.2, y ∈ keys data

theorem exists_min_rank (rank : String → Nat) : ∀ (data : Deps), data ≠ [] →
    ∃ kd ∈ data, ∀ kd' ∈ data, rank kd.1 ≤ rank kd'.1 := by
  intro data
  induction data with
  | nil => intro h; exact absurd rfl h
  | cons a l ih =>
    intro _
    by_cases hl : l = []
    · subst hl; exact ⟨a, by simp, by simp⟩
    · obtain ⟨m, hm, hmin⟩ := ih hl
      by_cases hc : rank a.1 ≤ rank m.1
      · refine ⟨a, by simp, ?_⟩
        intro kd' hkd'
        rcases List.mem_cons.mp hkd' with rfl | h
        · exact Nat.le_refl _
        · exact Nat.le_trans hc (hmin kd' h)
      · refine ⟨m, List.mem_cons_of_mem _ hm, ?_⟩
        intro kd' hkd'
        rcases List.mem_cons.mp hkd' with rfl | h
        · omega
        · exact hmin kd' h

/-- in a non-empty closed acyclic table some entry has no dependencies -/
theorem exists_free (rank : String → Nat) (data : Deps) (hne : data ≠ []) (hr : Ranked rank data) (hc : Closed data) :
    ∃ kd ∈ data, kd.2 = [] := by
  obtain ⟨m, hm, hmin⟩ := exists_min_rank rank data hne
  refine ⟨m, hm, ?_⟩
  cases hd : m.2 with
  | nil => rfl
  | cons y ys =>
    exfalso
    have hy : y ∈ m.2 := by rw [hd]; simp
    have h1 := hr m hm y hy
    have h2 := hc m hm y hy
    obtain ⟨kd', hkd', hk⟩ := List.mem_map.mp h2
    have := hmin kd' hkd'
    rw [hk] at this
    omega

theorem peel_complete (rank : String → Nat) : ∀ (n : Nat) (data : Deps), data.length ≤ n → Ranked rank data → Closed data →
    (peel n data).isSome = true := by
  intro n
  induction n with
  | zero =>
    intro data hl _ _
    have : data = [] := List.eq_nil_of_length_eq_zero (by omega)
    subst this; simp [peel]
  | succ n ih =>
    intro data hl hr hc
    simp only [peel]
    by_cases hne : data = []
    · subst hne; simp
    · obtain ⟨f, hf, hfe⟩ := exists_free rank data hne hr hc
      have hord : f.1 ∈ (data.filter (fun kd => kd.2.isEmpty)).map (·.1) :=
        List.mem_map.mpr ⟨f, List.mem_filter.mpr ⟨hf, by simp [hfe]⟩, rfl⟩
      have hnonempty : ((data.filter (fun kd => kd.2.isEmpty)).map (·.1)).isEmpty = false := by
        cases h : (data.filter (fun kd => kd.2.isEmpty)).map (·.1) with
        | nil => rw [h] at hord; simp at hord
        | cons _ _ => rfl
      rw [hnonempty]
      simp only [Bool.false_eq_true, if_false]
      -- the rest of the table
      have hrest := ih ((data.filter (fun kd => kd.1 ∉ (data.filter (fun kd => kd.2.isEmpty)).map (·.1))).map
          (fun kd => (kd.1, kd.2.filter (· ∉ (data.filter (fun kd => kd.2.isEmpty)).map (·.1))))) ?_ ?_ ?_
      · cases hp : peel n ((data.filter (fun kd => kd.1 ∉ (data.filter (fun kd => kd.2.isEmpty)).map (·.1))).map
            (fun kd => (kd.1, kd.2.filter (· ∉ (data.filter (fun kd => kd.2.isEmpty)).map (·.1))))) with
        | some ls => simp
        | none => rw [hp] at hrest; simp at hrest
      · -- strictly shorter: `f` is removed
        rw [List.length_map]
        have hlt : (data.filter (fun kd => kd.1 ∉ (data.filter (fun kd => kd.2.isEmpty)).map (·.1))).length < data.length := by
          apply List.length_filter_lt_length_iff_exists.mpr
          exact ⟨f, hf, by simpa using hord⟩
        omega
      · -- still ranked
        intro kd hkd y hy
        obtain ⟨kd0, hkd0, rfl⟩ := List.mem_map.mp hkd
        exact hr kd0 (List.mem_of_mem_filter hkd0) y (List.mem_of_mem_filter hy)
      · -- still closed
        intro kd hkd y hy
        obtain ⟨kd0, hkd0, rfl⟩ := List.mem_map.mp hkd
        have hy0 := List.mem_filter.mp hy
        have hyk := hc kd0 (List.mem_of_mem_filter hkd0) y hy0.1
        obtain ⟨e, he, hek⟩ := List.mem_map.mp hyk
        refine List.mem_map.mpr ⟨(e.1, e.2.filter (· ∉ (data.filter (fun kd => kd.2.isEmpty)).map (·.1))), ?_, hek⟩
        refine List.mem_map.mpr ⟨e, List.mem_filter.mpr ⟨he, ?_⟩, rfl⟩
        rw [hek]; exact hy0.2

end Cobald.Sections

import CobaldVerif.Model.Controllers
import Mathlib.Tactic.Linarith
import Mathlib.Algebra.Order.Field.Rat
import Mathlib.Data.List.Pairwise

namespace Cobald.Controllers

/-! ### insertion sort by threshold -/

theorem mem_insertSorted (x y : Rat × Nat) (l : List (Rat × Nat)) :
    y ∈ insertSorted x l ↔ y = x ∨ y ∈ l := by
  induction l with
  | nil => simp [insertSorted]
  | cons z zs ih =>
    simp only [insertSorted]
    split_ifs <;> simp [ih] <;> tauto

theorem mem_sortRules (y : Rat × Nat) (l : List (Rat × Nat)) : y ∈ sortRules l ↔ y ∈ l := by
  induction l with
  | nil => simp [sortRules]
  | cons z zs ih => simp [sortRules, mem_insertSorted, ih]

theorem strict_insertSorted (x : Rat × Nat) (l : List (Rat × Nat))
    (hl : l.Pairwise (fun a b => a.1 < b.1)) (hx : ∀ y ∈ l, y.1 ≠ x.1) :
    (insertSorted x l).Pairwise (fun a b => a.1 < b.1) := by
  induction l with
  | nil => simp [insertSorted]
  | cons z zs ih =>
    simp only [insertSorted]
    have hz := List.pairwise_cons.mp hl
    split_ifs with h
    · refine List.pairwise_cons.mpr ⟨?_, hl⟩
      intro y hy
      rcases List.mem_cons.mp hy with rfl | hy
      · exact h
      · exact lt_trans h (hz.1 y hy)
    · have hzx : z.1 < x.1 := lt_of_le_of_ne (not_lt.mp h) (hx z (by simp))
      refine List.pairwise_cons.mpr ⟨?_, ih hz.2 (fun y hy => hx y (by simp [hy]))⟩
      intro y hy
      rcases (mem_insertSorted x y zs).mp hy with rfl | hy
      · exact hzx
      · exact hz.1 y hy

theorem strict_sortRules (l : List (Rat × Nat)) (hnd : (l.map (·.1)).Nodup) :
    (sortRules l).Pairwise (fun a b => a.1 < b.1) := by
  induction l with
  | nil => simp [sortRules]
  | cons z zs ih =>
    simp only [List.map_cons, List.nodup_cons] at hnd
    simp only [sortRules]
    apply strict_insertSorted _ _ (ih hnd.2)
    intro y hy h
    apply hnd.1
    rw [← h]
    exact List.mem_map_of_mem ((mem_sortRules y zs).mp hy)

/-! ### "last entry, in threshold order, whose threshold is ≤ x" -/

theorem select_none (d : Nat) (l : List (Rat × Nat)) (x : Rat) (h : ∀ y ∈ l, x < y.1) :
    switchSelect d l x = d := by
  unfold switchSelect
  induction l generalizing d with
  | nil => rfl
  | cons y ys ih =>
    simp only [List.foldl_cons]
    have hy := h y (by simp)
    rw [if_neg (not_le.mpr hy)]
    exact ih d (fun z hz => h z (by simp [hz]))

theorem select_greatest (d : Nat) (l : List (Rat × Nat)) (x : Rat)
    (hs : l.Pairwise (fun a b => a.1 < b.1)) (t : Rat) (r : Nat) (hm : (t, r) ∈ l) (htx : t ≤ x)
    (hmax : ∀ y ∈ l, y.1 ≤ x → y.1 ≤ t) : switchSelect d l x = r := by
  induction l generalizing d with
  | nil => simp at hm
  | cons y ys ih =>
    have hp := List.pairwise_cons.mp hs
    unfold switchSelect
    simp only [List.foldl_cons]
    rcases List.mem_cons.mp hm with rfl | hm'
    · simp only [htx, if_true]
      apply select_none
      intro z hz
      by_contra hc
      have := hmax z (by simp [hz]) (not_lt.mp hc)
      have := hp.1 z hz
      simp only at *
      linarith
    · exact ih _ hp.2 hm' (fun z hz => hmax z (by simp [hz]))

/-! ### range lookup = selection over the sorted thresholds -/

theorem getRule_mkRanges (low : Rat) (r : Nat) (l : List (Rat × Nat)) (s : Rat) (hls : low ≤ s)
    (hs : l.Pairwise (fun a b => a.1 < b.1)) :
    getRule (mkRanges low r l) s = some (switchSelect r l s) := by
  induction l generalizing low r with
  | nil => simp [mkRanges, getRule, hls, belowHigh, switchSelect]
  | cons y ys ih =>
    obtain ⟨t, r'⟩ := y
    have hp := List.pairwise_cons.mp hs
    simp only [mkRanges, getRule, belowHigh, hls, true_and, decide_eq_true_eq]
    split_ifs with h
    · -- s < t : no threshold of the sorted list is ≤ s
      congr 1
      symm
      apply select_none
      intro z hz
      rcases List.mem_cons.mp hz with rfl | hz
      · exact h
      · exact lt_trans h (hp.1 z hz)
    · have hts : t ≤ s := not_lt.mp h
      rw [ih t r' hts hp.2]
      simp [switchSelect, hts]

end Cobald.Controllers

/-
The combined invariant of the runtime LTS and its lift to every reachable state.
-/
import CobaldVerif.Lemmas.RuntimeA
import CobaldVerif.Lemmas.RuntimeB
import CobaldVerif.Lemmas.RuntimeC
import CobaldVerif.Lemmas.RuntimeD

namespace Cobald.Runtime

structure Inv (s : St) : Prop where
  a : InvA s
  b : InvB s
  c : InvC s
  d : InvD s

theorem inv_init : Inv St.init := ⟨invA_init, invB_init, invC_init, invD_init⟩

theorem inv_step (s s' : St) (e : Ev) (h : Inv s) (hs : step s e = some s') : Inv s' :=
  ⟨InvA_step s s' e h.a hs, InvB_step s s' e h.b hs, InvC_step s s' e h.c hs, InvD_step s s' e h.d hs⟩

theorem inv_run (es : List Ev) : ∀ s s', Inv s → run s es = some s' → Inv s' := by
  induction es with
  | nil => intro s s' h hr; simp [run] at hr; subst hr; exact h
  | cons e es ih =>
    intro s s' h hr
    simp only [run] at hr
    split at hr
    · rename_i s1 hs1; exact ih s1 s' (inv_step s s1 e h hs1) hr
    · simp at hr

/-- the invariant holds in every state reachable by any sequence of events -/
theorem inv_reach (s : St) (h : Reach s) : Inv s := by
  obtain ⟨es, hr⟩ := h
  exact inv_run es St.init s inv_init hr

end Cobald.Runtime

/-
Helper lemmas for the regenerated dependency table of `load_section_plugins`
(`Generated/SrcSections.lean`): what a run of `dependencies[k].add(x)` statements does to a table.
-/
import CobaldVerif.Lemmas.Sections
import CobaldVerif.Generated.SrcSections

namespace Cobald.Sections
open Cobald

/-- `x` is listed as a dependency of `k` in the table -/
def Has (d : Deps) (k x : String) : Prop := ∃ ds, (k, ds) ∈ d ∧ x ∈ ds

theorem keys_addDep (d : Deps) (k x : String) : (Gen.Sections.addDep d k x).map (·.1) = d.map (·.1) := by
  unfold Gen.Sections.addDep
  rw [List.map_map]
  apply List.map_congr_left
  intro kd _
  by_cases h : kd.1 = k <;> simp [h]

theorem has_addDep (d : Deps) (k' x' k x : String) :
    Has (Gen.Sections.addDep d k' x') k x ↔ Has d k x ∨ (k = k' ∧ x = x' ∧ k ∈ d.map (·.1)) := by
  unfold Has Gen.Sections.addDep
  constructor
  · rintro ⟨ds, hm, hx⟩
    rw [List.mem_map] at hm
    obtain ⟨kd, hkd, he⟩ := hm
    by_cases h : kd.1 = k'
    · simp only [h, if_true] at he
      have h1 : k' = k := by have := congrArg Prod.fst he; simpa using this
      have h2 : kd.2 ++ [x'] = ds := by have := congrArg Prod.snd he; simpa using this
      subst h1 h2
      rcases List.mem_append.mp hx with hx | hx
      · left; exact ⟨kd.2, by rw [← h]; exact hkd, hx⟩
      · right; refine ⟨rfl, by simpa using hx, ?_⟩
        exact List.mem_map.mpr ⟨kd, hkd, h⟩
    · simp only [h, if_false] at he
      left; exact ⟨ds, by rw [← he]; exact hkd, hx⟩
  · rintro (⟨ds, hm, hx⟩ | ⟨rfl, rfl, hk⟩)
    · by_cases h : k = k'
      · refine ⟨ds ++ [x'], List.mem_map.mpr ⟨(k, ds), hm, by simp [h]⟩, List.mem_append_left _ hx⟩
      · exact ⟨ds, List.mem_map.mpr ⟨(k, ds), hm, by simp [h]⟩, hx⟩
    · obtain ⟨kd, hkd, he⟩ := List.mem_map.mp hk
      refine ⟨kd.2 ++ [x], List.mem_map.mpr ⟨kd, hkd, by simp [he]⟩, by simp⟩

/-- a run of `dependencies[k].add(x)` statements -/
theorem has_foldl_addDep (es : List (String × String)) : ∀ (d : Deps) (k x : String),
    Has (es.foldl (fun d e => Gen.Sections.addDep d e.1 e.2) d) k x ↔ Has d k x ∨ ((k, x) ∈ es ∧ k ∈ d.map (·.1)) := by
  induction es with
  | nil => intro d k x; simp
  | cons e es ih =>
    intro d k x
    rw [List.foldl_cons, ih, has_addDep, keys_addDep]
    constructor
    · rintro ((h | ⟨h1, h2, h3⟩) | ⟨h1, h2⟩)
      · exact .inl h
      · exact .inr ⟨by rw [h1, h2]; exact List.mem_cons_self .., h3⟩
      · exact .inr ⟨List.mem_cons_of_mem _ h1, h2⟩
    · rintro (h | ⟨h1, h2⟩)
      · exact .inl (.inl h)
      · rcases List.mem_cons.mp h1 with h1 | h1
        · have : k = e.1 ∧ x = e.2 := by cases e; simp_all
          exact .inl (.inr ⟨this.1, this.2, h2⟩)
        · exact .inr ⟨h1, h2⟩

theorem foldl_guarded {α β} (c : β → Bool) (f : α → β → α) : ∀ (l : List β) (a : α),
    l.foldl (fun a b => if c b then f a b else a) a = (l.filter c).foldl f a := by
  intro l
  induction l with
  | nil => intro a; rfl
  | cons b l ih => intro a; by_cases h : c b <;> simp [List.filter, h, ih]

theorem foldl_nested {α β γ} (f : α → γ → α) (g : β → List γ) : ∀ (l : List β) (a : α),
    l.foldl (fun a b => (g b).foldl f a) a = (l.flatMap g).foldl f a := by
  intro l
  induction l with
  | nil => intro a; rfl
  | cons b l ih => intro a; simp [List.flatMap_cons, List.foldl_append, ih]

/-- the edges the two loops of `load_section_plugins` add: `(before, plugin)` for every installed `before` -/
def edges (ps : List Plugin) : List (String × String) :=
  ps.flatMap (fun q => (q.before.filter (fun b => decide (b ∈ ps.map (·.name)))).map (fun b => (b, q.name)))

theorem gen_dependencies_fold (ps : List Plugin) :
    Gen.Sections.dependencies ps =
      (edges ps).foldl (fun d e => Gen.Sections.addDep d e.1 e.2)
        (ps.map (fun p => (p.name, p.after.filter (fun a => decide (a ∈ ps.map (·.name)))))) := by
  unfold Gen.Sections.dependencies edges
  simp only []
  have h := foldl_nested (fun d (e : String × String) => Gen.Sections.addDep d e.1 e.2)
    (fun q : Plugin => (q.before.filter (fun b => decide (b ∈ ps.map (·.name)))).map (fun b => (b, q.name))) ps
    (ps.map (fun p => (p.name, p.after.filter (fun a => decide (a ∈ ps.map (·.name))))))
  rw [← h]
  congr 1
  funext d q
  rw [List.foldl_map]
  exact foldl_guarded (fun b => decide (b ∈ ps.map (·.name))) (fun d b => Gen.Sections.addDep d b q.name) q.before d

theorem has_table (ps : List Plugin) (F : Plugin → List String) (k x : String) :
    Has (ps.map (fun p => (p.name, F p))) k x ↔ ∃ p ∈ ps, p.name = k ∧ x ∈ F p := by
  unfold Has
  constructor
  · rintro ⟨ds, hm, hx⟩
    obtain ⟨p, hp, he⟩ := List.mem_map.mp hm
    have h1 : p.name = k := congrArg Prod.fst he
    have h2 : F p = ds := congrArg Prod.snd he
    exact ⟨p, hp, h1, h2 ▸ hx⟩
  · rintro ⟨p, hp, rfl, hx⟩
    exact ⟨F p, List.mem_map.mpr ⟨p, hp, rfl⟩, hx⟩

theorem mem_edges (ps : List Plugin) (k x : String) :
    (k, x) ∈ edges ps ↔ ∃ q ∈ ps, k ∈ q.before ∧ k ∈ ps.map (·.name) ∧ q.name = x := by
  unfold edges
  rw [List.mem_flatMap]
  constructor
  · rintro ⟨q, hq, hm⟩
    obtain ⟨b, hb, he⟩ := List.mem_map.mp hm
    have hb' := List.mem_filter.mp hb
    have h1 : b = k := congrArg Prod.fst he
    have h2 : q.name = x := congrArg Prod.snd he
    subst h1
    exact ⟨q, hq, hb'.1, of_decide_eq_true hb'.2, h2⟩
  · rintro ⟨q, hq, hb, hn, rfl⟩
    exact ⟨q, hq, List.mem_map.mpr ⟨k, List.mem_filter.mpr ⟨hb, decide_eq_true hn⟩, rfl⟩⟩

end Cobald.Sections

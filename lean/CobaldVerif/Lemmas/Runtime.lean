/-
Invariants of the runtime LTS, by induction over arbitrary event sequences.
-/
import CobaldVerif.Model.Runtime.LTS

namespace Cobald.Runtime

/-- every state reachable by some event sequence from the initial state -/
def Reach (s : St) : Prop := ∃ es, run St.init es = some s

@[simp, grind =] theorem setFlavTid_phase (s : St) (fl : Flav) (t : Nat) : (s.setFlavTid fl t).phase = s.phase := by cases fl <;> rfl
@[simp, grind =] theorem setFlavTid_guard (s : St) (fl : Flav) (t : Nat) : (s.setFlavTid fl t).guard = s.guard := by cases fl <;> rfl
@[simp, grind =] theorem setFlavTid_pay (s : St) (fl : Flav) (t : Nat) : (s.setFlavTid fl t).pay = s.pay := by cases fl <;> rfl
@[simp, grind =] theorem setFlavTid_fl (s : St) (fl : Flav) (t : Nat) : (s.setFlavTid fl t).fl = s.fl := by cases fl <;> rfl
@[simp, grind =] theorem setFlavTid_starts (s : St) (fl : Flav) (t : Nat) : (s.setFlavTid fl t).starts = s.starts := by cases fl <;> rfl
@[simp, grind =] theorem setFlavTid_tid (s : St) (fl : Flav) (t : Nat) : (s.setFlavTid fl t).tid = s.tid := by cases fl <;> rfl
@[simp, grind =] theorem setFlavTid_latch (s : St) (fl : Flav) (t : Nat) : (s.setFlavTid fl t).latch = s.latch := by cases fl <;> rfl
@[simp, grind =] theorem setFlavTid_rtask (s : St) (fl : Flav) (t : Nat) : (s.setFlavTid fl t).rtask = s.rtask := by cases fl <;> rfl
@[simp, grind =] theorem setFlavTid_gather (s : St) (fl : Flav) (t : Nat) : (s.setFlavTid fl t).gather = s.gather := by cases fl <;> rfl
@[simp, grind =] theorem setFlavTid_stopReq (s : St) (fl : Flav) (t : Nat) : (s.setFlavTid fl t).stopReq = s.stopReq := by cases fl <;> rfl
@[simp, grind =] theorem setFlavTid_flushed (s : St) (fl : Flav) (t : Nat) : (s.setFlavTid fl t).flushed = s.flushed := by cases fl <;> rfl
@[simp, grind =] theorem setFlavTid_execs (s : St) (fl : Flav) (t : Nat) : (s.setFlavTid fl t).execs = s.execs := by cases fl <;> rfl
@[simp, grind =] theorem setFlavTid_failedQuiet (s : St) (fl : Flav) (t : Nat) : (s.setFlavTid fl t).failedQuiet = s.failedQuiet := by cases fl <;> rfl
@[simp, grind =] theorem setFlavTid_holder (s : St) (fl : Flav) (t : Nat) : (s.setFlavTid fl t).holder = s.holder := by cases fl <;> rfl
@[simp, grind =] theorem setFlavTid_pids (s : St) (fl : Flav) (t : Nat) : (s.setFlavTid fl t).pids = s.pids := by cases fl <;> rfl

@[simp] theorem upd'_apply {α} (f : Flav → α) (k : Flav) (v : α) (q : Flav) :
    step.upd' f k v q = if q = k then v else f q := rfl
@[simp] theorem upd_apply {α} (f : Nat → α) (k : Nat) (v : α) (q : Nat) :
    upd f k v q = if q = k then v else f q := rfl

theorem tab_eq {α} (n : Nat) (f : Nat → α) : tabFn ((Array.range n).map f) f = f := by
  funext q
  unfold tabFn
  split
  · simp
  · rfl

/-- re-tabulating a state does not change it (the acceptor may do it freely) -/
theorem compact_eq (ids : List Nat) (s : St) : s.compact ids = s := by
  unfold St.compact
  cases s
  simp only [tab_eq]
  congr 1 <;> (funext f; cases f <;> rfl)

theorem flav_cases (f : Flav) : f = .aio ∨ f = .trio ∨ f = .thr := by cases f <;> simp

theorem fl_cases (s : St) (p : Nat) : s.fl p = .aio ∨ s.fl p = .trio ∨ s.fl p = .thr := flav_cases _
grind_pattern fl_cases => s.fl p

/-- failure bookkeeping (C01): latches, runner tasks, what `gather` saw, the result -/
structure InvA (s : St) : Prop where
  latch_done : ∀ f p, s.latch f = .failed p → ∃ o, s.pay p = .done o ∧ o.failing = true
  rtask_err : ∀ f p, s.rtask f = .err p → s.latch f = .failed p
  rtask_ok : ∀ f, s.rtask f = .ok → s.latch f = .closed
  quiet_open : s.quiet → ∀ f, s.latch f ≠ .closed
  failed_latch : s.failedQuiet ≠ [] →
    (s.latch .aio).isFailed = true ∨ (s.latch .trio).isFailed = true ∨ (s.latch .thr).isFailed = true
  gather_raised : ∀ p, s.gather = .raised p → (∃ f, s.rtask f = .err p) ∨ s.pay p = .done .sysExit
  gather_completed : s.gather = .completed → ∀ f, s.rtask f = .ok
  ended_returned : s.phase = .ended .returned →
    s.gather = .completed ∨ s.gather = .interrupted ∨ ∃ p, s.gather = .raised p ∧ s.pay p = .done .kbd
  ended_rt : ∀ p, s.phase = .ended (.raisedRT p) →
    s.gather = .raised p ∧ ∃ o, s.pay p = .done o ∧ (o = .exc ∨ o = .value)
  ended_base : ∀ p, s.phase = .ended (.raisedBase p) →
    s.gather = .raised p ∧ (s.pay p = .done .baseExc ∨ s.pay p = .done .sysExit ∨ s.pay p = .done .kbd)
  done_stays : ∀ p o, s.pay p = .done o → True

theorem invA_init : InvA St.init := by
  constructor <;> simp [St.init, St.quiet]

/-- the `exclusive` guard of accept (C12) -/
structure InvB (s : St) : Prop where
  guard_phase : s.guard = none ↔ s.phase.restartable = true

theorem invB_init : InvB St.init := by
  constructor; simp [St.init, Phase.restartable]

def PSt.notStarted : PSt → Bool
  | .absent | .queued | .unit | .submitted | .discarded => true
  | _ => false

/-- registration and threads (C02 C03 C11) -/
structure InvC (s : St) : Prop where
  starts_once : ∀ p, (s.starts p = 0 ∧ (s.pay p).notStarted = true) ∨ (s.starts p = 1 ∧ (s.pay p).notStarted = false)
  pids_mem : ∀ p, s.pay p ≠ .absent → p ∈ s.pids
  co_busy_up : ∀ p, (s.fl p).isCo = true → s.coBusy p = true → s.phase = .up
  co_thread_aio : ∀ p, s.pay p = .running → s.fl p = .aio → s.tid p = s.loopTid ∧ s.loopTid ≠ none
  co_thread_trio : ∀ p, s.pay p = .running → s.fl p = .trio → s.tid p = s.trioTid ∧ s.trioTid ≠ none
  tids_distinct : ∀ t, s.loopTid = some t → s.trioTid ≠ some t
  thr_distinct : ∀ t, t ∈ s.thrTids → s.loopTid ≠ some t ∧ s.trioTid ≠ some t

/-- what `gather` has seen is consistent with the runner tasks (progress, C01 C02 C12) -/
structure InvD (s : St) : Prop where
  cancelled_seen : ∀ f, s.rtask f = .cancelled → s.gather ≠ .pending
  done_keeps : True

theorem invD_init : InvD St.init := by
  constructor <;> simp [St.init]

theorem invC_init : InvC St.init := by
  constructor <;> simp [St.init, St.coBusy, PSt.notStarted]

end Cobald.Runtime

import CobaldVerif.Model.Composite
import Mathlib.Tactic.Linarith
import Mathlib.Tactic.FieldSimp
import Mathlib.Tactic.Ring
import Mathlib.Algebra.Order.Field.Rat

namespace Cobald.Composite

theorem sum_map_const (cs : List Child) (x : Rat) : (cs.map (fun _ => x)).sum = cs.length * x := by
  induction cs with
  | nil => simp
  | cons c cs ih => simp only [List.map_cons, List.sum_cons, ih, List.length_cons]; push_cast; ring

theorem sum_map_mul_div (cs : List Child) (f : Child → Rat) (D W : Rat) :
    (cs.map (fun c => D * f c / W)).sum = D * (cs.map f).sum / W := by
  induction cs with
  | nil => simp
  | cons c cs ih => simp only [List.map_cons, List.sum_cons, ih]; ring

theorem sum_map_le (cs : List Child) (f g : Child → Rat) (h : ∀ c ∈ cs, f c ≤ g c) :
    (cs.map f).sum ≤ (cs.map g).sum := by
  induction cs with
  | nil => simp
  | cons c cs ih =>
    simp only [List.map_cons, List.sum_cons]
    have h1 := h c (by simp)
    have h2 := ih (fun d hd => h d (by simp [hd]))
    linarith

theorem sum_map_nonneg (cs : List Child) (f : Child → Rat) (h : ∀ c ∈ cs, 0 ≤ f c) :
    0 ≤ (cs.map f).sum := by
  have := sum_map_le cs (fun _ => 0) f h
  simpa [sum_map_const] using this

theorem le_sum_of_mem (cs : List Child) (f : Child → Rat) (h : ∀ c ∈ cs, 0 ≤ f c) (c : Child)
    (hc : c ∈ cs) : f c ≤ (cs.map f).sum := by
  induction cs with
  | nil => simp at hc
  | cons d cs ih =>
    simp only [List.map_cons, List.sum_cons]
    have hd := h d (by simp)
    have hrest := sum_map_nonneg cs f (fun e he => h e (by simp [he]))
    rcases List.mem_cons.mp hc with rfl | hc'
    · linarith
    · have := ih (fun e he => h e (by simp [he])) hc'
      linarith

theorem sum_map_mul_const (cs : List Child) (f : Child → Rat) (m : Rat) :
    (cs.map (fun c => m * f c)).sum = m * (cs.map f).sum := by
  induction cs with
  | nil => simp
  | cons c cs ih => simp only [List.map_cons, List.sum_cons, ih]; ring

theorem demands_setChildDemands (cs : List Child) (ds : List Rat) (h : ds.length = cs.length) :
    (setChildDemands cs ds).map (·.demand) = ds := by
  induction cs generalizing ds with
  | nil => cases ds <;> simp_all [setChildDemands]
  | cons c cs ih =>
    cases ds with
    | nil => simp at h
    | cons d ds => simp [setChildDemands, ih ds (by simpa using h)]

theorem shares_length (k : Kind) (cs : List Child) (D : Rat) : (shares k cs D).length = cs.length := by
  unfold shares
  cases k with
  | uniform => simp
  | weighted a => simp only; split_ifs <;> simp

theorem weights_setChildDemands (cs : List Child) (ds : List Rat) (a : Attr) :
    (setChildDemands cs ds).map (·.get a) = cs.map (·.get a) := by
  induction cs generalizing ds with
  | nil => cases ds <;> simp [setChildDemands]
  | cons c cs ih =>
    cases ds with
    | nil => simp [setChildDemands]
    | cons d ds =>
      have := ih ds
      cases a <;> simp_all [setChildDemands, Child.get]

end Cobald.Composite

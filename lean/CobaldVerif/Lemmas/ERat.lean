/-
Order structure of the extended rationals used by the models: `ERat` is a linear order
(the model's own `≤`/`<`), so that Mathlib's order tactics apply to model definitions.
-/
import CobaldVerif.Model.Num
import Mathlib.Order.Defs.LinearOrder
import Mathlib.Tactic.Linarith
import Mathlib.Tactic.Order
import Mathlib.Algebra.Order.Field.Rat

namespace Cobald.ERat

theorem le_def (a b : ERat) : (a ≤ b) = ERat.le a b := rfl
theorem lt_def (a b : ERat) : (a < b) = ERat.lt a b := rfl

@[simp] theorem fin_le_fin (a b : Rat) : (fin a ≤ fin b) ↔ a ≤ b := Iff.rfl
@[simp] theorem fin_lt_fin (a b : Rat) : (fin a < fin b) ↔ a < b := Iff.rfl
@[simp] theorem ninf_le (a : ERat) : ninf ≤ a := by cases a <;> trivial
@[simp] theorem le_pinf (a : ERat) : a ≤ pinf := by cases a <;> trivial
@[simp] theorem fin_lt_pinf (a : Rat) : fin a < pinf := trivial
@[simp] theorem ninf_lt_fin (a : Rat) : ninf < fin a := trivial
@[simp] theorem ninf_lt_pinf : ninf < pinf := trivial
@[simp] theorem not_pinf_lt (a : ERat) : ¬ pinf < a := by cases a <;> exact id
@[simp] theorem not_lt_ninf (a : ERat) : ¬ a < ninf := by cases a <;> exact id
@[simp] theorem not_fin_le_ninf (a : Rat) : ¬ fin a ≤ ninf := id
@[simp] theorem not_pinf_le_fin (a : Rat) : ¬ pinf ≤ fin a := id
@[simp] theorem not_pinf_le_ninf : ¬ pinf ≤ ninf := id

instance : LinearOrder ERat where
  le := ERat.le
  lt := ERat.lt
  le_refl a := by cases a <;> simp [ERat.le]
  le_trans a b c := by
    cases a <;> cases b <;> cases c <;> simp [ERat.le] <;> exact fun h1 h2 => Rat.le_trans h1 h2
  le_antisymm a b := by
    cases a <;> cases b <;> simp [ERat.le] <;> exact fun h1 h2 => Rat.le_antisymm h1 h2
  le_total a b := by
    cases a <;> cases b <;> simp [ERat.le] <;> exact Rat.le_total
  lt_iff_le_not_ge a b := by
    cases a <;> cases b <;> simp [ERat.le, ERat.lt]
    rename_i a b
    exact fun h => le_of_lt h
  toDecidableLE := ERat.decLe
  toDecidableLT := ERat.decLt
  toDecidableEq := inferInstance

end Cobald.ERat
